"""C06 — errors in background work surface at the right position, never swallowed.

E1 the worker records every exception before the sentinel     E2 stored error re-raised after delivery
E3 a failing source cannot overtake buffered results          C1 catch wrappers catch exactly the selection
C2 identity sentinels never cross a process boundary          C3 sentinels compared by identity
"""
import ast

from .. import astutil as A
from .. import flow
from ..cfg import CFG, normal, node_roots, node_contains
from ..effects import INPUT_ATTR
from ..model import AnalysisError
from . import common as K
from .par import LPM, STP

META = {
    'id': 'C06',
    'technique': 'exceptional-edge analysis on the CFG of the worker and of the submit loop (which exception classes '
                 'reach the end sentinel / the function exit without passing the recording assignment / the drain), '
                 'handler-type provenance for the catch wrappers, escape analysis of identity sentinels',
    'explanation': 'In the prefetch worker every exceptional edge out of the production loop reaches the assignment of '
                   'the error slot before the end sentinel is put (no exception class can end the stream silently); the '
                   'consumer re-raises the stored exception after its delivery loop and shutdown; in lazy_parallel_map an '
                   'exception of the source cannot leave the generator while computed results are still queued; the '
                   'catcher wrappers of the multi-worker path wrap only the lookup in a try with exactly one handler '
                   'whose type is the configured selection (True -> FilterException on both the pool and the '
                   'single-thread path) and signal a dropped example with a sentinel compared by identity; such a '
                   'sentinel must keep its identity through every backend it can be sent through (a process pool '
                   'pickles results, so a local object() does not). Interleavings are not explored.',
    'not_decided': 'interleavings of error, delivery and shutdown',
    'assumptions': ['concurrent.futures / multiprocessing store the exception of a task (BaseException included) and '
                    're-raise it from result()/get()', 'pickle preserves identity only for objects pickled by reference '
                    '(classes, functions, None, True/False, Ellipsis, NotImplemented)'],
}


def rule_e12(ctx):
    rep = ctx.report
    S = STP(ctx)
    g = S.wcfg
    item_puts, sent_puts = S.worker_puts()
    w = S.worker
    loops = [n for n in A.walk_local(w) if isinstance(n, ast.For) and A.is_name(n.iter, 'generator')]
    if not loops:
        raise AnalysisError('undecidable shape: worker production loop not found')
    loop = loops[0]
    tries = [a for a in A.ancestors(loop) if isinstance(a, ast.Try) and any(a is x for x in ast.walk(w))]
    if not tries:
        rep.ob('E1', 'parallel_utils.single_thread_prefetch.worker::production-loop-inside-try', False, loop,
               'the production loop is not inside try/except: an error in the source kills the thread silently and the '
               'consumer blocks forever')
        return
    t = tries[0]
    # which handlers record the exception?
    recorders = [h for h in t.handlers if any(isinstance(n, ast.Assign) and isinstance(n.targets[0], ast.Name)
                                              and n.targets[0].id in S.exc_names for n in A.walk_stmts(h.body))]
    rep.ob('E1', 'parallel_utils.single_thread_prefetch.worker::handler-records-the-exception', bool(recorders), t,
           '' if recorders else 'no handler stores the exception for the consumer')
    # uncaught edges out of the try body that still reach the sentinel put
    head = [nd for nd in g.nodes if nd.kind == 'for' and nd.ast is loop and not nd.tag][0]
    body_nodes = [nd for nd in g.stmt_nodes() if not nd.tag and any(nd.ast is x or node_in(nd, s) for s in t.body for x in [s])]
    sent_ids = {p.id for p in sent_puts}
    uncaught_sources = []
    for nd in g.nodes:
        if nd.tag or nd.ast is None:
            continue
        if not any(nd.ast is x for s in t.body for x in ast.walk(s)):
            continue
        for (y, k) in g.succ[nd.id]:
            if k == 'uncaught':
                # does that continuation put the sentinel?
                p = g.path_avoiding(y, lambda n2: n2.id in sent_ids, None, edge_ok=None)
                if p is not None or y in sent_ids:
                    uncaught_sources.append(nd)
    types = [A.src(h.type) if h.type is not None else 'BaseException' for h in t.handlers]
    ok = not uncaught_sources
    rep.ob('E1', 'parallel_utils.single_thread_prefetch.worker::uncaught-edge-before-sentinel', ok,
           uncaught_sources[0].ast if uncaught_sources else t,
           '' if ok else 'the handlers catch only %s: any other exception raised by the source or a mapped function '
           '(a BaseException subclass, SystemExit, KeyboardInterrupt raised in the thread) skips the recording, the '
           '`finally` still puts the end sentinel, and the consumer sees a normal, silently truncated stream' % types)
    # recording happens before the sentinel: handler body is before finally by construction; make sure the handler
    # does not itself put the sentinel before assigning
    for h in recorders:
        first_put = [n.lineno for n in A.walk_stmts(h.body) if isinstance(n, ast.Call) and isinstance(n.func, ast.Attribute)
                     and n.func.attr == 'put']
        first_asg = [n.lineno for n in A.walk_stmts(h.body) if isinstance(n, ast.Assign) and isinstance(n.targets[0], ast.Name)
                     and n.targets[0].id in S.exc_names]
        ok = not first_put or min(first_asg) < min(first_put)
        rep.ob('E2', 'parallel_utils.single_thread_prefetch.worker::error-stored-before-the-sentinel', ok, h, '')
    # E2 consumer: re-raise after the try/finally
    fn = S.fn
    derived = set(S.exc_names)
    for n in A.walk_local(fn):
        if isinstance(n, ast.Assign) and any(isinstance(x, ast.Name) and x.id in S.exc_names for x in ast.walk(n.value)):
            for t in n.targets:
                derived.update(A.name_targets(t))
    end_try = max(getattr(x, 'lineno', 0) for x in ast.walk(S.consumer_try))
    reraise = None
    ok = False
    for r in A.walk_local(fn):
        if isinstance(r, ast.Raise) and r.exc is not None and r.lineno > end_try and not any(
                r is x for x in ast.walk(S.worker)):
            names = {x.id for x in ast.walk(r.exc) if isinstance(x, ast.Name)}
            if not (names & derived):
                continue
            reraise = r
            cond = False
            for test, truth in flow.guards_of(r, fn):
                t, neg = A.strip_not(test)
                eff = (truth != neg)
                if isinstance(t, ast.Compare) and len(t.ops) == 1 and isinstance(t.left, ast.Name) and t.left.id in S.exc_names \
                        and A.is_const(t.comparators[0], None):
                    if (isinstance(t.ops[0], ast.IsNot) and eff) or (isinstance(t.ops[0], ast.Is) and not eff):
                        cond = True
                elif isinstance(t, ast.Name) and t.id in S.exc_names and eff:
                    cond = True
            # the exception object itself (index 1 of sys.exc_info() or the stored exception), no new cause
            e = flow.expand(r.exc, fn)
            same = r.cause is None and any(isinstance(x, ast.Name) and x.id in derived for x in ast.walk(r.exc))
            ok = cond and same
    rep.ob('E2', 'parallel_utils.single_thread_prefetch::stored-error-re-raised-after-delivery-and-shutdown', ok,
           reraise or fn,
           '' if ok else 'after the delivery loop and its finally block the consumer must re-raise the very exception the '
           'worker stored (if any)')
    early = [x for s in S.consumer_try.body + S.consumer_try.finalbody for x in ast.walk(s) if isinstance(x, ast.Raise)
             and x.exc is not None and any(e in A.src(x.exc) for e in S.exc_names)]
    rep.ob('E2', 'parallel_utils.single_thread_prefetch::error-not-raised-before-earlier-items-are-delivered', not early,
           early[0] if early else fn, '')
    # consumer never swallows: no handler in consumer try except queue.Empty in finally
    sw = [h for h in S.consumer_try.handlers]
    rep.ob('E2', 'parallel_utils.single_thread_prefetch::consumer-has-no-swallowing-handler', not sw, sw[0] if sw else fn, '')


def node_in(nd, stmt):
    return any(nd.ast is x for x in ast.walk(stmt))


def rule_e3(ctx):
    rep = ctx.report
    L = LPM(ctx)
    g = L.cfg
    head = [nd for nd in g.nodes if nd.kind == 'for' and nd.ast is L.loop and not nd.tag][0]
    drains = {nd.id for nd in g.stmt_nodes() if nd.kind == 'stmt' and A.contains_yield(nd.ast)
              and not any(nd.ast is x for x in ast.walk(L.loop))}
    # exceptional continuations of the source pull
    bad = None
    for (y, k) in g.succ[head.id]:
        if k == 'uncaught':
            if y == g.raise_exit.id:
                bad = [head, g.nodes[y]]
            else:
                p = g.path_avoiding(y, lambda nd: nd.id == g.raise_exit.id, lambda nd: nd.id in drains, edge_ok=None)
                if p is not None:
                    bad = [head] + p
        elif k == 'exc':
            h = g.nodes[y]
            ty = A.src(h.ast.type) if h.ast.type is not None else 'BaseException'
            if ty in ('GeneratorExit', 'StopIteration'):
                continue
            p = g.path_avoiding(y, lambda nd: nd.id == g.raise_exit.id, lambda nd: nd.id in drains, edge_ok=None)
            if p is not None:
                bad = [head] + p
    ok = bad is None
    rep.ob('E3', 'parallel_utils.lazy_parallel_map::source-exc-bypasses-drain', ok, L.loop,
           '' if ok else 'when the source iterator raises while results of earlier elements are still queued, the '
           'exception leaves the generator at once: the consumer gets the error before the examples that precede the '
           'failing one (up to buffer_size of them are lost)',
           path=[repr(x) for x in bad if x.ast is not None] if bad else None)
    # function errors surface in submission order: result() of the head future raises at its position (Q3 of C04);
    # nothing in the function swallows exceptions
    sw = [h for n in A.walk_stmts(L.with_.body) if isinstance(n, ast.Try) for h in n.handlers
          if not (isinstance(h.body[-1], ast.Raise) and h.body[-1].exc is None)]
    rep.ob('E3', 'parallel_utils.lazy_parallel_map::every-handler-re-raises', not sw, sw[0] if sw else L.fn,
           '' if not sw else 'a handler around the delivery does not re-raise: errors of mapped functions are swallowed')
    for label, stmts, node in L.branches:
        ad = L.adapters(stmts)
        for slot in ('submit', 'result'):
            f = ad.get(slot)
            if f is None:
                continue
            trs = [n for n in ast.walk(f) if isinstance(n, ast.Try)]
            rep.ob('E3', 'parallel_utils.lazy_parallel_map::adapter-does-not-catch(%s | %s)' % (slot, label), not trs,
                   trs[0] if trs else f, '' if not trs else 'the %s adapter has its own exception handling' % slot)


def rule_c(ctx):
    rep = ctx.report
    pf = ctx.repo.cls('core.PrefetchDataset')
    it = pf.own('__iter__')
    if it is None:
        raise AnalysisError('anchor vanished: PrefetchDataset.__iter__')
    fn = it.node
    core = ctx.repo.module('core')
    catchers = [n for n in ast.walk(fn) if isinstance(n, A.FUNC_TYPES) and n is not fn and any(
        isinstance(x, ast.Try) for x in ast.walk(n))]
    rep.floor('catcher wrappers', len(catchers), 2)
    # the selection local
    sel_defs = flow.assigned_names(fn)
    sentinels = set()
    for c in catchers:
        tries = [x for x in A.walk_local(c) if isinstance(x, ast.Try)]
        t = tries[0]
        param = c.args.args[0].arg
        only_lookup = len(t.body) == 1 and isinstance(t.body[0], ast.Return) and any(
            isinstance(s, ast.Subscript) and A.is_name(s.slice, param) for s in ast.walk(t.body[0]))
        one = len(t.handlers) == 1 and t.handlers[0].type is not None
        sel = t.handlers[0].type if one else None
        sel_ok = False
        if isinstance(sel, ast.Name) and sel.id in sel_defs:
            vals = sel_defs[sel.id]
            srcs = sorted(A.src(v) for v in vals)
            sel_ok = srcs == sorted(['FilterException', 'self.catch_filter_exception'])
        hret = [x for x in t.handlers[0].body if isinstance(x, ast.Return)] if one else []
        ret_sent = bool(hret) and isinstance(hret[0].value, ast.Name)
        if ret_sent:
            sentinels.add(hret[0].value.id)
        ok = only_lookup and one and sel_ok and ret_sent and not t.finalbody and not t.orelse
        rep.ob('C1', 'core.PrefetchDataset.__iter__.%s::catches-exactly-the-selection-around-the-lookup' % c.name, ok, t,
               '' if ok else 'the catcher must wrap only the lookup, with one handler whose type is the configured '
               'selection (True -> FilterException, else as given), returning the drop sentinel')
    # which lazy_parallel_map call runs under which polarity of self.catch_filter_exception
    cnames = {c.name for c in catchers}
    for call in [n for n in A.walk_local(fn) if isinstance(n, ast.Call) and A.dotted(n.func) == 'lazy_parallel_map']:
        f0 = call.args[0] if call.args else None
        catching = isinstance(f0, ast.Name) and f0.id in cnames
        pol = None
        for t, b in flow.guards_of(call, fn):
            tt, neg = A.strip_not(t)
            if A.is_self_attr(tt, 'catch_filter_exception'):
                pol = (b != neg)
        ok = pol is not None and pol == catching
        rep.ob('C1', 'core.PrefetchDataset.__iter__::%s-path-runs-iff-catching-is-%s' % (
            'catcher' if catching else 'plain', 'configured' if catching else 'off'), ok, call,
            '' if ok else 'the %s worker function is used when catch_filter_exception is %s: the selected exceptions %s' % (
                'catching' if catching else 'plain', 'off' if catching else 'set',
                'are swallowed although nothing was selected' if catching else 'propagate although they were selected'))
    base = ctx.repo.dataset_base()
    pcalls = [n for n in A.walk_local(base.own('prefetch').node) if isinstance(n, ast.Call) and A.dotted(n.func) == 'PrefetchDataset']
    for pc in pcalls:
        b = flow.bind(pc, pf.own('__init__').node)
        e = b.args.get('catch_filter_exception')
        ok = A.is_name(e, 'catch_filter_exception')
        rep.ob('CP', 'core.Dataset.prefetch::passes(catch_filter_exception)', ok, pc,
               '' if ok else 'Dataset.prefetch does not hand catch_filter_exception to the stage: the selection is ignored')
    # consumer drops by identity
    # the marker may be compared under its local name or under the (module level) name it is bound to
    for s_ in list(sentinels):
        for d in flow.assigned_names(fn).get(s_, []):
            if isinstance(d, ast.Name):
                sentinels.add(d.id)
    cmps = [n for n in A.walk_local(fn) if isinstance(n, ast.Compare) and any(
        isinstance(x, ast.Name) and x.id in sentinels for x in [n.left] + n.comparators)]
    rep.floor('sentinel comparisons in PrefetchDataset.__iter__', len(cmps), 1)
    for cmp_ in cmps:
        ok = all(isinstance(o, (ast.Is, ast.IsNot)) for o in cmp_.ops)
        rep.ob('C3', 'core.PrefetchDataset.__iter__::sentinel-compared-by-identity', ok, cmp_,
               '' if ok else 'the drop sentinel is compared with %s: examples that compare equal to it (numpy arrays: '
               'elementwise!) are dropped or raise' % A.short(cmp_))
    # dropped examples are skipped, others yielded unchanged
    for cmp_ in cmps:
        par = A.parent(cmp_)
        neg = False
        while isinstance(par, ast.UnaryOp) and isinstance(par.op, ast.Not):
            neg = not neg
            par = A.parent(par)
        if isinstance(par, ast.If):
            is_ = isinstance(cmp_.ops[0], ast.Is) != neg
            drop = par.body if is_ else par.orelse
            keep = par.orelse if is_ else par.body
            loopvar = A.src(cmp_.left)
            ok = not any(isinstance(x, (ast.Yield, ast.Break, ast.Return, ast.Raise)) for x in A.walk_stmts(drop)) and any(
                isinstance(x, ast.Yield) and A.src(x.value) == loopvar for x in A.walk_stmts(keep))
            rep.ob('C1', 'core.PrefetchDataset.__iter__::dropped-skipped-others-yielded-unchanged', ok, par,
                   '' if ok else 'exactly the sentinel results must be skipped; every other result must be yielded as is')
    # C2 identity scope
    for s in sorted(sentinels):
        defs = sel_defs.get(s, [])
        mod_level = core.constants.get(s) if not defs else None
        is_class = (s in core.classes and not defs) or (bool(defs) and all(
            isinstance(d, ast.Name) and d.id in core.classes and d.id not in sel_defs for d in defs))
        local_object = any(isinstance(d, ast.Call) and A.dotted(d.func) == 'object' for d in defs) or (
            mod_level is not None and isinstance(mod_level, ast.Call) and A.dotted(mod_level.func) == 'object')
        by_ref = is_class or (mod_level is not None and isinstance(mod_level, ast.Constant)
                              and mod_level.value in (None, True, False, Ellipsis))
        # is the backend statically restricted to threads where the catcher is used?
        calls = [n for n in A.walk_local(fn) if isinstance(n, ast.Call) and A.dotted(n.func) == 'lazy_parallel_map'
                 and n.args and isinstance(n.args[0], ast.Name) and n.args[0].id in {c.name for c in catchers}]
        restricted = True
        for c in calls:
            be = [kw.value for kw in c.keywords if kw.arg == 'backend']
            thread_only = bool(be) and isinstance(be[0], ast.Constant) and be[0].value in ('t', 'thread')
            guarded = any('backend' in A.src(t) and ("'t'" in A.src(t)) and b for t, b in flow.guards_of(c, fn)
                          if isinstance(t, ast.Compare) and isinstance(t.ops[0], (ast.In, ast.Eq)))
            restricted = restricted and (thread_only or guarded)
        ok = by_ref or (restricted and bool(calls))
        rep.ob('C2', 'core.PrefetchDataset.__iter__::sentinel-crosses-process(catcher)', ok,
               defs[0] if defs else fn,
               '' if ok else 'the drop sentinel %r is %s and travels back from the workers of any backend: with a process '
               'pool (mp, dill_mp, concurrent_mp, multiprocessing) the result is pickled, the parent receives a '
               'different object, `is` fails and the sentinel is delivered to the consumer as if it were an example' % (
                   s, 'a local object()' if local_object else 'not pickled by reference'))
    # single-thread path: CatchExceptionDataset with the same selection (DF in C14 checks the selection)
    st = pf.own('_single_thread_prefetch')
    if st is None:
        raise AnalysisError('anchor vanished: PrefetchDataset._single_thread_prefetch')
    wraps = [n for n in A.walk_local(st.node) if isinstance(n, ast.Call) and A.dotted(n.func) == 'CatchExceptionDataset']
    def is_the_input(e):
        if A.is_self_attr(e, INPUT_ATTR):
            return True
        if isinstance(e, ast.Name):
            prior = [n.value for n in A.walk_local(st.node) if isinstance(n, ast.Assign) and len(n.targets) == 1
                     and A.is_name(n.targets[0], e.id) and n.lineno < e.lineno and not any(x is e for x in ast.walk(n))]
            return bool(prior) and all(A.is_self_attr(v, INPUT_ATTR) for v in prior)
        return False
    ok = len(wraps) == 1 and any(kw.arg == 'exceptions' for kw in wraps[0].keywords) and bool(wraps[0].args) and is_the_input(wraps[0].args[0]) \
        and any(A.is_self_attr(A.strip_not(t)[0], 'catch_filter_exception') and (b != A.strip_not(t)[1])
                for t, b in flow.guards_of(wraps[0], st.node))
    rep.ob('C1', 'core.PrefetchDataset._single_thread_prefetch::wraps-input-in-catch-iff-configured', ok, st.node,
           '' if ok else 'on the single-thread path the input must be wrapped in CatchExceptionDataset(exceptions=<selection>) '
           'exactly when catch_filter_exception is set')
    # ... and the wrapped dataset is what reaches the prefetch helper, with and without keys
    pcall = [n for n in A.walk_local(st.node) if isinstance(n, ast.Call) and A.dotted(n.func) == 'single_thread_prefetch']
    flagp = K.with_key_param(st.node)
    if pcall and pcall[0].args:
        for catching in (True, False):
            for wk in ((True, False) if flagp else (None,)):
                def decide(test, catching=catching, wk=wk):
                    t, neg = A.strip_not(test)
                    if A.is_self_attr(t, 'catch_filter_exception'):
                        return catching != neg
                    if flagp and A.is_name(t, flagp):
                        return wk != neg
                    if isinstance(t, ast.Compare) and A.is_self_attr(t.left, 'catch_filter_exception'):
                        return None if catching else None
                    return None
                stmts, _ret = flow.run_under(st.node, decide)
                if stmts is None:
                    # selection of the exception type is an inner test the evaluator cannot decide: evaluate it as opaque
                    def decide2(test, d=decide):
                        r = d(test)
                        return True if r is None else r
                    stmts, _ret = flow.run_under(st.node, decide2)
                if stmts is None:
                    rep.undecided('C1', 'core.PrefetchDataset._single_thread_prefetch::prefetches-the-wrapped-input', st.node,
                                  'control flow of the helper not evaluable')
                    continue
                upto = [x for x in stmts if x.lineno < pcall[0].lineno]
                val = flow.symbolic_value(upto, pcall[0].args[0])
                wrapped = any(isinstance(x, ast.Call) and A.dotted(x.func) == 'CatchExceptionDataset' for x in ast.walk(val))
                okw = wrapped == catching
                rep.ob('C1', 'core.PrefetchDataset._single_thread_prefetch::prefetches-the-wrapped-input(catching=%s,with_key=%s)' % (
                    catching, wk), okw, pcall[0],
                    '' if okw else 'with catch_filter_exception %s and with_key=%s the helper prefetches `%s`: the catch wrapper is %s' % (
                        'set' if catching else 'off', wk, A.short(val, 60), 'bypassed' if catching else 'applied although nothing was selected'))
    call = [n for n in A.walk_local(st.node) if isinstance(n, ast.Call) and A.dotted(n.func) == 'single_thread_prefetch']
    ok = len(call) == 1 and isinstance(A.parent(call[0]), ast.Return)
    rep.ob('C1', 'core.PrefetchDataset._single_thread_prefetch::returns-the-prefetching-iterator', ok, st.node, '')
    # all sentinels in parallel_utils compared by identity
    S = STP(ctx)
    for n in A.walk_local(S.fn):
        if isinstance(n, ast.Compare) and any(A.is_name(x, S.sentinel) for x in [n.left] + n.comparators):
            ok = all(isinstance(o, (ast.Is, ast.IsNot)) for o in n.ops)
            rep.ob('C3', 'parallel_utils.single_thread_prefetch::sentinel-compared-by-identity', ok, n,
                   '' if ok else 'end sentinel compared with ==: an example equal to it ends the stream')


def rule_cp(ctx):
    """copies of catching stages keep the selection (prefetch, profiling, apply iterate a copy)"""
    rep = ctx.report
    for cname, params in (('core.PrefetchDataset', ('catch_filter_exception',)),
                          ('core.CatchExceptionDataset', ('exceptions',))):
        cls = ctx.repo.cls(cname)
        cp = cls.own('copy')
        init = cls.resolve('__init__')
        if cp is None or init is None:
            raise AnalysisError('anchor vanished: %s.copy / __init__' % cname)
        pa = flow.param_attrs(cls)
        calls = [n for n in A.walk_local(cp.node) if isinstance(n, ast.Call) and A.dotted(n.func) in (
            'self.__class__', cls.name, 'type(self)')]
        if not calls:
            raise AnalysisError('undecidable shape: %s.copy does not reconstruct the stage' % cname)
        b = flow.bind(calls[0], init.node)
        for p in params:
            e = b.args.get(p)
            ok = e is not None and any(A.is_self_attr(e, a) for a in pa.get(p, ()))
            rep.ob('CP', K.key(cls, 'copy', 'copy-keeps-the-selection(%s)' % p), ok, calls[0],
                   '' if ok else 'copy() does not pass %s on: the copy (which is what prefetch workers, lazy apply and the '
                   'profiler iterate) no longer filters the selected exception types, so the first filtered example ends '
                   'the stream with that exception' % p)


def rule_e2b(ctx):
    """nothing but the end sentinel ends the delivery loop: everything the worker queued before the failure is
    delivered before the stored error is raised"""
    rep = ctx.report
    S = STP(ctx)
    t = S.consumer_try
    loops = [n for n in t.body if isinstance(n, ast.While)]
    if len(loops) != 1:
        rep.ob('E2', 'parallel_utils.single_thread_prefetch::delivery-ends-only-at-the-sentinel', False, t,
               'delivery loop not found')
        return
    exits = [x for x in A.walk_stmts(loops[0].body) if isinstance(x, (ast.Break, ast.Return))]
    bad = []
    for x in exits:
        gs = flow.guards_of(x, loops[0])
        okx = len(gs) == 1
        if okx:
            tt, neg = A.strip_not(gs[0][0])
            okx = isinstance(tt, ast.Compare) and len(tt.ops) == 1 and isinstance(tt.ops[0], (ast.Is, ast.IsNot)) \
                and A.is_name(tt.comparators[0], S.sentinel) and isinstance(tt.left, ast.Name)
        if not okx:
            bad.append(x)
    ok = bool(exits) and not bad and A.is_const(loops[0].test, True)
    rep.ob('E2', 'parallel_utils.single_thread_prefetch::delivery-ends-only-at-the-sentinel', ok, bad[0] if bad else loops[0],
           '' if ok else 'the delivery loop also ends under `%s`: items the worker had already queued before the failure '
           '(or before that condition became true) are dropped instead of being delivered first' % (
               ' and '.join(A.short(g_[0], 50) for g_ in flow.guards_of(bad[0], loops[0])) if bad else A.short(loops[0].test)))


def run(ctx):
    rule_cp(ctx)
    rule_e2b(ctx)
    rule_e12(ctx)
    rule_e3(ctx)
    rule_c(ctx)
    # a spurious error at the very end of a catching iteration is an error at the wrong position too
    from . import c14
    c14.rule_sb(ctx)
    # ... and so is an upstream error that a stage takes for its own signal
    c14.rule_t6(ctx)
