"""C04 — prefetch and parallel map are transparent: same examples, same order.

Q1-Q5 FIFO discipline of lazy_parallel_map       B backend adapters agree
S1-S4 single_thread_prefetch hand-over           L length forwarded        I what is mapped over what
"""
import ast

from .. import astutil as A
from .. import flow
from ..cfg import CFG, normal, node_roots, node_contains, loop_body_paths
from ..effects import INPUT_ATTR
from ..model import AnalysisError
from . import common as K
from .par import LPM, STP

META = {
    'id': 'C04',
    'technique': 'structural (schedule-independent) argument: FIFO-discipline rules on the CFG of the two helpers '
                 '(queue class, one submit per element, head-of-queue blocking retrieval, drain), sibling agreement '
                 'of the backend adapters stored in the submit/result/terminate slots',
    'explanation': 'Decides that the code follows the discipline from which "same examples, same order, exactly once" '
                   'follows for every schedule, given the stdlib contracts: the future queue is a plain FIFO '
                   'queue.Queue bound once; on every normal path of the submit loop exactly one future of '
                   'function(element, *args, **kwargs) is enqueued; every yield delivers result(q.get()) of the queue '
                   'head with a blocking untimed get; the loop is followed by a drain that empties the queue; the queue '
                   'is touched by one thread only; every backend adapter forwards func/args/kwargs in the same order '
                   'and returns the blocking outcome of its own argument; the hand-over of single_thread_prefetch uses '
                   'one FIFO queue, one producer thread putting each pulled element once in source order, and a consumer '
                   'yielding exactly what it got unless it is the sentinel by identity; lengths are forwarded. '
                   'This is a structural argument, not an exploration of schedules.',
    'not_decided': 'enumeration of schedules (the discipline makes the result schedule independent, assuming the stdlib contracts)',
    'assumptions': ['queue.Queue is FIFO and thread safe', 'Future.result()/AsyncResult.get() return the task outcome',
                    'executors run each submitted task exactly once'],
}


def rule_q(ctx):
    rep = ctx.report
    L = LPM(ctx)
    fn, q = L.fn, L.q
    a = L.q_assigns
    full = L.mod.resolve_name(A.dotted(a[0].value.func) or '') if isinstance(a[0].value, ast.Call) else A.short(a[0].value)
    all_q_defs = [n for n in ast.walk(fn) if isinstance(n, (ast.Assign, ast.AugAssign)) and any(
        A.is_name(t, q) for t in (n.targets if isinstance(n, ast.Assign) else [n.target]))]
    ok = len(all_q_defs) == 1 and full == 'queue.Queue' and not a[0].value.args and not a[0].value.keywords
    rep.ob('Q1', 'parallel_utils.lazy_parallel_map::future-queue-is-one-plain-FIFO', ok, a[0],
           '' if ok else 'the queue of futures must be bound once to queue.Queue() (FIFO, unbounded); found %s%s' % (
               full, ', rebound %d times' % (len(all_q_defs) - 1) if len(all_q_defs) > 1 else ''))
    # Q2 one submit per element on every normal path
    g = L.cfg
    head = [nd for nd in g.nodes if nd.kind == 'for' and nd.ast is L.loop and not nd.tag]
    if not head:
        raise AnalysisError('submit loop not found in the CFG')
    head = head[0]
    puts = L.q_calls(L.loop, 'put') + L.q_calls(L.loop, 'put_nowait')
    paths = loop_body_paths(g, head)
    counts = []
    for p in paths:
        # only complete iterations (paths that come back to the head)
        counts.append(sum(1 for nd in p for c in puts if node_contains(nd, c)))
    ok = bool(paths) and set(counts) == {1} and len(puts) == 1
    rep.ob('Q2', 'parallel_utils.lazy_parallel_map::one-submit-per-element-on-every-path', ok, L.loop,
           '' if ok else 'paths through one loop iteration enqueue %s futures (must be exactly 1 on each)' % sorted(set(counts)))
    rep.count('paths through the submit loop body', len(paths))
    if puts:
        c = puts[0]
        arg = c.args[0] if c.args else None
        elem = L.loop.target.id if isinstance(L.loop.target, ast.Name) else None
        ok = isinstance(arg, ast.Call) and A.is_name(arg.func, L.n_submit) and len(arg.args) == 4 \
            and A.is_name(arg.args[0], L.executor or '\0') and A.is_name(arg.args[1], 'function') \
            and A.is_name(arg.args[2], elem or '\0') and isinstance(arg.args[3], ast.Starred) \
            and A.is_name(arg.args[3].value, 'args') and len(arg.keywords) == 1 and arg.keywords[0].arg is None \
            and A.is_name(arg.keywords[0].value, 'kwargs') and c.func.attr == 'put'
        rep.ob('Q2', 'parallel_utils.lazy_parallel_map::submits-function(element,*args,**kwargs)', ok, c,
               '' if ok else 'the enqueued future must be submit(executor, function, <loop element>, *args, **kwargs); '
               'found %s' % A.short(arg, 80))
    # Q6 what the caller passed is what is used: a parameter is rebound only to replace a missing value (`p is None`)
    params = [x.arg for x in fn.args.posonlyargs + fn.args.args + fn.args.kwonlyargs]
    n_rebinds = 0
    for n in A.walk_local(fn):
        tgts = []
        if isinstance(n, ast.Assign):
            tgts = [t for tg in n.targets for t in A.name_targets(tg)]
        elif isinstance(n, (ast.AugAssign, ast.AnnAssign)) and isinstance(n.target, ast.Name):
            tgts = [n.target.id]
        for pn in tgts:
            if pn not in params:
                continue
            n_rebinds += 1
            only_if_missing = False
            for t0, truth in flow.guards_of(n, fn):
                t, neg = A.strip_not(t0)
                if isinstance(t, ast.Compare) and len(t.ops) == 1 and A.is_name(t.left, pn) and A.is_const(t.comparators[0], None):
                    is_none = isinstance(t.ops[0], ast.Is) if isinstance(t.ops[0], (ast.Is, ast.IsNot)) else None
                    if is_none is not None and (is_none != neg) == truth:
                        only_if_missing = True
            rep.ob('Q6', 'parallel_utils.lazy_parallel_map::parameter-replaced-only-when-missing(%s)' % pn, only_if_missing, n,
                   '' if only_if_missing else '`%s` is overwritten although the caller supplied it: the mapped function is '
                   'called with other arguments / another configuration than requested' % pn)
    rep.count('parameter rebinds in lazy_parallel_map', n_rebinds)
    # Q7 the backend dispatch, evaluated abstractly for every documented backend value (and an undocumented one): the
    # executor that ends up bound is the documented one; an unknown name is refused
    UNKNOWN = '<any other value>'
    TABLE = {'mp': 'pathos pool', 'multiprocessing': 'multiprocessing.Pool', 'dill_mp': 'process pool + dill',
             't': 'thread pool', 'thread': 'thread pool', 'concurrent_mp': 'process pool', False: 'inline (no pool)',
             UNKNOWN: 'refused'}

    def run_stmts(stmts, value, out):
        return L.run_stmts(stmts, value, out, fn=fn)
    disp = L.dispatch()
    with_items = L.with_.items[0].context_expr if L.with_.items else None
    pool_name = A.dotted(with_items.func) if isinstance(with_items, ast.Call) else None
    imports = {}
    for n in ast.walk(fn):
        if isinstance(n, ast.ImportFrom):
            for al in n.names:
                imports[al.asname or al.name] = '%s.%s' % (n.module, al.name)
    for value, expect in TABLE.items():
        out = []
        run_stmts(disp, 'no-such-backend' if value is UNKNOWN else value, out)
        got = None
        if any(k == 'undecided' for k, _ in out):
            rep.undecided('Q7', 'parallel_utils.lazy_parallel_map::backend(%r)->%s' % (value, expect), out[-1][1],
                          'the dispatch test `%s` does not only depend on the backend' % A.short(out[-1][1].test, 50))
            continue
        if out and out[-1][0] == 'raise':
            got = 'refused'
        for k, st in out:
            if k != 'stmt':
                continue
            bound = None
            if isinstance(st, ast.Assign) and any(A.is_name(t, pool_name or '\0') for t in st.targets):
                bound = A.dotted(st.value) or ''
                bound = imports.get(bound, L.mod.resolve_name(bound) or bound)
            elif isinstance(st, ast.ImportFrom) and any((al.asname or al.name) == pool_name for al in st.names):
                bound = '%s.%s' % (st.module, [al.name for al in st.names if (al.asname or al.name) == pool_name][0])
            elif isinstance(st, A.FUNC_TYPES) and st.name == pool_name:
                bound = 'inline'
            if bound is None:
                continue
            if bound.endswith('ThreadPoolExecutor'):
                got = 'thread pool'
            elif bound.endswith('ProcessPoolExecutor'):
                uses_dill = any(isinstance(s2, A.FUNC_TYPES) and s2.name == L.n_submit and '_dill_mp_helper' in A.src(s2)
                                for k2, s2 in out if k2 == 'stmt')
                got = 'process pool + dill' if uses_dill else 'process pool'
            elif bound.startswith('pathos'):
                got = 'pathos pool'
            elif bound == 'multiprocessing.Pool':
                got = 'multiprocessing.Pool'
            elif bound == 'inline':
                got = 'inline (no pool)'
            else:
                got = bound
        defines = {s2.name for k2, s2 in out if k2 == 'stmt' and isinstance(s2, A.FUNC_TYPES)}
        complete = got == 'refused' or {L.n_submit, L.n_result, L.n_terminate} <= defines
        ok = got == expect and complete
        rep.ob('Q7', 'parallel_utils.lazy_parallel_map::backend(%r)->%s' % (value, expect), ok, disp[0],
               '' if ok else 'backend=%r %s (documented: %s)' % (
                   value, ('selects: %s' % got) if got != expect else 'does not define submit/result/terminate', expect))
    # Q3 every yield delivers result(q.get()) blocking/untimed
    ys = A.yields_in(fn)
    rep.floor('yields in lazy_parallel_map', len(ys), 1)
    for y in ys:
        v = y.value
        ok = isinstance(y, ast.Yield) and isinstance(v, ast.Call) and A.is_name(v.func, L.n_result) and len(v.args) == 1 \
            and isinstance(v.args[0], ast.Call) and isinstance(v.args[0].func, ast.Attribute) \
            and v.args[0].func.attr == 'get' and L.is_q(v.args[0].func.value) and not v.args[0].args \
            and not [kw for kw in v.args[0].keywords if not (kw.arg == 'block' and A.is_const(kw.value, True))]
        rep.ob('Q3', 'parallel_utils.lazy_parallel_map::yield-is-result(head-of-queue,blocking)', ok, y,
               '' if ok else 'every delivery must be `yield result(q.get())` with a blocking, untimed get of the '
               'queue head; found %s' % A.short(y, 70))
    # no other retrieval
    gets = L.q_calls(L.with_, 'get') + L.q_calls(L.with_, 'get_nowait')
    inside = [gc for gc in gets if any(any(x is gc for x in ast.walk(y)) for y in ys)]
    ok = len(inside) == len(gets)
    rep.ob('Q3', 'parallel_utils.lazy_parallel_map::queue-read-only-by-deliveries', ok, fn,
           '' if ok else 'a future is taken from the queue without being delivered (lost example)')
    # Q4 drain
    block = A.parent(L.loop).body if hasattr(A.parent(L.loop), 'body') else []
    idx = [i for i, s in enumerate(block) if s is L.loop]
    nxt = block[idx[0] + 1] if idx and idx[0] + 1 < len(block) else None
    ok = False
    if isinstance(nxt, ast.While):
        kind, ats = A.atoms(nxt.test)
        s = A.src(nxt.test)
        cond = (s == 'not %s.empty()' % q) or any(
            len(a_) == 3 and a_[2] is not None and A.src(a_[0]) == '%s.qsize()' % q and a_[1] in ('>', '!=')
            and A.int_value(a_[2]) == 0 for a_ in ats) or s == '%s.qsize()' % q
        body_ok = len(nxt.body) == 1 and isinstance(nxt.body[0], ast.Expr) and isinstance(nxt.body[0].value, ast.Yield)
        ok = cond and body_ok and not nxt.orelse
    rep.ob('Q4', 'parallel_utils.lazy_parallel_map::drain-after-the-loop-until-empty', ok, nxt or L.loop,
           '' if ok else 'after the source is exhausted the remaining futures must be delivered by '
           '`while not q.empty(): yield result(q.get())`')
    ok = not L.loop.orelse and not any(isinstance(x, (ast.Break, ast.Return)) for x in A.walk_stmts(L.loop.body))
    rep.ob('Q4', 'parallel_utils.lazy_parallel_map::submit-loop-runs-to-exhaustion', ok, L.loop,
           '' if ok else 'the submit loop leaves early (break/return): remaining source elements are skipped')
    # Q5 the queue escapes only to terminate
    bad = []
    for n in ast.walk(L.with_):
        if A.is_name(n, q) and isinstance(n.ctx, ast.Load):
            p = A.parent(n)
            if isinstance(p, ast.Attribute) and p.attr in ('put', 'get', 'qsize', 'empty', 'get_nowait', 'put_nowait'):
                continue
            if isinstance(p, ast.Call) and A.is_name(p.func, L.n_terminate) and n in p.args:
                continue
            bad.append(n)
    rep.ob('Q5', 'parallel_utils.lazy_parallel_map::queue-confined-to-the-consumer-thread', not bad, bad[0] if bad else fn,
           '' if not bad else 'the queue of futures escapes to %s' % A.short(A.parent(bad[0])))
    # the source is iterated directly
    it = flow.copy_prop(L.loop.iter, fn)
    ok = A.is_name(it, 'generator')
    rep.ob('Q2', 'parallel_utils.lazy_parallel_map::source-iterated-in-order-lazily', ok, L.loop,
           '' if ok else 'the source must be iterated directly (no sorted/reversed/list): ' + A.short(L.loop.iter))


def _submit_shape(fnode, helper_mod):
    """classify what a backend `submit(ex, func, *args, **kwargs)` forwards. returns (ok, detail)"""
    rets = [r for r in flow.returns_of(fnode) if r.value is not None]
    if len(rets) != 1:
        return False, 'submit has %d returns' % len(rets)
    call = rets[0].value
    if not isinstance(call, ast.Call):
        return False, 'submit does not return a call'
    params = [a.arg for a in fnode.args.args]
    if len(params) < 2 or not fnode.args.vararg or not fnode.args.kwarg:
        return False, 'submit signature is not (ex, func, *args, **kwargs)'
    ex, func = params[0], params[1]
    va, ka = fnode.args.vararg.arg, fnode.args.kwarg.arg
    # direct call: func(*args, **kwargs)
    if A.is_name(call.func, func):
        ok = len(call.args) == 1 and isinstance(call.args[0], ast.Starred) and A.is_name(call.args[0].value, va) \
            and len(call.keywords) == 1 and call.keywords[0].arg is None and A.is_name(call.keywords[0].value, ka)
        return ok, 'serial: func(*args, **kwargs)'
    if isinstance(call.func, ast.Attribute) and A.is_name(call.func.value, ex):
        m = call.func.attr
        if m in ('submit', 'apipe'):
            if call.args and A.is_name(call.args[0], func):
                ok = len(call.args) == 2 and isinstance(call.args[1], ast.Starred) and A.is_name(call.args[1].value, va) \
                    and len(call.keywords) == 1 and call.keywords[0].arg is None and A.is_name(call.keywords[0].value, ka)
                return ok, '%s(func, *args, **kwargs)' % m
            # payload form
            if len(call.args) == 2 and isinstance(call.args[0], ast.Name) and call.args[0].id in helper_mod.functions:
                helper = helper_mod.functions[call.args[0].id]
                payload = flow.copy_prop(call.args[1], fnode)
                ok = isinstance(payload, ast.Call) and (A.dotted(payload.func) or '').endswith('dumps') and payload.args \
                    and isinstance(payload.args[0], ast.Tuple) and [A.src(e) for e in payload.args[0].elts] == [func, va, ka]
                # helper unpacks in the same order and calls fun(*args, **kwargs)
                hp = helper.args.args[0].arg
                unpack = [n for n in A.walk_local(helper) if isinstance(n, ast.Assign) and isinstance(n.targets[0], ast.Tuple)
                          and isinstance(n.value, ast.Call) and (A.dotted(n.value.func) or '').endswith('loads')
                          and A.is_name(n.value.args[0], hp)]
                ok2 = False
                if unpack and len(unpack[0].targets[0].elts) == 3:
                    f2, a2, k2 = [e.id for e in unpack[0].targets[0].elts]
                    hr = [r for r in flow.returns_of(helper) if r.value is not None]
                    ok2 = len(hr) == 1 and isinstance(hr[0].value, ast.Call) and A.is_name(hr[0].value.func, f2) \
                        and len(hr[0].value.args) == 1 and isinstance(hr[0].value.args[0], ast.Starred) \
                        and A.is_name(hr[0].value.args[0].value, a2) and len(hr[0].value.keywords) == 1 \
                        and A.is_name(hr[0].value.keywords[0].value, k2)
                return ok and ok2, 'dill payload (func, args, kwargs) -> helper'
        if m == 'apply_async':
            ok = len(call.args) == 3 and A.is_name(call.args[0], func) and A.is_name(call.args[1], va) \
                and A.is_name(call.args[2], ka) and not call.keywords
            return ok, 'apply_async(func, args, kwargs)'
    return False, 'unrecognised submission %s' % A.short(call, 60)


def rule_b(ctx):
    rep = ctx.report
    L = LPM(ctx)
    rep.floor('backend branches', len(L.branches), 3)
    for label, stmts, node in L.branches:
        ad = L.adapters(stmts)
        # nested if (t/thread vs concurrent_mp) may hold PoolExecutor only
        for slot in ('submit', 'result', 'terminate'):
            if slot not in ad:
                rep.ob('B', 'parallel_utils.lazy_parallel_map::adapter-bound(%s | %s)' % (slot, label), False, node,
                       'the backend branch `%s` does not define %s' % (label, slot))
        binds_pool = any(isinstance(n, (ast.Assign, ast.ImportFrom, ast.Import) + A.FUNC_TYPES) and 'PoolExecutor' in A.src(n)
                         for n in A.walk_stmts(stmts))
        rep.ob('B', 'parallel_utils.lazy_parallel_map::executor-bound(%s)' % label, binds_pool, node,
               '' if binds_pool else 'the backend branch does not bind PoolExecutor')
        if 'submit' in ad:
            ok, detail = _submit_shape(ad['submit'], L.mod)
            rep.ob('B', 'parallel_utils.lazy_parallel_map::submit-forwards(func,args,kwargs | %s)' % label, ok, ad['submit'],
                   detail if ok else 'the submit adapter does not forward func, *args, **kwargs unchanged and in order: ' + detail)
        if 'result' in ad:
            r = ad['result']
            job = r.args.args[0].arg
            rets = [x for x in flow.returns_of(r) if x.value is not None]
            v = rets[0].value if len(rets) == 1 else None
            ok = v is not None and (A.is_name(v, job) or (
                isinstance(v, ast.Call) and isinstance(v.func, ast.Attribute) and v.func.attr in ('get', 'result')
                and A.is_name(v.func.value, job) and not v.args and not v.keywords))
            serial = v is not None and A.is_name(v, job)
            if serial:
                # only the serial pseudo backend may return the job itself
                ok = 'submit' in ad and _submit_shape(ad['submit'], L.mod)[1].startswith('serial')
            rep.ob('B', 'parallel_utils.lazy_parallel_map::result-is-blocking-outcome-of-its-argument(%s)' % label, ok, r,
                   '' if ok else 'result(job) must return job.result()/job.get() of its own argument, without timeout')
    # unknown backend rejected
    ok = any(isinstance(s, ast.Raise) for s in getattr(L, 'else_body', []))
    rep.ob('B', 'parallel_utils.lazy_parallel_map::unknown-backend-rejected', ok, L.fn, '')
    # executor is entered once around the whole delivery
    ok = isinstance(L.with_.items[0].context_expr, ast.Call) and A.is_name(L.with_.items[0].context_expr.func, 'PoolExecutor') \
        and A.is_name(L.with_.items[0].context_expr.args[0], 'max_workers')
    rep.ob('B', 'parallel_utils.lazy_parallel_map::one-executor(max_workers)-around-the-delivery', ok, L.with_, '')


def rule_s(ctx):
    rep = ctx.report
    S = STP(ctx)
    fn = S.fn
    full = S.mod.resolve_name(A.dotted(S.q_assign.value.func))
    ok = full == 'queue.Queue'
    rep.ob('S1', 'parallel_utils.single_thread_prefetch::hand-over-queue-is-FIFO', ok, S.q_assign,
           '' if ok else 'the hand-over queue must be queue.Queue (FIFO); found %s' % full)
    # S2 one thread, started once, outside loops
    starts = [n for n in A.walk_local(fn) if isinstance(n, ast.Call) and isinstance(n.func, ast.Attribute) and n.func.attr == 'start']
    in_loop = any(isinstance(a, (ast.For, ast.While)) for c in S.thread_calls + starts for a in A.ancestors(c) if a is not fn
                  and fn in list(A.ancestors(a)))
    ok = len(S.thread_calls) == 1 and len(starts) == 1 and not in_loop
    rep.ob('S2', 'parallel_utils.single_thread_prefetch::one-producer-thread-started-once', ok, S.thread_calls[0],
           '' if ok else '%d Thread constructions, %d starts%s: several producers interleave their puts' % (
               len(S.thread_calls), len(starts), ', inside a loop' if in_loop else ''))
    # S3 worker: one put of the loop variable per source element
    w = S.worker
    loops = [n for n in A.walk_local(w) if isinstance(n, ast.For) and A.is_name(n.iter, 'generator')]
    if len(loops) != 1:
        raise AnalysisError('undecidable shape: worker has %d loops over the source' % len(loops))
    loop = loops[0]
    g = S.wcfg
    head = [nd for nd in g.nodes if nd.kind == 'for' and nd.ast is loop and not nd.tag][0]
    item_puts, sent_puts = S.worker_puts()
    put_calls = [c for c in A.walk_stmts(loop.body) if isinstance(c, ast.Call) and isinstance(c.func, ast.Attribute)
                 and A.is_name(c.func.value, S.q) and c.func.attr in ('put', 'put_nowait')]
    paths = loop_body_paths(g, head)
    counts = sorted({sum(1 for nd in p for c in put_calls if node_contains(nd, c)) for p in paths
                     if any((head.id, k) in [(y, k2) for (y, k2) in g.succ[p[-1].id]] for k in ('back', 'continue', 'next', 'false', 'true'))})
    elem = loop.target.id if isinstance(loop.target, ast.Name) else None
    ok = counts == [1] and len(put_calls) == 1 and put_calls[0].args and A.is_name(put_calls[0].args[0], elem or '\0')
    rep.ob('S3', 'parallel_utils.single_thread_prefetch.worker::one-put(item)-per-source-element-in-order', ok, loop,
           '' if ok else 'iterations that continue enqueue %s items; the put must be data_queue.put(<loop element>) once' % counts)
    ok = not any(isinstance(x, ast.Call) and A.dotted(x.func) in ('sorted', 'reversed', 'list') for x in ast.walk(loop.iter))
    rep.ob('S3', 'parallel_utils.single_thread_prefetch.worker::source-pulled-in-order', ok, loop, '')
    # S4 consumer yields exactly what it got unless sentinel (identity)
    t = S.consumer_try
    gets = [n for n in A.walk_stmts(t.body) if isinstance(n, ast.Assign) and isinstance(n.value, ast.Call)
            and isinstance(n.value.func, ast.Attribute) and n.value.func.attr == 'get' and A.is_name(n.value.func.value, S.q)]
    ys = [y for y in A.walk_stmts(t.body) if isinstance(y, (ast.Yield, ast.YieldFrom))]
    ok = len(gets) == 1 and len(ys) == 1 and isinstance(ys[0], ast.Yield) and isinstance(gets[0].targets[0], ast.Name) \
        and A.is_name(ys[0].value, gets[0].targets[0].id) and not gets[0].value.args and not gets[0].value.keywords
    rep.ob('S4', 'parallel_utils.single_thread_prefetch::consumer-yields-exactly-the-object-it-got', ok, t,
           '' if ok else 'the consumer must `item = data_queue.get()` (blocking) and yield that same object')
    if gets and ys:
        got = gets[0].targets[0].id
        stop = False
        for test0, branch0 in flow.guards_of(ys[0], t):
            test, neg = A.strip_not(test0)
            branch = (branch0 != neg)
            if isinstance(test, ast.Compare) and len(test.ops) == 1 and A.is_name(test.left, got) \
                    and A.is_name(test.comparators[0], S.sentinel):
                if isinstance(test.ops[0], ast.Is) and not branch:
                    stop = True
                if isinstance(test.ops[0], ast.IsNot) and branch:
                    stop = True
        brk = []
        for n in A.walk_stmts(t.body):
            if not isinstance(n, ast.If):
                continue
            tt, neg = A.strip_not(n.test)
            if isinstance(tt, ast.Compare) and A.is_name(tt.left, got) and A.is_name(tt.comparators[0], S.sentinel) \
                    and isinstance(tt.ops[0], (ast.Is, ast.IsNot)):
                is_ = isinstance(tt.ops[0], ast.Is) != neg
                arm = n.body if is_ else n.orelse
                if any(isinstance(x, (ast.Break, ast.Return)) for x in arm):
                    brk.append(n)
        ok = stop or (bool(brk) and brk[0].lineno < ys[0].lineno)
        rep.ob('S4', 'parallel_utils.single_thread_prefetch::stops-on-the-sentinel-by-identity-only', ok, t,
               '' if ok else 'the end marker must be recognised with `is` and nothing else may end or skip deliveries')
    # delivery loop is unconditional `while True`
    wl = [n for n in t.body if isinstance(n, ast.While)]
    ok = len(wl) == 1 and A.is_const(wl[0].test, True)
    rep.ob('S4', 'parallel_utils.single_thread_prefetch::delivery-loop-runs-until-the-sentinel', ok, t, '')


def rule_li(ctx):
    rep = ctx.report
    pm = ctx.repo.cls('core.ParMapDataset')
    mp = ctx.repo.cls('core.MapDataset')
    lm = pm.resolve('__len__')
    ok = lm is not None and lm.owner is mp and any(
        isinstance(r.value, ast.Call) and A.dotted(r.value.func) == 'len' and A.is_self_attr(r.value.args[0], INPUT_ATTR)
        for r in flow.returns_of(lm.node))
    rep.ob('L', 'core.ParMapDataset.__len__::forwards-len(input)', ok, lm.node if lm else pm.node, '')
    pf = ctx.repo.cls('core.PrefetchDataset')
    ln = pf.own('__len__')
    ok = ln is not None and any(isinstance(r.value, ast.Call) and A.dotted(r.value.func) == 'len'
                                and A.is_self_attr(r.value.args[0], INPUT_ATTR) for r in flow.returns_of(ln.node))
    rep.ob('L', 'core.PrefetchDataset.__len__::forwards-len(input)-when-not-catching', ok, ln.node if ln else pf.node, '')
    # I: PrefetchDataset.__iter__
    it = pf.own('__iter__').node
    calls = [n for n in A.walk_local(it) if isinstance(n, ast.Call) and A.dotted(n.func) == 'lazy_parallel_map']
    rep.floor('lazy_parallel_map call sites in PrefetchDataset.__iter__', len(calls), 1)
    frozen = None
    for n in A.walk_local(it):
        if isinstance(n, ast.Assign) and isinstance(n.value, ast.Call) and isinstance(n.value.func, ast.Attribute) \
                and n.value.func.attr == 'copy' and A.is_self_attr(n.value.func.value, INPUT_ATTR):
            frozen = n.targets[0].id
    # every way through __iter__ that ends normally has delegated to one of the two helpers (a configuration for which
    # the generator simply ends yields nothing: the untested multi-worker paths would be silently empty)
    g_it = CFG(it)
    deleg = [n for n in A.walk_local(it) if isinstance(n, ast.Call) and (
        A.dotted(n.func) == 'lazy_parallel_map' or (isinstance(n.func, ast.Attribute) and A.is_name(n.func.value, 'self')
                                                     and n.func.attr.lstrip('_').startswith('single_thread')))]
    deleg_nodes = {nd.id for nd in g_it.nodes if nd.ast is not None and any(node_contains(nd, d) for d in deleg)}
    skip = g_it.path_avoiding(g_it.entry.id, lambda nd: nd.id == g_it.exit.id, lambda nd: nd.id in deleg_nodes, edge_ok=normal)
    rep.ob('I', 'core.PrefetchDataset.__iter__::every-normal-path-delegates-to-a-prefetch-helper', skip is None,
           skip[-2].ast if skip and len(skip) > 1 and skip[-2].ast is not None else it,
           '' if skip is None else 'a path through __iter__ ends without calling lazy_parallel_map or the single-thread '
           'helper: for that configuration the prefetched dataset is empty',
           path=[repr(x) for x in skip if x.ast is not None] if skip else None)
    lpm_fn = ctx.repo.module('parallel_utils').functions['lazy_parallel_map']
    it_names = set()
    for c in calls:
        gb = flow.bind(c, lpm_fn, skip_self=False).args.get('generator')
        if isinstance(gb, ast.Name):
            it_names.add(gb.id)
    if len(it_names) != 1:
        raise AnalysisError('undecidable shape: lazy_parallel_map call sites of PrefetchDataset.__iter__ do not share one '
                            'iterable variable (%s)' % sorted(it_names))
    it_name = it_names.pop()
    idefs = flow.assigned_names(it).get(it_name, [])
    okr = False
    okk = False
    for d in idefs:
        if isinstance(d, ast.Call) and A.dotted(d.func) == 'range':
            a0 = flow.copy_prop(d.args[0], it) if len(d.args) == 1 else None
            okr = a0 is not None and isinstance(a0, ast.Call) and A.dotted(a0.func) == 'len' and (
                A.is_self_attr(a0.args[0], INPUT_ATTR) or A.is_name(a0.args[0], frozen or '\0'))
        elif isinstance(d, ast.Call) and isinstance(d.func, ast.Attribute) and d.func.attr == 'keys' and not d.args:
            okk = True
    rep.ob('I', 'core.PrefetchDataset.__iter__::maps-over-range(len(input))-or-all-keys', okr and okk and len(idefs) == 2, it,
           '' if okr and okk else 'the index/key iterable must be range(len(input)) (no start/step) or input.keys(); found %s'
           % [A.short(d) for d in idefs])
    for c in calls:
        b = flow.bind(c, ctx.repo.module('parallel_utils').functions['lazy_parallel_map'], skip_self=False)
        ok = A.is_name(b.args.get('generator'), it_name)
        f = b.args.get('function')
        fdefs = []
        if isinstance(f, ast.Name):
            fdefs = [n for n in ast.walk(it) if isinstance(n, A.FUNC_TYPES) and n.name == f.id] + \
                flow.assigned_names(it).get(f.id, [])
        okf = bool(fdefs)
        for d in fdefs:
            if isinstance(d, A.FUNC_TYPES):
                looks = [s for s in ast.walk(d) if isinstance(s, ast.Subscript) and A.is_name(s.value, frozen or '\0')
                         and A.is_name(s.slice, d.args.args[0].arg)]
                okf = okf and len(looks) == 1
            else:
                okf = okf and isinstance(d, ast.Attribute) and d.attr == '__getitem__' and A.is_name(d.value, frozen or '\0')
        par = A.parent(c)
        delivered = isinstance(par, ast.YieldFrom) or isinstance(par, ast.For)
        for pname, attr in (('max_workers', 'num_workers'), ('backend', 'backend'), ('buffer_size', 'buffer_size')):
            e = b.args.get(pname)
            okp = A.is_self_attr(e, attr)
            rep.ob('I', 'core.PrefetchDataset.__iter__::configuration-reaches-the-helper-unchanged(%s)' % pname, okp, c,
                   '' if okp else 'lazy_parallel_map gets %s=%s instead of self.%s: the configured %s is not the one used '
                   '(e.g. 0 workers for an empty dataset, another backend)' % (pname, A.short(e) if e is not None else '<default>', attr, pname))
        rep.ob('I', 'core.PrefetchDataset.__iter__::maps-frozen-lookup-over-the-iterable', ok and okf and delivered, c,
               '' if ok and okf and delivered else 'lazy_parallel_map must map a lookup on the frozen copy over `iterable` '
               'and its results must be delivered in order')
    base = ctx.repo.dataset_base()
    for caller, callee_name, callee, params in (
            ('prefetch', 'PrefetchDataset', pf.own('__init__').node, ('num_workers', 'backend')),
            ('map', 'ParMapDataset', pm.own('__init__').node, ('num_workers', 'backend')),
            ('batch_map', 'map', base.own('map').node, ('num_workers', 'backend'))):
        cf = base.own(caller).node
        for c in [n for n in A.walk_local(cf) if isinstance(n, ast.Call) and (A.dotted(n.func) or '').split('.')[-1] == callee_name]:
            bb = flow.bind(c, callee)
            for p_ in params:
                e = bb.args.get(p_)
                okp = A.is_name(e, p_)
                rep.ob('I', 'core.Dataset.%s::passes(%s)->%s' % (caller, p_, callee_name), okp, c,
                       '' if okp else 'the requested %s does not reach %s (%s)' % (p_, callee_name, A.short(e) if e is not None else 'default'))
    # the single-thread shortcut is selected by the same condition where it is validated and where it is taken
    def shortcut_cond(fnode, prefix):
        for n in fnode.body:
            if isinstance(n, ast.If) and 'num_workers' in A.src(n.test) and 'backend' in A.src(n.test):
                return A.src(A.strip_not(n.test)[0]).replace(prefix, '')
        return None
    c1 = shortcut_cond(pf.own('__init__').node, 'self.')
    c2 = shortcut_cond(it, 'self.')
    rep.ob('I', 'core.PrefetchDataset::single-thread-shortcut-condition-agrees(__init__,__iter__)', c1 is not None and c1 == c2, it,
           '' if c1 == c2 else 'the constructor validates for `%s` but iteration takes the shortcut for `%s`' % (c1, c2))
    pi = pm.own('__iter__').node
    pcalls = [n for n in A.walk_local(pi) if isinstance(n, ast.Call) and A.dotted(n.func) == 'lazy_parallel_map']
    for c in pcalls:
        b = flow.bind(c, ctx.repo.module('parallel_utils').functions['lazy_parallel_map'], skip_self=False)
        f = b.args.get('function')
        gsrc = b.args.get('generator')
        okf = f is not None and flow.all_defs_satisfy(f, pi, lambda e: A.is_self_attr(e, 'map_function') or (
            isinstance(e, ast.Call) and (A.dotted(e.func) or '').endswith('partial')
            and any(A.is_self_attr(k.value, 'map_function') for k in e.keywords)))
        okg = gsrc is not None and flow.all_defs_satisfy(gsrc, pi, lambda e: A.is_self_attr(e, INPUT_ATTR) or (
            isinstance(e, ast.Call) and isinstance(e.func, ast.Attribute)
            and e.func.attr in ('__iter__', 'items') and A.is_self_attr(e.func.value, INPUT_ATTR)))
        ret = isinstance(A.parent(c), ast.Return)
        for pname, attr in (('max_workers', 'num_workers'), ('backend', 'backend'), ('buffer_size', 'buffer_size')):
            e = b.args.get(pname)
            okp = A.is_self_attr(e, attr)
            rep.ob('I', 'core.ParMapDataset.__iter__::configuration-reaches-the-helper-unchanged(%s)' % pname, okp, c,
                   '' if okp else 'lazy_parallel_map gets %s=%s instead of self.%s' % (
                       pname, A.short(e) if e is not None else '<default>', attr))
        rep.ob('I', 'core.ParMapDataset.__iter__::maps-map_function-over-the-input', okf and okg and ret, c,
               '' if okf and okg and ret else 'parallel map must map self.map_function over the input iteration and return it')
    rep.floor('lazy_parallel_map call sites in ParMapDataset.__iter__', len(pcalls), 1)
    # helper for the paired map keeps key with its own example
    h = pm.own('_with_key_map_function')
    if h is not None:
        fn = h.node
        rets = [r for r in flow.returns_of(fn) if r.value is not None]
        ok = False
        if len(rets) == 1 and isinstance(rets[0].value, ast.Tuple) and len(rets[0].value.elts) == 2:
            un = [n for n in A.walk_local(fn) if isinstance(n, ast.Assign) and isinstance(n.targets[0], ast.Tuple)
                  and A.is_name(n.value, fn.args.args[0].arg)]
            if un:
                kname, ename = [e.id for e in un[0].targets[0].elts]
                second = flow.copy_prop(rets[0].value.elts[1], fn)
                defs = flow.assigned_names(fn).get(ename, [])
                applied = any(isinstance(d, ast.Call) and A.is_name(d.func, 'func') and A.is_name(d.args[0], ename) for d in defs) \
                    or (isinstance(second, ast.Call) and A.is_name(second.func, 'func'))
                ok = A.is_name(rets[0].value.elts[0], kname) and applied
        rep.ob('I', 'core.ParMapDataset._with_key_map_function::returns(key,func(example))', ok, fn, '')


def rule_cs(ctx):
    """key iteration of the prefetch / parallel stages can succeed: no call of an own capability that only raises"""
    n = K.self_capability_stubs(ctx, 'CS', only=('PrefetchDataset', 'ParMapDataset', 'MapDataset'))
    ctx.report.floor('own-capability calls in the parallel stages', n, 1)


def run(ctx):
    rule_cs(ctx)
    rule_q(ctx)
    rule_b(ctx)
    rule_s(ctx)
    rule_li(ctx)
