"""C01 — iteration is repeatable: it never consumes or alters a dataset.

R1 read-only protocol members (writes to the stage only through verified memo / tabled stores)
R2 no one-shot iterator kept in instance state
R3 every __iter__ creates a fresh iterator per call (generator function or returns a call)
R4 no class-level mutable container shared by all instances of a stage
R5 inputs are traversed in their stored order (no reversed/sorted/set over the input tuple)
"""
import ast

from .. import astutil as A
from .. import flow
from ..effects import INPUT_ATTR, INPUTS_ATTR, LAZY_ITER_FUNCS
from ..model import AnalysisError
from . import common as K

META = {
    'id': 'C01',
    'technique': 'interprocedural write-effect analysis of the iteration/lookup/metadata members of every stage '
                 '(closed over self calls and property getters), kind inference for stored iterators',
    'explanation': 'Decides the second sentence of the property: iterating never consumes or alters a dataset. '
                   'For every Dataset subclass the members reachable from __iter__, __getitem__, __len__, keys, '
                   'indexable, ordered, items, __call__, __str__, __repr__ have no write effect on the stage object '
                   'except stores whose shape is verified (idempotent `if self.x is None: self.x = <metadata>` memos) '
                   'or that are governed by another property (the cache store C10, profiling counters C20, the '
                   'reshuffle permutation C12); no stage stores a one-shot iterator; every __iter__ builds a new '
                   'iterator per call; no mutable class attribute is shared between instances; the input tuple is '
                   'traversed in stored order. Equality with the eager reference interpreter (a value property) is '
                   'not decided.',
    'not_decided': 'equality of the yielded sequence with the eager list semantics',
    'assumptions': ['CPython generator semantics: a generator function call creates a new frame'],
}

PROTOCOL = ('__iter__', '__getitem__', '__len__', 'keys', 'indexable', 'ordered', 'items', '__call__',
            '__str__', '__repr__', '__contains__')

# (class in MRO, attribute) -> reason; the *shape* of memo stores is verified, these are governed elsewhere
WRITE_TABLE = {
    ('CacheDataset', '_cache'): 'the cache store itself (filled on a miss): governed by C10',
    ('CacheDataset', '_do_cache'): 'the low-memory latch: governed by C10.G',
    ('ProfilingDataset', 'time'): 'profiling counter shared with copies: governed by C20.CN',
    ('ProfilingDataset', 'hit_count'): 'profiling counter shared with copies: governed by C20.CN',
    ('ReShuffleDataset', '_permutation'): 'the per-epoch permutation, reshuffled in place: governed by C12.II',
}


def _is_memo_store(stmt, attr):
    """`self.<attr> = ...` on a path where `self.<attr> is None` holds: inside `if self.<attr> is None:` or after the
    guard clause `if self.<attr> is not None: return self.<attr>`. Returns the statements that compute the memo."""
    fn = A.enclosing_function(stmt)
    if fn is None:
        return None
    for test, truth in flow.guards_of(stmt, fn):
        t, neg = A.strip_not(test)
        eff = (truth != neg)
        if isinstance(t, ast.Compare) and len(t.ops) == 1 and A.is_self_attr(t.left, attr) and A.is_const(t.comparators[0], None):
            is_none = isinstance(t.ops[0], ast.Is)
            if (is_none and eff) or (isinstance(t.ops[0], ast.IsNot) and not eff):
                # the enclosing `if` body if there is one, else the function body (guard-clause form)
                for a in A.ancestors(stmt):
                    if isinstance(a, ast.If) and a.test is test:
                        return type('Memo', (), {'body': a.body})()
                return type('Memo', (), {'body': [s for s in fn.body if not (isinstance(s, ast.If) and s.test is test)]})()
    return None


def rule_r1(ctx):
    rep = ctx.report
    sites = 0
    tabled = 0
    members = 0
    for cls in K.family(ctx, floor=20):
        mro_names = {c.name for c in cls.mro}
        seen_nodes = set()
        for name in PROTOCOL:
            mem = cls.resolve(name)
            if mem is None or not mem.is_function:
                continue
            members += 1
            effs = ctx.effects.closed_effects(cls, name)
            for e in effs:
                if e.etype == 'WRITE_INPUT':
                    rep.ob('R1', K.key(cls, name, 'writes-into-input(%s)' % e.info[0]), False, e.node,
                           'a protocol member modifies the upstream dataset object')
                    continue
                if e.etype != 'WRITE_SELF' or id(e.node) in seen_nodes:
                    continue
                seen_nodes.add(id(e.node))
                sites += 1
                attr, how = e.info
                memo = _is_memo_store(e.node, attr) if how == 'rebind' else None
                if memo is not None:
                    # the memo value must be metadata only
                    fn = A.enclosing_function(e.node)
                    inner, _c = ctx.effects.local_effects(fn, cls, cls.module, stmts=memo.body)
                    dirty = [x for x in inner if x.etype in ('ITERATE', 'MATERIALISE', 'GETITEM', 'CALL_USERFN',
                                                             'RNG_DRAW')]
                    ok = not dirty
                    tabled += 1
                    rep.ob('R1', K.key(cls, e.origin.split('.')[-1], 'memo(%s)' % attr), ok, e.node,
                           'idempotent memo of metadata: `if self.%s is None: self.%s = ...`' % (attr, attr) if ok
                           else 'memo of self.%s is computed from examples / random draws (%s): repeated iteration '
                           'can observe a different value' % (attr, dirty[0]))
                    continue
                hit = [(c, a) for (c, a) in WRITE_TABLE if c in mro_names and a == attr]
                if hit:
                    tabled += 1
                    rep.ob('R1', K.key(cls, e.origin.split('.')[-1], 'tabled-store(%s)' % attr), True, e.node,
                           WRITE_TABLE[hit[0]], nontrivial=False)
                    continue
                rep.ob('R1', K.key(cls, e.origin.split('.')[-1], 'writes-self(%s:%s)' % (attr, how)), False, e.node,
                       '%s (reached from %s) modifies the stage object (self.%s, %s): iterating or inspecting the '
                       'dataset changes it' % (e.origin, name, attr, how))
    rep.count('protocol members analysed (closed over self calls)', members)
    rep.count('write sites seen', sites)
    rep.summary('R1', 'core::no-untabled-write-in-protocol-members',
                '%d members, %d write sites, %d verified memo/tabled' % (members, sites, tabled))
    rep.floor('write sites in protocol members', sites, 8)


def _is_iterator_expr(expr, fctx, module, repo):
    if isinstance(expr, ast.GeneratorExp):
        return 'generator expression'
    if isinstance(expr, ast.Call):
        d = A.dotted(expr.func)
        full = module.resolve_name(d) if d else None
        if full in LAZY_ITER_FUNCS or full in ('reversed',):
            return full
        if isinstance(expr.func, ast.Attribute) and expr.func.attr in ('__iter__', 'items', 'values') \
                and expr.func.attr == '__iter__':
            return '__iter__()'
        if d and d in module.functions and A.contains_yield(module.functions[d]):
            return 'generator function %s' % d
        if fctx is not None and fctx.kind(expr) == 'ITER':
            return 'iterator over a dataset'
    return None


def rule_r2(ctx):
    rep = ctx.report
    stores = 0
    for cls in K.family(ctx):
        for name, mem in cls.members.items():
            if not mem.is_function:
                continue
            _l, fctx = ctx.effects.local_effects(mem.node, cls, cls.module)
            defs = flow.assigned_names(mem.node)
            for n in A.walk_local(mem.node):
                if isinstance(n, ast.Assign):
                    for t in n.targets:
                        if isinstance(t, ast.Attribute) and (A.is_name(t.value, 'self') or (
                                isinstance(t.value, ast.Name) and t.value.id in ('new', 'copy'))):
                            stores += 1
                            v = n.value
                            why = _is_iterator_expr(v, fctx, cls.module, ctx.repo)
                            if why is None and isinstance(v, ast.Name) and v.id in defs:
                                for dv in defs[v.id]:
                                    why = why or _is_iterator_expr(dv, fctx, cls.module, ctx.repo)
                            if why is None and isinstance(v, (ast.List, ast.Tuple, ast.ListComp)):
                                elts = v.elts if not isinstance(v, ast.ListComp) else [v.elt]
                                for e in elts:
                                    sub = fctx._comp_ctx(v) if isinstance(v, ast.ListComp) else fctx
                                    why = why or _is_iterator_expr(e, sub, cls.module, ctx.repo)
                            if why:
                                rep.ob('R2', K.key(cls, name, 'stores-iterator(%s)' % t.attr), False, n,
                                       'a one-shot iterator (%s) is stored on the stage: the first pass consumes it and '
                                       'a second iteration yields nothing or resumes in the middle' % why)
    rep.summary('R2', 'core::no-iterator-in-instance-state', '%d attribute stores inspected' % stores)
    rep.floor('attribute stores inspected', stores, 50)


def rule_r3(ctx):
    rep = ctx.report
    n = 0
    for cls in K.family(ctx):
        mem = cls.own('__iter__')
        if mem is None or not mem.is_function:
            continue
        n += 1
        fn = mem.node
        gen = mem.is_generator
        rets = [r for r in flow.returns_of(fn) if r.value is not None]
        if gen:
            ok = True
            detail = 'generator function'
            # must not delegate to a stored iterator
            for y in A.yields_in(fn):
                if isinstance(y, ast.YieldFrom) and A.is_self_attr(y.value) and \
                        y.value.attr not in (INPUT_ATTR, INPUTS_ATTR, 'examples'):
                    mres = cls.resolve(y.value.attr)
                    if mres is None:
                        # plain attribute: is it a container written by __init__ from a parameter? fine (list/tuple)
                        pass
        else:
            ok = bool(rets) and all(isinstance(r.value, ast.Call) for r in rets)
            detail = 'returns the result of a call made per invocation' if ok else \
                '__iter__ neither yields nor returns a freshly created iterator'
            for r in rets:
                if isinstance(r.value, (ast.Attribute, ast.Name)) :
                    ok = False
                    detail = '__iter__ returns a stored object (%s): all iterations share it' % A.short(r.value)
        rep.ob('R3', K.key(cls, '__iter__', 'fresh-iterator-per-call'), ok, fn, detail)
        # loops / yield from over stored attributes that are iterators are caught by R2; here: a `for` over
        # self.<attr> where attr is assigned an iterator anywhere is R2's business.
    rep.floor('__iter__ methods', n, 20)


def rule_r4(ctx):
    rep = ctx.report
    n = 0
    for cls in ctx.repo.dataset_family(include_base=True):
        for name, mem in cls.members.items():
            if mem.kind != 'attr':
                continue
            n += 1
            v = mem.value
            mutable = isinstance(v, (ast.List, ast.Dict, ast.Set, ast.ListComp, ast.DictComp, ast.SetComp)) or (
                isinstance(v, ast.Call) and (A.dotted(v.func) or '').split('.')[-1] in (
                    'list', 'dict', 'set', 'deque', 'defaultdict', 'OrderedDict', 'Counter', 'bytearray'))
            rep.ob('R4', K.key(cls, name, 'class-attribute-immutable'), not mutable, mem.node,
                   '' if not mutable else 'mutable container as class attribute: shared by every instance and every '
                   'iteration of this stage')
    rep.count('class attributes inspected', n)


def rule_r5(ctx):
    rep = ctx.report
    uses = 0
    for cls in K.family(ctx):
        for name, mem in cls.members.items():
            if not mem.is_function or name == '__repr__':
                continue
            for n in A.walk_local(mem.node):
                if A.is_self_attr(n, INPUTS_ATTR) and isinstance(getattr(n, 'ctx', None), ast.Load):
                    uses += 1
                    p = A.parent(n)
                    bad = None
                    if isinstance(p, ast.Call) and n in p.args and (A.dotted(p.func) or '') in (
                            'reversed', 'sorted', 'set', 'frozenset'):
                        bad = A.dotted(p.func)
                    if isinstance(p, ast.Starred):
                        pp = A.parent(p)
                        if isinstance(pp, ast.Call) and (A.dotted(pp.func) or '') in ('reversed', 'sorted', 'set'):
                            bad = A.dotted(pp.func)
                    if isinstance(p, ast.Subscript) and p.value is n and isinstance(p.slice, ast.Slice) \
                            and p.slice.step is not None and (A.int_value(p.slice.step) or 1) < 0:
                        bad = 'negative-step slice'
                    if bad:
                        rep.ob('R5', K.key(cls, name, 'inputs-in-stored-order'), False, n,
                               'the tuple of inputs is traversed through %s: part order differs from the order given '
                               'by the caller' % bad)
    rep.summary('R5', 'core::inputs-traversed-in-stored-order', '%d uses of self.input_datasets inspected' % uses)
    rep.floor('uses of the input tuple', uses, 15)


def rule_io(ctx):
    """IntersperseDataset: the merge order is a *total* order: ties of the relative position are broken by part
    index and then by example index (sorted() over (position, part, index) tuples, np.lexsort with those keys,
    or a stable argsort over a part-major layout). An unstable single-key sort leaves ties to the sort kernel."""
    rep = ctx.report
    cls = ctx.repo.cls('core.IntersperseDataset')
    init = cls.own('__init__')
    if init is None:
        raise AnalysisError('anchor vanished: IntersperseDataset.__init__')
    fn = init.node
    writer = [n for n in A.walk_local(fn) if isinstance(n, ast.Assign) and any(A.is_self_attr(t, 'order') for t in n.targets)]
    if not writer:
        raise AnalysisError('anchor vanished: IntersperseDataset.order is not written in __init__')
    sorts = []
    for n in A.walk_local(fn):
        if isinstance(n, ast.Call):
            d = (A.dotted(n.func) or '')
            last = d.split('.')[-1]
            if last in ('sorted', 'sort', 'argsort', 'lexsort', 'argpartition', 'partition'):
                sorts.append((last, n))
    if not sorts:
        raise AnalysisError('undecidable shape: IntersperseDataset.__init__ does not sort the interleaving order')
    for last, n in sorts:
        if last in ('sorted', 'sort'):
            arg = flow.copy_prop(n.args[0], fn) if n.args else (n.func.value if isinstance(n.func, ast.Attribute) else None)
            comp = [x for x in ast.walk(arg)] if arg is not None else []
            tup = [x for x in comp if isinstance(x, (ast.ListComp, ast.GeneratorExp)) and isinstance(x.elt, ast.Tuple)
                   and len(x.elt.elts) >= 3]
            keyed = any(kw.arg == 'key' for kw in n.keywords)
            ok = bool(tup) and not keyed
            rep.ob('IO', K.key(cls, '__init__', 'merge-order-is-a-total-order(sorted tuples)'), ok, n,
                   'sorted() over (position, part, index) tuples: ties broken by part, then index' if ok else
                   'the interleaving order is sorted %s: examples with equal relative position are no longer ordered by '
                   'part and index' % ('with a key function' if keyed else 'without the (position, part, index) tuples'))
            # the relative position is ONE correctly rounded quotient of two integers, so that equal fractions (2/4 and
            # 3/6) are equal floats and really tie; a product with a reciprocal rounds twice and separates some of them
            for t_ in tup:
                pos = flow.expand(t_.elt.elts[0], fn)
                # `for v in [E]` inside the comprehension is a let-binding
                lets = {g_.target.id: g_.iter.elts[0] for g_ in t_.generators
                        if isinstance(g_.target, ast.Name) and isinstance(g_.iter, (ast.List, ast.Tuple)) and len(g_.iter.elts) == 1}
                if lets:
                    class _Sub(ast.NodeTransformer):
                        def visit_Name(self, nd):
                            return A.clone(lets[nd.id]) if nd.id in lets and isinstance(nd.ctx, ast.Load) else nd
                    pos = _Sub().visit(A.clone(pos))
                has_div = [x for x in ast.walk(pos) if isinstance(x, ast.BinOp) and isinstance(x.op, ast.Div)]
                int_like = lambda e: isinstance(e, ast.Name) or A.int_value(e) is not None or (  # noqa: E731
                    isinstance(e, ast.BinOp) and isinstance(e.op, (ast.Add, ast.Sub)) and int_like(e.left) and int_like(e.right)) or (
                    isinstance(e, ast.Call) and A.dotted(e.func) == 'len')
                if isinstance(pos, ast.BinOp) and isinstance(pos.op, ast.Div) and int_like(pos.left) and int_like(pos.right):
                    rep.ob('IO', K.key(cls, '__init__', 'position-is-one-exact-quotient'), True, t_)
                elif isinstance(pos, ast.BinOp) and isinstance(pos.op, ast.Mult) and has_div:
                    rep.ob('IO', K.key(cls, '__init__', 'position-is-one-exact-quotient'), False, t_,
                           'the relative position `%s` multiplies by a rounded reciprocal: fractions that are equal as '
                           'rationals (3/5 and 9/15) become different floats, so examples that should tie (earlier dataset '
                           'first) are ordered by rounding noise for some length pairs' % A.short(pos, 60))
                else:
                    rep.undecided('IO', K.key(cls, '__init__', 'position-is-one-exact-quotient'), t_,
                                  'unrecognised form of the relative position `%s`' % A.short(pos, 60))
        elif last == 'lexsort':
            ok = n.args and isinstance(n.args[0], (ast.Tuple, ast.List)) and len(n.args[0].elts) >= 3
            rep.ob('IO', K.key(cls, '__init__', 'merge-order-is-a-total-order(lexsort)'), bool(ok), n,
                   '' if ok else 'np.lexsort needs the keys (index, part, position)')
        elif last == 'argsort':
            kinds = [kw.value for kw in n.keywords if kw.arg == 'kind']
            stable = bool(kinds) and isinstance(kinds[0], ast.Constant) and kinds[0].value in ('stable', 'mergesort')
            rep.ob('IO', K.key(cls, '__init__', 'merge-order-is-a-total-order(stable argsort)'), stable, n,
                   '' if stable else 'np.argsort over the relative position only, with the default (unstable) kind: '
                   'examples whose positions tie (inputs whose lengths share a factor) come out in an order chosen by the '
                   'sort kernel, not "earlier dataset first"')
        else:
            rep.ob('IO', K.key(cls, '__init__', 'merge-order-is-a-total-order'), False, n,
                   '%s does not produce a total order of the interleaving positions' % last)


def rule_wr(ctx):
    """the combinator methods wire the new stage to `self` and forward what they were given"""
    K.api_wiring(ctx, 'WR', floor=15)


def run(ctx):
    rule_wr(ctx)
    rule_io(ctx)
    rule_r1(ctx)
    rule_r2(ctx)
    rule_r3(ctx)
    rule_r4(ctx)
    rule_r5(ctx)
