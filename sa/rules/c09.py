"""C09 — examples handed out are isolated from the stored data.

S1 every storage mode deserialises into a fresh object        S2 constructors store serialised values in a new
S3 the wu list serialises eagerly and keeps no alias            container and hand out through .map(deserialise)
S4 the cache never stores the very object it returns         S5 hits go through the deserialising wrapper
S6 new() forwards the mode
"""
import ast

from .. import astutil as A
from .. import flow
from ..model import AnalysisError
from . import common as K

META = {
    'id': 'C09',
    'technique': 'alias / freshness classification of the (serialise, deserialise) pair per storage mode and '
                 'escape analysis of every path from stored data to a returned example',
    'explanation': 'Classifies, per immutability mode, the serialiser (DETACH: pickle.dumps / deepcopy, or ALIAS: '
                   'identity) and the deserialiser (must be FRESH: pickle.loads / deepcopy), then checks every path on '
                   'which stored data reaches a caller: from_dict / from_list store `serialise(v)` in a new container '
                   'and return the dataset wrapped in `.map(deserialise)` of the same pair (all access paths go through '
                   'MapDataset, which C08.L4 shows applies the function once per example); the wu list serialises '
                   'eagerly and deserialises per access; the memory cache wrapper deserialises on load and its '
                   'effective serialiser detaches in every mode, so the object returned on a miss is never the stored '
                   'one; the disk wrapper stores and loads through diskcache only. pickle, deepcopy and diskcache '
                   'are trusted to produce objects sharing no mutable state with their input.',
    'not_decided': 'behaviour of pickle / deepcopy / diskcache themselves',
    'assumptions': ['pickle.loads(pickle.dumps(x)) and copy.deepcopy(x) share no mutable state with x',
                    'diskcache.Cache pickles on store and unpickles on load'],
}

FRESH_DESER = {'pickle.loads', 'copy.deepcopy'}
DETACH_SER = {'pickle.dumps', 'copy.deepcopy'}


def _classify_fn(expr, module):
    """'pickle.loads' / 'copy.deepcopy' / 'identity' / other source"""
    if isinstance(expr, ast.Lambda):
        a = expr.args.args
        if len(a) == 1 and A.is_name(expr.body, a[0].arg):
            return 'identity'
        if isinstance(expr.body, ast.Call):
            return _classify_fn(expr.body.func, module) if len(expr.body.args) >= 1 and \
                A.is_name(expr.body.args[0], a[0].arg) else 'lambda:' + A.short(expr.body)
        return 'lambda:' + A.short(expr.body)
    d = A.dotted(expr)
    if d is None:
        return A.short(expr)
    return module.resolve_name(d)


def mode_table(ctx):
    core = ctx.repo.module('core')
    fn = core.functions.get('_get_serialize_and_deserialize')
    if fn is None:
        raise AnalysisError('anchor vanished: core._get_serialize_and_deserialize')
    param = fn.args.args[0].arg
    table = {}
    for r in flow.returns_of(fn):
        if not (isinstance(r.value, ast.Tuple) and len(r.value.elts) == 2):
            raise AnalysisError('undecidable shape: _get_serialize_and_deserialize returns %s' % A.short(r.value))
        mode = None
        for test, branch in flow.guards_of(r, fn):
            t, neg = A.strip_not(test)
            eff = (branch != neg)
            if isinstance(t, ast.Compare) and A.is_name(t.left, param) and isinstance(t.comparators[0], ast.Constant) \
                    and len(t.ops) == 1 and ((isinstance(t.ops[0], ast.Eq) and eff) or (isinstance(t.ops[0], ast.NotEq) and not eff)):
                mode = t.comparators[0].value
        table[mode] = (_classify_fn(r.value.elts[0], core), _classify_fn(r.value.elts[1], core), r)
    return table, fn


def rule_s1(ctx):
    rep = ctx.report
    table, fn = mode_table(ctx)
    rep.floor('storage modes', len(table), 2)
    for mode, (ser, de, node) in sorted(table.items(), key=lambda kv: str(kv[0])):
        ok = de in FRESH_DESER
        rep.ob('S1', 'core._get_serialize_and_deserialize::deserialiser-is-fresh(mode=%s)' % mode, ok, node,
               '' if ok else 'mode %r hands out examples through %s, which does not create a new object: every access '
               'returns the stored object itself' % (mode, de))
        ok = ser in DETACH_SER or ser == 'identity'
        rep.ob('S1', 'core._get_serialize_and_deserialize::serialiser-classified(mode=%s)' % mode, ok, node,
               ('%s -> %s' % (mode, 'DETACH' if ser in DETACH_SER else 'ALIAS (documented for copy)')) if ok
               else 'serialiser %s of mode %r is neither detaching nor the identity' % (ser, mode))
        if mode == 'pickle':
            ok = ser == 'pickle.dumps' and de == 'pickle.loads'
            rep.ob('S1', 'core._get_serialize_and_deserialize::pickle-mode-detaches', ok, node,
                   '' if ok else 'the pickle mode must store pickle.dumps(x) and return pickle.loads(stored)')
    # unknown modes are rejected
    ok = any(isinstance(n, ast.Raise) for n in A.walk_local(fn))
    rep.ob('S1', 'core._get_serialize_and_deserialize::unknown-mode-rejected', ok, fn, '')
    return table


def rule_s2(ctx):
    rep = ctx.report
    core = ctx.repo.module('core')
    for fname, ctor in (('from_dict', 'DictDataset'), ('from_list', 'ListDataset')):
        fn = core.functions.get(fname)
        if fn is None:
            raise AnalysisError('anchor vanished: core.%s' % fname)
        ser = de = None
        for n in A.walk_local(fn):
            if isinstance(n, ast.Assign) and isinstance(n.targets[0], ast.Tuple) and isinstance(n.value, ast.Call) \
                    and A.dotted(n.value.func) == '_get_serialize_and_deserialize':
                ser, de = [e.id for e in n.targets[0].elts]
                ok = n.value.args and A.is_name(n.value.args[0], 'immutable_warranty')
                rep.ob('S2', 'core.%s::pair-selected-by-the-requested-mode' % fname, bool(ok), n, '')
        if ser is None:
            raise AnalysisError('undecidable shape: %s does not obtain a (serialise, deserialise) pair' % fname)
        rets = [r for r in flow.returns_of(fn) if r.value is not None]
        main = [r for r in rets if not flow.enclosing_guards(r, fn)]
        if len(main) != 1:
            raise AnalysisError('undecidable shape: %s has %d unconditional returns' % (fname, len(main)))
        v = main[0].value
        ok_map = isinstance(v, ast.Call) and isinstance(v.func, ast.Attribute) and v.func.attr == 'map' \
            and len(v.args) == 1 and A.is_name(v.args[0], de) and not v.keywords
        rep.ob('S2', 'core.%s::handed-out-through-map(deserialise)' % fname, ok_map, main[0],
               '' if ok_map else 'the dataset must be returned as <stored>.map(%s) so that every access path '
               'deserialises; found %s' % (de, A.short(v, 70)))
        stored_ok = False
        detail = ''
        if ok_map and isinstance(v.func.value, ast.Call) and A.dotted(v.func.value.func) == ctor and v.func.value.args:
            arg = v.func.value.args[0]
            defs = flow.assigned_names(fn).get(arg.id, []) if isinstance(arg, ast.Name) else [arg]
            # the last assignment before the return wins; all must be fresh containers of serialise(v)
            d = defs[-1] if defs else None
            if isinstance(d, ast.DictComp):
                stored_ok = isinstance(d.value, ast.Call) and A.is_name(d.value.func, ser) and len(d.generators) == 1 \
                    and not d.generators[0].ifs and isinstance(d.generators[0].target, ast.Tuple) \
                    and A.is_name(d.value.args[0], d.generators[0].target.elts[1].id) \
                    and A.is_name(d.key, d.generators[0].target.elts[0].id)
            elif isinstance(d, ast.Call) and A.dotted(d.func) in ('list', 'tuple') and d.args \
                    and isinstance(d.args[0], ast.Call) and A.dotted(d.args[0].func) == 'map':
                stored_ok = A.is_name(d.args[0].args[0], ser) and len(d.args[0].args) == 2
            elif isinstance(d, ast.ListComp):
                stored_ok = isinstance(d.elt, ast.Call) and A.is_name(d.elt.func, ser) and not d.generators[0].ifs
            detail = '' if stored_ok else 'the stored container must be a new container of %s(v) for every v; found %s' % (
                ser, A.short(d, 70) if d is not None else None)
        rep.ob('S2', 'core.%s::stores-serialised-values-in-a-new-container' % fname, stored_ok, main[0], detail)


def rule_s3(ctx):
    rep = ctx.report
    core = ctx.repo.module('core')
    fn = core.functions['from_list']
    wu = None
    for n in A.walk_local(fn):
        if isinstance(n, ast.If) and isinstance(n.test, ast.Compare) and A.is_name(n.test.left, 'immutable_warranty') \
                and isinstance(n.test.comparators[0], ast.Constant) and n.test.comparators[0].value == 'wu':
            wu = n
    if wu is None:
        rep.note('from_list has no wu mode any more')
        return
    r = [x for x in wu.body if isinstance(x, ast.Return)]
    ok = bool(r) and isinstance(r[0].value, ast.Call) and A.dotted(r[0].value.func) == 'ListDataset' \
        and isinstance(r[0].value.args[0], ast.Call) and A.dotted(r[0].value.args[0].func) == 'NumpySerializedList'
    rep.ob('S3', 'core.from_list::wu=ListDataset(NumpySerializedList(examples))', ok, wu, '')
    c = ctx.repo.cls('core.NumpySerializedList')
    init = c.own('__init__').node
    lst = init.args.args[1].arg
    # eager serialisation of every element; no attribute keeps the caller's list or its elements
    ser_all = False
    alias = []
    def serialising_comprehension(v):
        if isinstance(v, (ast.ListComp, ast.GeneratorExp)) and len(v.generators) == 1 and A.is_name(v.generators[0].iter, lst) \
                and not v.generators[0].ifs and isinstance(v.elt, ast.Call):
            if core.resolve_name(A.dotted(v.elt.func) or '') == 'pickle.dumps':
                return True
            # the element is computed from pickle.dumps(<loop variable>, ...) (an inlined helper)
            tv = set(A.name_targets(v.generators[0].target))
            if any(isinstance(x, ast.Call) and core.resolve_name(A.dotted(x.func) or '') == 'pickle.dumps' and x.args
                   and isinstance(x.args[0], ast.Name) and x.args[0].id in tv for x in ast.walk(v.elt)):
                return True
            if isinstance(v.elt.func, ast.Attribute) and isinstance(v.elt.func.value, ast.Name):
                # a (static) method of the class itself
                hm = c.resolve(v.elt.func.attr)
                if hm is not None and hm.is_function:
                    return any(isinstance(x, ast.Call) and core.resolve_name(A.dotted(x.func) or '') == 'pickle.dumps'
                               for x in ast.walk(hm.node))
            if isinstance(v.elt.func, ast.Name):
                helper = [h for h in init.body if isinstance(h, A.FUNC_TYPES) and h.name == v.elt.func.id]
                return bool(helper) and any(isinstance(x, ast.Call) and core.resolve_name(A.dotted(x.func) or '') == 'pickle.dumps'
                                            for x in ast.walk(helper[0]))
        return False
    for n in A.walk_local(init):
        if isinstance(n, ast.Assign) and A.is_self_attr(n.targets[0]):
            v = n.value
            # the serialised list itself, or something built from it (np.concatenate(serialized)), is what is stored
            ve = flow.expand(v, init)
            if any(serialising_comprehension(x) for x in ast.walk(ve)):
                ser_all = True
            if A.is_name(v, lst) or (isinstance(v, ast.Call) and A.dotted(v.func) in ('list', 'tuple')
                                     and v.args and A.is_name(v.args[0], lst)):
                alias.append(n)
        if isinstance(n, ast.Call) and isinstance(n.func, ast.Attribute) and n.func.attr == '__init__' \
                and any(A.is_name(a, lst) for a in n.args):
            alias.append(n)
    rep.ob('S3', K.key(c, '__init__', 'serialises-every-element-eagerly(pickle.dumps)'), ser_all, init,
           '' if ser_all else 'the wu list must pickle every element at construction')
    rep.ob('S3', K.key(c, '__init__', 'keeps-no-alias-of-the-callers-list'), not alias, alias[0] if alias else init,
           '' if not alias else 'the caller\'s list (or its elements) is kept: later mutation of the original shows through')
    g = c.own('__getitem__').node
    rets = [r for r in flow.returns_of(g) if r.value is not None]
    ok = bool(rets) and all(isinstance(r.value, ast.Call) and core.resolve_name(A.dotted(r.value.func) or '') == 'pickle.loads'
                            for r in rets)
    rep.ob('S3', K.key(c, '__getitem__', 'deserialises-per-access(pickle.loads)'), ok, g,
           '' if ok else 'every access must return pickle.loads(...) of the stored bytes')


def rule_s4_s5(ctx, table):
    rep = ctx.report
    core = ctx.repo.module('core')
    w = ctx.repo.cls('core._CacheWrapper')
    init = w.own('__init__').node
    # effective serialiser / deserialiser per mode: abstract evaluation of the constructor body, mode by mode
    mparam = init.args.args[1].arg if len(init.args.args) > 1 else 'immutable_warranty'

    def run_mode(mode):
        env = {}

        def val(e):
            if isinstance(e, ast.Name) and e.id in env:
                return env[e.id]
            if A.is_self_attr(e) and ('self.' + e.attr) in env:
                return env['self.' + e.attr]
            return _classify_fn(e, core)

        def key_of(t):
            if isinstance(t, ast.Name):
                return t.id
            if A.is_self_attr(t):
                return 'self.' + t.attr
            return None

        def truth(test):
            t, neg = A.strip_not(test)
            if isinstance(t, ast.Compare) and len(t.ops) == 1 and A.is_name(t.left, mparam) \
                    and isinstance(t.comparators[0], ast.Constant):
                r = (t.comparators[0].value == mode)
                if isinstance(t.ops[0], ast.NotEq):
                    r = not r
                elif not isinstance(t.ops[0], ast.Eq):
                    return None
                return r != neg
            return None

        def run(stmts):
            for s_ in stmts:
                if isinstance(s_, ast.Assign) and len(s_.targets) == 1:
                    tg = s_.targets[0]
                    if isinstance(tg, ast.Tuple) and isinstance(s_.value, ast.Call) \
                            and A.dotted(s_.value.func) == '_get_serialize_and_deserialize' and len(tg.elts) == 2:
                        for k_, v_ in zip(tg.elts, table.get(mode, ('?', '?'))[:2]):
                            if key_of(k_):
                                env[key_of(k_)] = v_
                    elif key_of(tg):
                        env[key_of(tg)] = val(s_.value)
                elif isinstance(s_, ast.If):
                    tr = truth(s_.test)
                    if tr is True:
                        run(s_.body)
                    elif tr is False:
                        run(s_.orelse)
                    else:
                        run(s_.body)
                        run(s_.orelse)
        run(init.body)
        return env
    st0 = w.own('__setitem__').node
    ld0 = w.own('__getitem__').node
    ser_attr = de_attr = None
    for n in A.walk_local(st0):
        if isinstance(n, ast.Call) and A.is_self_attr(n.func) and n.args and A.is_name(n.args[0], st0.args.args[2].arg):
            ser_attr = n.func.attr
    for n in A.walk_local(ld0):
        if isinstance(n, ast.Call) and A.is_self_attr(n.func) and isinstance(A.parent(n), ast.Return):
            de_attr = n.func.attr
    if ser_attr is None:
        rep.ob('S4', K.key(w, '__setitem__', 'stores-serialise(value)'), False, st0,
               'the memory cache stores the value without applying a serialiser of the wrapper')
    if de_attr is None:
        rep.ob('S5', K.key(w, '__getitem__', 'loads-deserialise(stored)'), False, ld0,
               'the memory cache returns the stored payload without applying a deserialiser of the wrapper: every hit '
               'hands out the stored object itself')
    if ser_attr is None or de_attr is None:
        return
    eff = {}
    for m in table:
        env = run_mode(m)
        eff[m] = [env.get('self.' + ser_attr, '?'), env.get('self.' + de_attr, '?')]
    st = w.own('__setitem__').node
    ld = w.own('__getitem__').node
    ok_store = any(isinstance(n, ast.Assign) and isinstance(n.targets[0], ast.Subscript)
                   and isinstance(n.value, ast.Call) and A.is_self_attr(n.value.func, ser_attr)
                   and A.is_name(n.value.args[0], st.args.args[2].arg) for n in A.walk_local(st))
    rep.ob('S4', K.key(w, '__setitem__', 'stores-serialise(value)'), ok_store, st,
           '' if ok_store else 'the memory cache must store self.%s(value)' % ser_attr)
    ok_load = all(isinstance(r.value, ast.Call) and A.is_self_attr(r.value.func, de_attr)
                  for r in flow.returns_of(ld) if r.value is not None) and bool(flow.returns_of(ld))
    rep.ob('S5', K.key(w, '__getitem__', 'loads-deserialise(stored)'), ok_load, ld,
           '' if ok_load else 'the memory cache must return self.%s(stored)' % de_attr)
    # miss path of CacheDataset: what is returned vs what is stored
    cd = ctx.repo.cls('core.CacheDataset')
    g = cd.own('__getitem__').node
    store = None
    for n in A.walk_local(g):
        if isinstance(n, ast.Assign) and isinstance(n.targets[0], ast.Subscript) and A.is_self_attr(n.targets[0].value, '_cache'):
            store = n
    if store is None:
        raise AnalysisError('undecidable shape: CacheDataset.__getitem__ never stores into the cache')
    returned_same = any(isinstance(r, ast.Return) and A.same(r.value, store.value) for r in A.walk_local(g))
    for m, (ser, de) in sorted(eff.items(), key=lambda kv: str(kv[0])):
        if not returned_same:
            ok = True
            why = 'the miss path does not return the object handed to the store'
        else:
            ok = ser in DETACH_SER
            why = 'store detaches (%s)' % ser if ok else \
                'with immutable_warranty=%r the object returned on the first access is the very object kept in the ' \
                'cache (serialiser %s): mutating it changes what later accesses return' % (m, ser)
        rep.ob('S4', K.key(cd, '__getitem__', 'miss-alias(mode=%s)' % m), ok, store, why)
        ok = de in FRESH_DESER
        rep.ob('S5', K.key(w, '__getitem__', 'hit-is-fresh(mode=%s)' % m), ok, ld,
               '' if ok else 'hits return the stored object itself in mode %r' % m)
    # hits of CacheDataset go through the wrapper's __getitem__ (never the raw dict)
    raw = [n for n in ast.walk(cd.node) if isinstance(n, ast.Subscript) and isinstance(n.value, ast.Attribute)
           and n.value.attr == 'cache' and A.is_self_attr(n.value.value, '_cache')]
    for sub in ctx.repo.subclasses(cd):
        raw += [n for n in ast.walk(sub.node) if isinstance(n, ast.Subscript) and isinstance(n.value, ast.Attribute)
                and n.value.attr == 'cache' and A.is_self_attr(n.value.value, '_cache')]
    rep.ob('S5', K.key(cd, None, 'no-raw-access-to-the-store'), not raw, raw[0] if raw else cd.node,
           '' if not raw else 'the stored payload is read/written behind the (de)serialising wrapper')
    # which modes reach the wrapper through the public factory
    base = ctx.repo.dataset_base()
    for n in A.walk_local(base.own('cache').node):
        if isinstance(n, ast.Call) and A.dotted(n.func) == 'CacheDataset':
            b = flow.bind(n, cd.own('__init__').node)
            mode = b.args.get('immutable_warranty')
            d = flow.signature(cd.own('__init__').node)['defaults'].get('immutable_warranty')
            used = mode if mode is not None else d
            ok = isinstance(used, ast.Constant) and used.value == 'pickle'
            rep.ob('S4', K.key(base, 'cache', 'public-factory-uses-a-detaching-mode'), ok, n,
                   'ds.cache() builds the cache with mode %s' % A.short(used))
    # disk wrapper
    dw = ctx.repo.cls('core._DiskCacheWrapper')
    ok = all(isinstance(r.value, ast.Subscript) and A.is_self_attr(r.value.value, 'cache')
             for r in flow.returns_of(dw.own('__getitem__').node) if r.value is not None)
    ok2 = any(isinstance(n, ast.Assign) and isinstance(n.targets[0], ast.Subscript)
              and A.is_self_attr(n.targets[0].value, 'cache') for n in A.walk_local(dw.own('__setitem__').node))
    rep.ob('S5', K.key(dw, None, 'loads-and-stores-through-diskcache-only'), ok and ok2, dw.node, '')
    extra = [n for n in A.walk_local(dw.own('__init__').node) if isinstance(n, ast.Assign)
             and A.is_self_attr(n.targets[0]) and isinstance(n.value, (ast.Dict, ast.List))]
    rep.ob('S5', K.key(dw, '__init__', 'no-side-store-of-live-objects'), not extra, extra[0] if extra else dw.node, '')


def rule_s6(ctx):
    rep = ctx.report
    core = ctx.repo.module('core')
    fn = core.functions.get('new')
    if fn is None:
        raise AnalysisError('anchor vanished: core.new')
    n_calls = 0
    for n in A.walk_local(fn):
        if isinstance(n, ast.Call) and A.dotted(n.func) in ('from_dict', 'from_list', 'from_dataset', 'from_file'):
            n_calls += 1
            ok = any(kw.arg == 'immutable_warranty' and A.is_name(kw.value, 'immutable_warranty') for kw in n.keywords) \
                or (len(n.args) >= 2 and A.is_name(n.args[1], 'immutable_warranty'))
            rep.ob('S6', 'core.new::mode-forwarded(%s)' % A.dotted(n.func), ok, n,
                   '' if ok else 'new() does not pass the requested immutable_warranty on')
    rep.floor('constructor dispatch sites in new()', n_calls, 3)
    fd = core.functions.get('from_dataset')
    for n in A.walk_local(fd):
        if isinstance(n, ast.Call) and A.dotted(n.func) in ('from_dict', 'from_list'):
            ok = any(kw.arg == 'immutable_warranty' and A.is_name(kw.value, 'immutable_warranty') for kw in n.keywords)
            rep.ob('S6', 'core.from_dataset::mode-forwarded(%s)' % A.dotted(n.func), ok, n, '')


def rule_s7(ctx):
    """in the cache classes a value is written to the store before it is handed out: no path from a yield / the
    consumer's hands back to a store of the same value"""
    rep = ctx.report
    from ..cfg import CFG, normal
    cd = ctx.repo.cls('core.CacheDataset')
    n = 0
    for cls in [cd] + ctx.repo.subclasses(cd):
        for mname, mem in cls.members.items():
            if not mem.is_function:
                continue
            fn = mem.node
            stores = [s for s in A.walk_local(fn) if isinstance(s, ast.Assign) and isinstance(s.targets[0], ast.Subscript)
                      and ('_cache' in A.src(s.targets[0].value))]
            if not stores:
                continue
            n += 1
            g = CFG(fn)
            ynodes = [nd for nd in g.stmt_nodes() if nd.kind == 'stmt' and A.contains_yield(nd.ast)]
            snodes = {nd.id for nd in g.stmt_nodes() if any(nd.ast is s for s in stores)}
            bad = None
            for y in ynodes:
                yielded = {x.id for x in ast.walk(y.ast) if isinstance(x, ast.Name)}
                p = g.path_avoiding(y.id, lambda nd: nd.id in snodes and bool(
                    yielded & {x.id for x in ast.walk(nd.ast.value) if isinstance(x, ast.Name)}), None, edge_ok=normal)
                if p is not None:
                    bad = p
            rep.ob('S7', K.key(cls, mname, 'stored-before-handed-out'), bad is None, bad[-1].ast if bad else fn,
                   '' if bad is None else 'an example is yielded to the consumer and written to the cache afterwards: what '
                   'gets cached is the object the consumer may already have modified',
                   path=[repr(x) for x in bad if x.ast is not None] if bad else None)
    rep.floor('functions that write the cache', n, 1)


def run(ctx):
    rule_s7(ctx)
    table = rule_s1(ctx)
    rule_s2(ctx)
    rule_s3(ctx)
    rule_s4_s5(ctx, table)
    rule_s6(ctx)
    # the snapshot is taken in __getitem__: iteration (values and items) must hand out examples through it
    from . import c10
    c10.rule_h_iter(ctx)
