"""C10 — memory cache is transparent, computes each example once, and freezes it.

K cache key canonical before the first lookup      M miss path computes / stores / returns under one key
H hits never touch the upstream                    G store gated by check(); latch; no eviction
S copies share the store                           E eager caching snapshots
"""
import ast

from .. import astutil as A
from .. import flow
from ..cfg import CFG, normal, node_contains
from ..effects import INPUT_ATTR
from ..model import AnalysisError
from . import common as K
from .c02 import _neg_norm

META = {
    'id': 'C10',
    'technique': 'key-canonicalisation idiom check and def-use analysis of the cache key, handler-scoped effect '
                 'analysis of the hit/miss paths, who-may-write analysis of the store, abstract evaluation of check()',
    'explanation': 'In CacheDataset.__getitem__ (inherited by the disk cache) every value used to subscript the store '
                   'is canonical: string keys are translated to their position and negative integers are normalised '
                   'against len(self) (rejecting those still negative) before the first lookup, so one example has one '
                   'cache entry; the load, the upstream lookup and the store use one unmodified key variable and the '
                   'value returned on a miss is the value stored; the upstream is touched only inside the miss handler, '
                   'whose try body holds nothing but the load; the store is control dependent on check(); check() '
                   'tests the latch before querying memory and its low-memory branch sets the latch and returns False; '
                   'nothing deletes or replaces entries; copies share the store; eager caching returns new(self), which '
                   'materialises the dataset. The check-then-act race of two threads asking for the same uncached index '
                   'and the dynamics of the memory threshold are not decided.',
    'not_decided': 'thread races on the same uncached index; dynamics of available memory',
    'assumptions': ['dict / diskcache.Cache raise KeyError for absent keys and keep stored entries',
                    'diskcache compares keys by their serialised form: 1 and numpy.int64(1) are different keys (a dict treats them as one)'],
}


def rule_kmh(ctx):
    rep = ctx.report
    cls = ctx.repo.cls('core.CacheDataset')
    mem = cls.own('__getitem__')
    if mem is None:
        raise AnalysisError('anchor vanished: CacheDataset.__getitem__')
    fn = mem.node
    item, arms = K.getitem_arms(fn)
    int_arms = [a for a in arms if a['types'] and 'int' in a['types']]
    str_arms = [a for a in arms if a['types'] and 'str' in a['types'] and 'int' not in a['types']]
    if not int_arms:
        raise AnalysisError('undecidable shape: CacheDataset.__getitem__ has no integer branch')
    arm = int_arms[0]
    # string keys translated to the position
    ok = bool(str_arms) and any(
        isinstance(s, ast.Assign) and A.is_name(s.targets[0], item) and isinstance(s.value, ast.Call)
        and isinstance(s.value.func, ast.Attribute) and s.value.func.attr == 'index'
        and A.is_name(s.value.args[0], item) and 'keys()' in A.src(s.value.func.value)
        for s in A.walk_stmts(str_arms[0]['body'])) and str_arms[0]['node'].lineno < arm['node'].lineno
    rep.ob('K', K.key(cls, '__getitem__', 'cache-key-canonical(str->position)'), ok, fn,
           '' if ok else 'a string key must be translated to its position (keys().index(key)) before the cache is '
           'consulted, otherwise key and index access cache the same example twice')
    loads = [n for n in A.walk_stmts(arm['body']) if isinstance(n, ast.Subscript) and isinstance(n.ctx, ast.Load)
             and A.is_self_attr(n.value, '_cache')]
    stores = [n for n in A.walk_stmts(arm['body']) if isinstance(n, ast.Assign) and isinstance(n.targets[0], ast.Subscript)
              and A.is_self_attr(n.targets[0].value, '_cache')]
    ups = [n for n in A.walk_stmts(arm['body']) if isinstance(n, ast.Subscript) and isinstance(n.ctx, ast.Load)
           and A.is_self_attr(n.value, INPUT_ATTR)]
    if not (loads and stores and ups):
        raise AnalysisError('undecidable shape: load/store/upstream lookup not all found in CacheDataset.__getitem__')
    has_add, has_raise, test = _neg_norm(fn, arm['body'], item)
    from .c02 import own_length
    wrong = own_length(cls, fn, _neg_norm.len_args) if has_add else None
    if wrong is not None:
        rep.ob('K', K.key(cls, '__getitem__', 'cache-key-normalised-against-the-dataset-length'), False, wrong,
               'negative indices are normalised against len(%s) - not the length of the dataset: with a partly filled '
               'cache ds[-1] is looked up (and stored) under the position of another example' % A.short(wrong, 40))
    ok = has_add and has_raise and test is not None and test.lineno < min(l.lineno for l in loads)
    rep.ob('K', K.key(cls, '__getitem__', 'cache-key-unnormalised(int)'), ok, loads[0],
           '' if ok else 'the integer index is used as cache key without normalising negatives against len(self): '
           'ds[-1] and ds[len-1] are cached separately, so the upstream runs twice for one example (and a random '
           'upstream gives two different frozen values)')
    # the key is a builtin int: index arrays (slices, shuffles, sorts) hand in numpy integers; a dict treats np.int64(1) and
    # 1 as the same key, the disk cache (keys compared by their serialised form) does not - the same position would be
    # stored, and computed, once per integer type and a reopened cache would not find what iteration stored
    first_load = min(l.lineno for l in loads)
    conv = [n for n in A.walk_stmts(arm['body']) if isinstance(n, ast.Assign) and len(n.targets) == 1 and A.is_name(n.targets[0], item)
            and isinstance(n.value, ast.Call) and (A.dotted(n.value.func) in ('int', 'operator.index', 'index'))
            and len(n.value.args) == 1 and A.is_name(n.value.args[0], item) and n.lineno < first_load
            and not flow.enclosing_guards(n, fn)[len(flow.enclosing_guards(arm['node'], fn)) + 1:]]
    rep.ob('K', K.key(cls, '__getitem__', 'cache-key-is-a-builtin-int'), bool(conv), loads[0],
           '' if conv else 'the integer index is used as cache key as it comes: numpy integers (every index of a slice / shuffle / '
           'sort of the cached dataset) and Python ints are different keys for the disk cache, so one position is '
           'computed and stored twice and a cache reopened with reuse=True recomputes what was stored under the other type')
    # M: one key
    keyvars = {A.src(l.slice) for l in loads} | {A.src(s.targets[0].slice) for s in stores} | {A.src(u.slice) for u in ups}
    ok = keyvars == {item}
    first = min(l.lineno for l in loads)
    rebinds = [n for n in A.walk_stmts(arm['body']) if isinstance(n, (ast.Assign, ast.AugAssign)) and any(
        A.is_name(t, item) for t in (n.targets if isinstance(n, ast.Assign) else [n.target])) and n.lineno >= first]
    rep.ob('M', K.key(cls, '__getitem__', 'load-upstream-store-share-one-key'), ok and not rebinds,
           rebinds[0] if rebinds else loads[0],
           '' if ok and not rebinds else 'the cache is read, the upstream is asked and the result is stored under '
           'different keys (%s)%s' % (sorted(keyvars), '; the key is rebound in between' if rebinds else ''))
    st = stores[0]
    up_assign = [n for n in A.walk_stmts(arm['body']) if isinstance(n, ast.Assign) and any(u is n.value for u in ups)]
    ok = bool(up_assign) and A.is_name(st.value, up_assign[0].targets[0].id) and any(
        isinstance(r, ast.Return) and A.is_name(r.value, up_assign[0].targets[0].id) and r.lineno > st.lineno
        for r in A.walk_stmts(arm['body']))
    rep.ob('M', K.key(cls, '__getitem__', 'miss-returns-the-computed-value-it-stores'), ok, st,
           '' if ok else 'the value computed on a miss must be stored and returned (one evaluation of the upstream)')
    # H: upstream only in the miss handler; try body holds only the load
    tries = [n for n in A.walk_stmts(arm['body']) if isinstance(n, ast.Try)]
    ok_h = False
    detail = 'no try/except KeyError around the cache load'
    if tries:
        t = tries[0]
        body_only_load = len(t.body) == 1 and isinstance(t.body[0], ast.Return) and any(t.body[0].value is l for l in loads)
        handler = [h for h in t.handlers if h.type is not None and A.src(h.type) == 'KeyError']
        ups_in_handler = bool(handler) and all(any(x is u for s in handler[0].body for x in ast.walk(s)) for u in ups)
        stores_in_handler = bool(handler) and all(any(x is s0 for s in handler[0].body for x in ast.walk(s)) for s0 in stores)
        ok_h = body_only_load and len(handler) == 1 and len(t.handlers) == 1 and ups_in_handler and stores_in_handler
        detail = '' if ok_h else 'hit path: `try: return cache[k]` must hold nothing else; the upstream lookup and the ' \
            'store belong into the single `except KeyError` handler'
    rep.ob('H', K.key(cls, '__getitem__', 'hit-bypasses-upstream'), ok_h, tries[0] if tries else fn, detail)
    # G: store gated by check()
    gated = False
    for test, branch in flow.guards_of(st, fn):
        t, neg = A.strip_not(test)
        if isinstance(t, ast.Call) and A.dotted(t.func) == 'self.check' and branch != neg:
            gated = True
    rep.ob('G', K.key(cls, '__getitem__', 'store-gated-by-check()'), gated, st,
           '' if gated else 'the store must be control dependent on self.check() (memory / disk guard)')
    rule_h_iter(ctx)


def rule_h_iter(ctx):
    """iteration (values and items) goes through __getitem__, i.e. through the cached, isolating lookup"""
    rep = ctx.report
    cls = ctx.repo.cls('core.CacheDataset')
    if cls.own('__iter__') is None:
        raise AnalysisError('anchor vanished: CacheDataset.__iter__')
    it = cls.own('__iter__').node
    ys = [y for y in A.yields_in(it)]
    direct = [x for x in ast.walk(it) if (isinstance(x, ast.Subscript) and A.is_self_attr(x.value, INPUT_ATTR))
              or (isinstance(x, (ast.For, ast.comprehension)) and any(A.is_self_attr(z, INPUT_ATTR) for z in ast.walk(x.iter))
                  and not any(isinstance(z, ast.Call) and isinstance(z.func, ast.Attribute) and z.func.attr == 'keys'
                              for z in ast.walk(x.iter)))
              or (isinstance(x, ast.YieldFrom) and any(A.is_self_attr(z, INPUT_ATTR) for z in ast.walk(x.value)))]
    ok = bool(ys) and all(any(isinstance(x, ast.Subscript) and A.is_name(x.value, 'self') for x in ast.walk(y)) for y in ys) \
        and not direct
    rep.ob('H', K.key(cls, '__iter__', 'iteration-goes-through-the-cached-lookup'), ok, it,
           '' if ok else 'iteration must yield self[i] (the cached lookup), not read the upstream directly')
    loops = [l for l in A.walk_local(it) if isinstance(l, ast.For)]
    ok = bool(loops) and all(isinstance(l.iter, ast.Call) and A.dotted(l.iter.func) == 'range' and len(l.iter.args) == 1
                             and A.src(l.iter.args[0]) == 'len(self)' for l in loops)
    rep.ob('H', K.key(cls, '__iter__', 'covers-range(len(self))'), ok, it, '')
    sub = ctx.repo.cls('core.DiskCacheDataset')
    ok = sub.own('__getitem__') is None and sub.own('__iter__') is None and cls in sub.mro
    rep.ob('H', K.key(sub, None, 'inherits-lookup-and-iteration'), ok, sub.node,
           '' if ok else 'the disk cache overrides __getitem__/__iter__: rules K/M/H no longer cover it')


def rule_g(ctx):
    rep = ctx.report
    cls = ctx.repo.cls('core.CacheDataset')
    ck = cls.own('check')
    if ck is None:
        raise AnalysisError('anchor vanished: CacheDataset.check')
    fn = ck.node
    g = CFG(fn)
    latch_tests = [nd for nd in g.nodes if nd.kind == 'test' and any(A.is_self_attr(x, '_do_cache') for x in ast.walk(nd.ast.test))]
    mem_q = [nd for nd in g.stmt_nodes() if any(isinstance(x, ast.Call) and (A.dotted(x.func) or '').endswith('virtual_memory')
                                                for r in __import__('sa.cfg', fromlist=['node_roots']).node_roots(nd) for x in ast.walk(r))]
    if not mem_q:
        raise AnalysisError('undecidable shape: CacheDataset.check does not query psutil.virtual_memory')
    ok = bool(latch_tests)
    if ok:
        lt = {nd.id for nd in latch_tests}
        p = g.path_avoiding(g.entry.id, lambda nd: nd.id == mem_q[0].id, lambda nd: nd.id in lt, edge_ok=normal)
        ok = p is None
        # latch false -> return False
        n = latch_tests[0].ast
        t, neg = A.strip_not(n.test)
        body = n.body if neg else n.orelse
        ok = ok and any(isinstance(s, ast.Return) and A.is_const(s.value, False) for s in body)
    rep.ob('G', K.key(cls, 'check', 'latch-tested-before-memory-query'), ok, fn,
           '' if ok else 'once the threshold was crossed check() must answer False from the latch without asking again')
    low = mem_q[0]
    ok = False
    if low.kind == 'test':
        n = low.ast
        kind, ats = A.atoms(n.test)
        dir_ok = any(len(a) == 3 and a[2] is not None and a[1] in ('<=', '<') and 'available' in A.src(a[0])
                     and A.is_self_attr(a[2], '_keep_mem_free') for a in ats) or any(
            len(a) == 3 and a[2] is not None and a[1] in ('>=', '>') and A.is_self_attr(a[0], '_keep_mem_free')
            and 'available' in A.src(a[2]) for a in ats)
        sets = any(isinstance(s, ast.Assign) and A.is_self_attr(s.targets[0], '_do_cache') and A.is_const(s.value, False)
                   for s in n.body)
        retf = any(isinstance(s, ast.Return) and A.is_const(s.value, False) for s in n.body)
        ok = dir_ok and sets and retf
    rep.ob('G', K.key(cls, 'check', 'low-memory:(latch:=False,return False)'), ok, low.ast,
           '' if ok else 'when available memory <= the reserve, check() must set the latch and return False')
    rets = flow.returns_of(fn)
    ok = bool(rets) and isinstance(fn.body[-1], ast.Return) and A.is_const(fn.body[-1].value, True)
    rep.ob('G', K.key(cls, 'check', 'otherwise-True'), ok, fn, '')
    ok = any(isinstance(n, ast.If) and 'is None' in A.src(n.test) and A.is_self_attr(n.test.left, '_keep_mem_free')
             and any(isinstance(s, ast.Return) and A.is_const(s.value, True) for s in n.body) for n in fn.body
             if isinstance(n, ast.If) and isinstance(n.test, ast.Compare))
    rep.ob('G', K.key(cls, 'check', 'no-reserve=>always-cache'), ok, fn, '')
    gm = cls.resolve('_get_memory_size')
    if gm is not None and gm.is_function:
        pct = [n for n in A.walk_local(gm.node) if isinstance(n, ast.Return) and n.value is not None
               and any(isinstance(x, ast.Call) and (A.dotted(x.func) or '').endswith('virtual_memory') for x in ast.walk(n.value))]
        okp = bool(pct) and all(any(isinstance(x, ast.Attribute) and x.attr == 'total' and isinstance(x.value, ast.Call)
                                    for x in ast.walk(r.value)) for r in pct)
        rep.ob('G', K.key(cls, '_get_memory_size', 'percent-is-relative-to-total-memory'), okp, pct[0] if pct else gm.node,
               '' if okp else 'a percentage for keep_mem_free is documented as a share of the machine\'s total memory; it is '
               'computed from another quantity, so the threshold moves with the memory that happens to be free at construction')
    # the latch attribute is only ever set to False (never reset)
    resets = []
    for c in [cls] + ctx.repo.subclasses(cls):
        for n in ast.walk(c.node):
            if isinstance(n, ast.Assign) and any(A.is_self_attr(t, '_do_cache') or (
                    isinstance(t, ast.Attribute) and t.attr == '_do_cache') for t in n.targets):
                if not A.is_const(n.value, False):
                    resets.append(n)
    rep.ob('G', K.key(cls, None, 'latch-never-reset'), not resets, resets[0] if resets else cls.node,
           '' if not resets else 'the latch is re-enabled: examples computed later are cached again after the warning')
    # no eviction: who may write / delete the store
    w = ctx.repo.cls('core._CacheWrapper')
    bad = []
    for n in ast.walk(ctx.repo.module('core').tree):
        if isinstance(n, ast.Delete):
            for t in n.targets:
                if isinstance(t, ast.Subscript) and ('cache' in A.src(t.value)):
                    bad.append(n)
        if isinstance(n, ast.Call) and isinstance(n.func, ast.Attribute) and n.func.attr in (
                'pop', 'popitem', 'clear', 'evict', 'expire', 'cull', 'delete') and 'cache' in A.src(n.func.value).lower() \
                and 'current_batch' not in A.src(n.func.value):
            bad.append(n)
        if isinstance(n, ast.Assign) and any(isinstance(t, ast.Attribute) and t.attr == 'cache'
                                             and A.is_name(t.value, 'self') for t in n.targets):
            f = A.enclosing_function(n)
            if f is None or f.name != '__init__':
                bad.append(n)
    rep.ob('G', 'core::no-eviction-from-the-cache-store', not bad, bad[0] if bad else w.node,
           '' if not bad else 'entries are removed / the store is replaced: a frozen example can be recomputed')
    # the wrapper's store: only __setitem__ writes
    writers = [f.name for f in w.node.body if isinstance(f, A.FUNC_TYPES) and any(
        isinstance(n, (ast.Assign, ast.AugAssign)) and any(
            isinstance(t, ast.Subscript) and A.is_self_attr(t.value, 'cache')
            for t in (n.targets if isinstance(n, ast.Assign) else [n.target])) for n in ast.walk(f))]
    rep.ob('G', K.key(w, None, 'only-__setitem__-writes-the-store'), writers == ['__setitem__'], w.node, str(writers))
    setter = w.own('__setitem__').node
    ow = not any(isinstance(n, ast.If) for n in A.walk_local(setter))
    rep.ob('G', K.key(w, '__setitem__', 'unconditional-store'), ow, setter, '')


def rule_s(ctx):
    rep = ctx.report
    for cname in ('core.CacheDataset', 'core.DiskCacheDataset'):
        cls = ctx.repo.cls(cname)
        cp = cls.own('copy')
        if cp is None:
            rep.ob('S', K.key(cls, 'copy', 'defined'), False, cls.node, 'no own copy(): the store is not shared')
            continue
        fn = cp.node
        ok = any(isinstance(n, ast.Assign) and isinstance(n.targets[0], ast.Attribute) and n.targets[0].attr == '_cache'
                 and A.is_self_attr(n.value, '_cache') for n in A.walk_local(fn))
        via_init = any(isinstance(n, ast.Call) and A.dotted(n.func) in ('self.__class__', cls.name, 'type(self)')
                       for n in A.walk_local(fn))
        rep.ob('S', K.key(cls, 'copy', 'shares-the-store'), ok and not via_init, fn,
               '' if ok and not via_init else 'copy() must bind the copy\'s _cache to the very same store object '
               '(prefetch iterates a copy; a fresh store would recompute every example per epoch)')


def rule_e(ctx):
    rep = ctx.report
    base = ctx.repo.dataset_base()
    fn = base.own('cache').node
    lazy_ret = eager_ret = None
    for r in flow.returns_of(fn):
        for test, branch in flow.guards_of(r, fn):
            t, neg = A.strip_not(test)
            if A.is_name(t, 'lazy'):
                if branch != neg:
                    lazy_ret = r
                else:
                    eager_ret = r
    ok = eager_ret is not None and isinstance(eager_ret.value, ast.Call) and A.dotted(eager_ret.value.func) == 'new' \
        and A.is_name(eager_ret.value.args[0], 'self')
    rep.ob('E', K.key(base, 'cache', 'eager=new(self)'), ok, eager_ret or fn,
           '' if ok else 'cache(lazy=False) must snapshot the dataset with new(self)')
    ok = lazy_ret is not None and isinstance(lazy_ret.value, ast.Call) and A.dotted(lazy_ret.value.func) == 'CacheDataset' \
        and A.is_name(lazy_ret.value.args[0], 'self')
    rep.ob('E', K.key(base, 'cache', 'lazy=CacheDataset(self,...)'), ok, lazy_ret or fn, '')
    ok = any(isinstance(n, ast.Assert) and 'self.indexable' in A.src(n.test) for n in A.walk_local(fn))
    rep.ob('E', K.key(base, 'cache', 'requires-indexable-input'), ok, fn, '')
    fd = ctx.repo.module('core').functions.get('from_dataset')
    if fd is None:
        raise AnalysisError('anchor vanished: core.from_dataset')
    mats = [n for n in A.walk_local(fd) if isinstance(n, ast.Call) and A.dotted(n.func) == 'list' and n.args
            and ('examples' in A.src(n.args[0]))]
    ok = len(mats) >= 2
    rep.ob('E', 'core.from_dataset::materialises-before-building', ok, fd,
           '' if ok else 'from_dataset must materialise the full iteration (list(...)) before building the snapshot')
    # keyed snapshot only if keys are unique
    def unique_cond(node):
        """on the path to node: True if len(dict) == len(items) holds, False if it fails, None if not tested"""
        res = None
        for t0, truth in flow.guards_of(node, fd):
            t, neg = A.strip_not(t0)
            if isinstance(t, ast.Compare) and len(t.ops) == 1 and isinstance(t.ops[0], (ast.Eq, ast.NotEq)) \
                    and all(isinstance(x, ast.Call) and A.dotted(x.func) == 'len' for x in [t.left, t.comparators[0]]):
                res = ((truth != neg) == isinstance(t.ops[0], ast.Eq))
        return res
    dict_calls = [x for x in A.walk_local(fd) if isinstance(x, ast.Call) and A.dotted(x.func) == 'from_dict']
    ok = bool(dict_calls) and all(unique_cond(c) is True for c in dict_calls) and any(
        isinstance(x, ast.Call) and A.dotted(x.func) == 'from_list' and unique_cond(x) is False for x in A.walk_local(fd))
    rep.ob('E', 'core.from_dataset::keyed-only-if-keys-unique', ok, fd, '')
    # the list fallback (duplicate keys) keeps every example: it is built from the materialised pairs position by position,
    # never through the dict (which keeps one value per key)
    dict_vars = {n.targets[0].id for n in A.walk_local(fd) if isinstance(n, ast.Assign) and isinstance(n.targets[0], ast.Name)
                 and isinstance(n.value, ast.Call) and A.dotted(n.value.func) == 'dict'}
    for c_ in [x for x in A.walk_local(fd) if isinstance(x, ast.Call) and A.dotted(x.func) == 'from_list' and unique_cond(x) is False]:
        arg = c_.args[0] if c_.args else None
        through_dict = arg is not None and any(
            isinstance(x, ast.Subscript) and ((isinstance(x.value, ast.Name) and x.value.id in dict_vars)
                                              or (isinstance(x.value, ast.Call) and A.dotted(x.value.func) == 'dict'))
            for x in list(ast.walk(arg)) + list(ast.walk(flow.expand(arg, fd))))
        rep.ob('E', 'core.from_dataset::duplicate-key-fallback-keeps-every-example', not through_dict, c_,
               '' if not through_dict else 'the list for the duplicate-key case is built by looking the keys up in the dict '
               '(`%s`): a dict keeps the last value per key, so every repeated key yields the same example' % A.short(arg, 60))


def run(ctx):
    rule_kmh(ctx)
    rule_g(ctx)
    rule_s(ctx)
    rule_e(ctx)
