"""C17 — dynamic bucketing conserves examples (conservation discipline only).

P1 one placement per source element (first fit xor creation)
P2 every removal from the open-bucket list is paired with emission (or a counted drop under drop_incomplete)
P3 final flush covers all remaining buckets     P4 nothing else removes / clears / rebinds the list
P5 completion tested on the touched bucket after every placement; bucket size limit
P6 the withheld-examples counter follows placements and removals
P7 expiry and overflow checks are reached on every element
P8 bounds of a time-series bucket only tighten, each new term is the window of the example being added
P9 the size limit is part of the acceptance test (with the candidate's length)
P10 expiry age: released once <running index> - <creation index> >= expiration
"""
import ast

from .. import astutil as A
from .. import flow
from ..cfg import CFG, normal
from ..effects import INPUT_ATTR
from ..model import AnalysisError
from . import common as K

META = {
    'id': 'C17',
    'technique': 'CFG / block-structure rules pairing every removal from the open-bucket list with an emission, '
                 'placement-exclusivity shape check of the first-fit loop, counter bookkeeping agreement',
    'explanation': 'Conservation discipline of DynamicBucketDataset.__iter__: every source element is placed exactly once '
                   '(appended to the first open bucket that accepts it, or made the first element of a new bucket that is '
                   'appended to the list); every pop from the list of open buckets is accompanied by a yield of the popped '
                   'bucket\'s data, unconditionally at the completion site and under `not drop_incomplete` elsewhere, the '
                   'other arm only counting; the final loop treats every remaining bucket the same way; nothing else '
                   'removes from, clears or rebinds the list; completion is tested on the bucket just touched after every '
                   'placement, a bucket is complete at len(data) >= batch_size and refuses appends when complete; the '
                   'withheld counter is +1 per placement and -len(data) per removal. The padding-rate and '
                   'max_total_size arithmetic and the expiry ages are numeric and not decided.',
    'not_decided': 'padding-rate bound, max_total_size bound, expiry ages (numeric clauses of the property)',
    'assumptions': ['list.pop(i) removes exactly the i-th element'],
}


def incr(stmt):
    """(name, +1|-1, value expr) for `x += v`, `x -= v`, `x = x + v`, `x = x - v`; else None"""
    if isinstance(stmt, ast.AugAssign) and isinstance(stmt.target, ast.Name) and isinstance(stmt.op, (ast.Add, ast.Sub)):
        return stmt.target.id, (1 if isinstance(stmt.op, ast.Add) else -1), stmt.value
    if isinstance(stmt, ast.Assign) and len(stmt.targets) == 1 and isinstance(stmt.targets[0], ast.Name) \
            and isinstance(stmt.value, ast.BinOp) and isinstance(stmt.value.op, (ast.Add, ast.Sub)) \
            and A.is_name(stmt.value.left, stmt.targets[0].id):
        return stmt.targets[0].id, (1 if isinstance(stmt.value.op, ast.Add) else -1), stmt.value.right
    return None


def run(ctx):
    rep = ctx.report
    cls = ctx.repo.cls('core.DynamicBucketDataset')
    mem = cls.own('__iter__')
    if mem is None:
        raise AnalysisError('anchor vanished: DynamicBucketDataset.__iter__')
    fn = mem.node
    _l, fctx = ctx.effects.local_effects(fn, cls, cls.module)
    main = [l for l in fn.body if isinstance(l, ast.For) and any(fctx.kind(x) == 'DS' for x in ast.walk(l.iter))]
    if len(main) != 1:
        raise AnalysisError('undecidable shape: main loop of DynamicBucketDataset.__iter__ not found')
    loop = main[0]
    if not (isinstance(loop.target, ast.Tuple) and len(loop.target.elts) == 2 and isinstance(loop.iter, ast.Call)
            and A.dotted(loop.iter.func) == 'enumerate'):
        raise AnalysisError('undecidable shape: main loop is not `for i, example in enumerate(input)`')
    idx, ex = loop.target.elts[0].id, loop.target.elts[1].id
    # the list of open buckets: local list that receives (bucket, i) tuples
    lists = [n.targets[0].id for n in fn.body if isinstance(n, ast.Assign) and isinstance(n.targets[0], ast.Name)
             and ((isinstance(n.value, ast.Call) and A.dotted(n.value.func) == 'list' and not n.value.args)
                  or (isinstance(n.value, ast.List) and not n.value.elts))]
    apps = [c for c in A.walk_stmts(loop.body) if isinstance(c, ast.Call) and isinstance(c.func, ast.Attribute)
            and c.func.attr == 'append' and isinstance(c.func.value, ast.Name) and c.func.value.id in lists]
    if len(apps) != 1:
        rep.ob('P1', K.key(cls, '__iter__', 'one-creation-site'), False, loop, '%d appends to the open-bucket list' % len(apps))
        return
    B = apps[0].func.value.id
    # names that hold the data of a bucket: assigned from `<x>.data` (or from sorted(<such a name>, ...))
    DN = set()
    for n in A.walk_local(fn):
        if isinstance(n, ast.Assign) and len(n.targets) == 1 and isinstance(n.targets[0], ast.Name):
            v = n.value
            if isinstance(v, ast.Attribute) and v.attr == 'data':
                DN.add(n.targets[0].id)
    changed = True
    while changed:      # copies / sorted versions of a bucket's data are data names too
        changed = False
        for n in A.walk_local(fn):
            if isinstance(n, ast.Assign) and len(n.targets) == 1 and isinstance(n.targets[0], ast.Name) \
                    and n.targets[0].id not in DN:
                v = n.value
                if (isinstance(v, ast.Name) and v.id in DN) or (
                        isinstance(v, ast.Call) and A.dotted(v.func) == 'sorted' and v.args
                        and isinstance(v.args[0], ast.Name) and v.args[0].id in DN):
                    DN.add(n.targets[0].id)
                    changed = True
    if not DN:
        raise AnalysisError('undecidable shape: no variable holds the data of a bucket')

    def is_data(e):
        return isinstance(e, ast.Name) and e.id in DN

    def len_of_data(e):
        return isinstance(e, ast.Call) and A.dotted(e.func) == 'len' and e.args and is_data(e.args[0])
    # the withheld-examples counter: the name decremented by len(data)
    CN = {incr(s)[0] for s in A.walk_local(fn) if incr(s) and incr(s)[1] == -1 and len_of_data(incr(s)[2])}
    if len(CN) != 1:
        raise AnalysisError('undecidable shape: withheld-examples counter not identified (%s)' % sorted(CN))
    CN = CN.pop()
    # ---------------- P1
    creates = [c for c in A.walk_stmts(loop.body) if isinstance(c, ast.Call) and A.is_self_attr(c.func, 'bucket_cls')]
    fits = [c for c in A.walk_stmts(loop.body) if isinstance(c, ast.Call) and isinstance(c.func, ast.Attribute)
            and c.func.attr == 'maybe_append']
    ok = len(creates) == 1 and len(fits) == 1 and creates[0].args and A.is_name(creates[0].args[0], ex) \
        and fits[0].args and A.is_name(fits[0].args[0], ex)
    rep.ob('P1', K.key(cls, '__iter__', 'one-first-fit-site-and-one-creation-site-for-the-element'), ok, loop,
           '' if ok else 'the current element must be offered to open buckets at one site and start a new bucket at one site')
    if not ok:
        return
    fit, create = fits[0], creates[0]
    inner = [a for a in A.ancestors(fit) if isinstance(a, ast.For) and a is not loop and any(a is x for x in ast.walk(loop))]
    fit_if = A.parent(fit)
    cur = None
    ok = False
    forelse = False
    if inner and isinstance(fit_if, ast.If) and fit_if.test is fit:
        il = inner[0]
        asg = [s for s in fit_if.body if isinstance(s, ast.Assign) and isinstance(s.targets[0], ast.Name)]
        brk = any(isinstance(s, ast.Break) for s in fit_if.body)
        over_list = A.is_name(il.iter, B) or (isinstance(il.iter, ast.Call) and A.dotted(il.iter.func) == 'enumerate'
                                              and A.is_name(il.iter.args[0], B))
        recv = A.src(fit.func.value)
        if asg and brk and over_list and A.src(asg[0].value) == recv and not fit_if.orelse:
            cur = asg[0].targets[0].id
            ok = True
        elif brk and over_list and not fit_if.orelse and isinstance(fit.func.value, ast.Name) \
                and fit.func.value.id in A.name_targets(il.target) and il.orelse \
                and any(create is x for s_ in il.orelse for x in ast.walk(s_)):
            # for/else search: the loop variable itself is the record, `else` runs exactly when nothing accepted
            cur = fit.func.value.id
            ok = True
            forelse = True
    rep.ob('P1', K.key(cls, '__iter__', 'first-fit:accepting-bucket-recorded-and-search-stops'), ok, fit,
           '' if ok else 'when an open bucket accepts the element the search must record that bucket and stop (break): '
           'otherwise the element is appended to several buckets or a new bucket is created as well')
    if cur is None:
        return
    # reset before the search, creation only when nothing accepted
    pre = [s for s in loop.body if isinstance(s, ast.Assign) and A.is_name(s.targets[0], cur) and A.is_const(s.value, None)
           and s.lineno < inner[0].lineno]
    cg = [(t, b) for t, b in flow.guards_of(create, loop)]
    under_none = any(isinstance(t, ast.Compare) and A.is_name(t.left, cur) and isinstance(t.ops[0], ast.Is)
                     and A.is_const(t.comparators[0], None) and b for t, b in cg) and len(cg) == 1
    if forelse:
        only_break = all(isinstance(s_, ast.Break) for s_ in fit_if.body)
        rep.ob('P1', K.key(cls, '__iter__', 'creation-iff-no-open-bucket-accepted'), only_break, create,
               '' if only_break else 'in the for/else search the accepting branch must only `break`')
    else:
        rep.ob('P1', K.key(cls, '__iter__', 'creation-iff-no-open-bucket-accepted'), bool(pre) and under_none, create,
               '' if pre and under_none else 'a new bucket must be created exactly when the search found none '
               '(`%s = None` before the search, creation under `if %s is None`)' % (cur, cur))
    # the created bucket is the one appended, paired with the creation index
    cstmt = A.parent(create)
    ok = isinstance(cstmt, ast.Assign) and A.is_name(cstmt.targets[0], cur) and isinstance(apps[0].args[0], ast.Tuple) \
        and len(apps[0].args[0].elts) == 2 and A.is_name(apps[0].args[0].elts[0], cur) and A.is_name(apps[0].args[0].elts[1], idx) \
        and flow.guards_of(apps[0], loop) == flow.guards_of(create, loop)
    rep.ob('P1', K.key(cls, '__iter__', 'new-bucket-appended-with-its-creation-index'), ok, apps[0],
           '' if ok else 'the new bucket must be appended to the open list as (bucket, %s)' % idx)
    kw_ok = any(kw.arg is None and A.is_self_attr(kw.value, 'bucket_kwargs') for kw in create.keywords)
    rep.ob('P1', K.key(cls, '__iter__', 'bucket-built-with-the-configured-kwargs'), kw_ok, create, '')
    # ---------------- P2 / P4 removal sites
    pops = [c for c in A.walk_local(fn) if isinstance(c, ast.Call) and isinstance(c.func, ast.Attribute)
            and c.func.attr in ('pop', 'remove', 'clear', 'popleft') and A.is_name(c.func.value, B)]
    rebinds = [n for n in A.walk_local(fn) if isinstance(n, (ast.Assign, ast.AugAssign, ast.Delete)) and any(
        (A.is_name(t, B) or (isinstance(t, ast.Subscript) and A.is_name(t.value, B)))
        for t in (n.targets if isinstance(n, (ast.Assign, ast.Delete)) else [n.target]))]
    ok = len(rebinds) == 1 and all(p.func.attr == 'pop' for p in pops)
    rep.ob('P4', K.key(cls, '__iter__', 'open-list-only-shrinks-by-pop'), ok, (rebinds[1:] + pops)[0] if (rebinds[1:] or pops) else fn,
           '' if ok else 'the open-bucket list is rebound / cleared / element-deleted (%d stores, removals: %s): buckets can '
           'vanish without being emitted' % (len(rebinds), sorted({p.func.attr for p in pops})))
    rep.floor('removal sites of open buckets', len(pops), 3)

    def emission_in(block, pop):
        """classify how `block` (statement list containing the pop) emits: 'always' | 'unless-drop' | None"""
        # what does `data` denote: <bucket>.data of the popped bucket
        ys = [y for y in A.walk_stmts(block) if isinstance(y, ast.Yield)]
        if not ys:
            return None, 'no yield next to the removal'
        y = ys[0]
        val = A.src(y.value)
        g = [(t, b) for t, b in flow.guards_of(y, A.parent(block[0]) if False else fn)]
        # guards between block level and the yield
        rel = []
        for t, b in flow.guards_of(y, fn):
            if any(t is x for s in block for x in ast.walk(s)):
                rel.append((t, b))
        cond = None
        for t, b in rel:
            tt, neg = A.strip_not(t)
            if A.is_self_attr(tt, 'drop_incomplete'):
                cond = 'unless-drop' if (b == neg) else 'only-when-drop'
            elif A.is_self_attr(tt.left if isinstance(tt, ast.Compare) else tt, 'sort_key'):
                pass
            elif 'sort_key' in A.src(t):
                pass
            else:
                return None, 'emission additionally depends on `%s`' % A.short(t)
        return (cond or 'always'), val

    site_names = []
    for p in pops:
        # the innermost statement list that contains the pop
        stmt = p
        while not isinstance(A.parent(stmt), (ast.If, ast.For, ast.While, ast.FunctionDef)):
            stmt = A.parent(stmt)
        par = A.parent(stmt)
        block = par.body if any(stmt is s for s in par.body) else par.orelse
        guards = flow.guards_of(stmt, fn)
        completion = any(isinstance(t, ast.Call) and isinstance(t.func, ast.Attribute) and t.func.attr == 'is_completed' and b
                         for t, b in guards)
        mode, val = emission_in(block, p)
        name = 'completion' if completion else ('overflow' if 'max_buffered_examples' in ' '.join(A.src(t) for t, b in guards)
                                                else 'expiry')
        site_names.append(name)
        if completion:
            ok = mode == 'always'
            why = '' if ok else 'a completed bucket must always be emitted when it is removed (%s)' % (val if mode is None else mode)
        else:
            ok = mode == 'unless-drop'
            why = '' if ok else 'an incomplete bucket removed here must be yielded unless drop_incomplete is set (%s)' % (
                val if mode is None else mode)
        rep.ob('P2', K.key(cls, '__iter__', 'removal-paired-with-emission(%s)' % name), ok, p, why)
        # the emitted data belong to the popped bucket
        popped = p.args[0] if p.args else None
        data_defs = [s for s in A.walk_stmts(block) if isinstance(s, ast.Assign) and is_data(s.targets[0])
                     and not (isinstance(s.value, ast.Call) and A.dotted(s.value.func) == 'sorted')]
        okd = False
        if data_defs:
            dv = data_defs[0].value
            if any(x is p for x in ast.walk(dv)):
                okd = A.src(dv).endswith('[0].data')          # data = buckets.pop(0)[0].data
            elif isinstance(dv, ast.Attribute) and dv.attr == 'data' and isinstance(dv.value, ast.Name):
                bname = dv.value.id
                if completion:
                    okd = bname == cur and isinstance(popped, ast.Name)
                else:
                    # popped index and bucket come from one enumerate over the list
                    for a in A.ancestors(p):
                        if isinstance(a, ast.For) and isinstance(a.iter, ast.Call) and A.dotted(a.iter.func) == 'enumerate' \
                                and A.is_name(a.iter.args[0], B) and isinstance(a.target, ast.Tuple):
                            jn = a.target.elts[0].id if isinstance(a.target.elts[0], ast.Name) else None
                            bn = a.target.elts[1].elts[0].id if isinstance(a.target.elts[1], ast.Tuple) else None
                            okd = A.is_name(popped, jn or '\0') and bname == bn
                            # the list is mutated while iterated: the scan must stop right after the pop
                            after = block[block.index(stmt) + 1:] if stmt in block else []
                            okd = okd and any(isinstance(s, ast.Break) for s in after[:1])
        rep.ob('P2', K.key(cls, '__iter__', 'emitted-data-belong-to-the-removed-bucket(%s)' % name), okd, p,
               '' if okd else 'the bucket whose data are emitted is not provably the one removed from the list '
               '(index / bucket from different sources, or the scan continues over the mutated list)')
        # drop arm only counts
        for s in A.walk_stmts(block):
            if isinstance(s, ast.If) and A.is_self_attr(A.strip_not(s.test)[0], 'drop_incomplete'):
                neg = A.strip_not(s.test)[1]
                drop_arm = s.orelse if neg else s.body
                okc = all(incr(x) is not None and incr(x)[1] == 1 and incr(x)[0] != CN for x in drop_arm) and bool(drop_arm)
                rep.ob('P2', K.key(cls, '__iter__', 'drop-arm-only-counts(%s)' % name), okc, s, '')
        # P6 counter
        dec = [s for s in A.walk_stmts(block) if incr(s) and incr(s)[0] == CN and incr(s)[1] == -1 and len_of_data(incr(s)[2])]
        okp6 = len(dec) == 1 and not [t for t, b in flow.guards_of(dec[0], fn) if any(t is x for s2 in block for x in ast.walk(s2))]
        rep.ob('P6', K.key(cls, '__iter__', 'withheld-counter-decremented-by-len(data)(%s)' % name), okp6, p,
               '' if okp6 else 'every removal must subtract len(data) from the withheld counter exactly once, unconditionally')
    want = {'completion', 'expiry', 'overflow'}
    rep.ob('P2', K.key(cls, '__iter__', 'removal-sites=completion+expiry+overflow'), set(site_names) == want, fn,
           '' if set(site_names) == want else 'removal sites found: %s' % site_names)
    inc = [s for s in loop.body if incr(s) and incr(s)[0] == CN and incr(s)[1] == 1 and A.int_value(incr(s)[2]) == 1]
    rep.ob('P6', K.key(cls, '__iter__', 'withheld-counter+1-per-element'), len(inc) == 1, loop, '')
    # overflow loop: while buffered_count > max_buffered_examples
    ov = [w for w in A.walk_stmts(loop.body) if isinstance(w, ast.While)]
    ok = False
    if len(ov) == 1:
        kind, ats = A.atoms(ov[0].test)
        ok = any(len(a) == 3 and a[2] is not None and (lambda r: r and r[0] == '>' and A.is_self_attr(r[1], 'max_buffered_examples'))(
            A.norm_cmp(a[0], a[1], a[2], lambda e: A.is_name(e, CN))) for a in ats)
    rep.ob('P6', K.key(cls, '__iter__', 'overflow-loop:while-withheld>max_buffered_examples'), ok, ov[0] if ov else loop,
           '' if ok else 'buckets must be released while the number of withheld examples exceeds max_buffered_examples')
    # ---------------- P10 expiry age: a bucket created at element c is released right after element c + expiration
    # (test `i - c >= self.expiration` with i the running index of the input loop and c the index stored with the bucket)
    idx_name = None
    if isinstance(loop.iter, ast.Call) and A.dotted(loop.iter.func) == 'enumerate' and isinstance(loop.target, ast.Tuple) \
            and isinstance(loop.target.elts[0], ast.Name):
        idx_name = loop.target.elts[0].id
    exp_cmps = [n for n in A.walk_stmts(loop.body) if isinstance(n, ast.If) and any(
        A.is_self_attr(x, 'expiration') for x in ast.walk(n.test)) and any(
        isinstance(x, ast.BinOp) for x in ast.walk(n.test))]
    for n in exp_cmps:
        kind_, ats = A.atoms(n.test)
        verdict = None
        for a_ in ats:
            if len(a_) != 3 or a_[2] is None:
                continue
            r = A.norm_cmp(a_[0], a_[1], a_[2], lambda e: A.is_self_attr(e, 'expiration'))
            if not r:
                continue
            op_, age = r          # expiration <op> age
            age = flow.expand(age, fn)
            if not (isinstance(age, ast.BinOp) and isinstance(age.op, (ast.Sub, ast.Add))):
                continue
            # the stored creation index: bound by a for target over the bucket list
            created = {nm for l2 in A.walk_stmts(loop.body) if isinstance(l2, ast.For)
                       for nm in A.name_targets(l2.target)}
            shape = isinstance(age.op, ast.Sub) and A.is_name(age.left, idx_name or '\0') and isinstance(age.right, ast.Name) \
                and age.right.id in created
            verdict = (op_ == '<=' and shape, op_, age)
        if verdict is None:
            rep.undecided('P10', K.key(cls, '__iter__', 'expiry-age-test'), n, 'unrecognised form of the expiry test `%s`' % A.short(n.test))
        else:
            rep.ob('P10', K.key(cls, '__iter__', 'expiry-age-test:(i-created)>=expiration'), verdict[0], n,
                   '' if verdict[0] else 'a bucket must be released once `<running index> - <creation index> >= self.expiration`; '
                   'found `%s`: the bucket lives for a different number of further examples' % A.short(n.test))
    # ---------------- P7 every element passes the expiry and the overflow check
    from ..cfg import CFG as _CFG, normal as _normal
    g = _CFG(fn)
    head = [nd for nd in g.nodes if nd.kind == 'for' and nd.ast is loop and not nd.tag][0]
    for attr, what in (('expiration', 'expiry'), ('max_buffered_examples', 'overflow')):
        tests = {nd.id for nd in g.nodes if nd.kind in ('test', 'while') and any(A.is_self_attr(x, attr) for x in ast.walk(nd.ast.test))}
        if not tests:
            rep.ob('P7', K.key(cls, '__iter__', '%s-check-on-every-element' % what), False, loop, 'no test of self.%s in the loop' % attr)
            continue
        bad = None
        for (y, k) in g.succ[head.id]:
            if k == 'loop':
                bad = g.path_avoiding(y, lambda nd: nd.id == head.id, lambda nd: nd.id in tests, edge_ok=_normal) or (
                    None if y not in tests else None)
        rep.ob('P7', K.key(cls, '__iter__', '%s-check-on-every-element' % what), bad is None, bad[-2].ast if bad and len(bad) > 1 else loop,
               '' if bad is None else 'a path through one element returns to the loop head without reaching the %s check '
               '(self.%s): on that step an overdue bucket is kept / the buffer limit is not enforced' % (what, attr),
               path=[repr(x) for x in bad if x.ast is not None] if bad else None)
    # ---------------- P8 bounds of a time-series bucket only tighten
    ts0 = ctx.repo.cls('core.DynamicTimeSeriesBucket')
    for mname, mem_ in ts0.members.items():
        if not mem_.is_function or mname == '__init__':
            continue
        for n in A.walk_local(mem_.node):
            if isinstance(n, (ast.Assign, ast.AugAssign)):
                tg = n.targets[0] if isinstance(n, ast.Assign) else n.target
                for attr, fn_name in (('lower_bound', 'max'), ('upper_bound', 'min'), ('max_len', 'max')):
                    if A.is_self_attr(tg, attr):
                        v = n.value if isinstance(n, ast.Assign) else None
                        ok8 = isinstance(v, ast.Call) and A.dotted(v.func) == fn_name and any(A.is_self_attr(a, attr) for a in v.args) \
                            and len(v.args) == 2
                        rep.ob('P8', K.key(ts0, mname, 'bound-only-tightens(%s=%s(old,new))' % (attr, fn_name)), ok8, n,
                               '' if ok8 else 'self.%s is assigned %s instead of %s(self.%s, ...): adding an example can loosen '
                               'the window, so a later example outside the padding-rate bound of an earlier member is accepted'
                               % (attr, A.short(v) if v is not None else 'in place', fn_name, attr))
    # the new term of each bound is the window of the example being added: len(example) * (1 - rate) resp.
    # len(example) / (1 - rate). (self.max_len is the same thing only after it has been updated with this example.)
    for mname_ in ('_append', '__init__'):
        mem_ = ts0.own(mname_)
        if mem_ is None:
            continue
        fnb = mem_.node
        pars = [a.arg for a in fnb.args.posonlyargs + fnb.args.args][1:]
        if not pars:
            continue
        ex = pars[0]

        def is_len_of_example(e):
            return isinstance(e, ast.Call) and (A.is_self_attr(e.func, 'len_key') or A.is_name(e.func, 'len_key')) \
                and len(e.args) == 1 and A.is_name(e.args[0], ex)

        def is_slack(e):
            return isinstance(e, ast.BinOp) and isinstance(e.op, ast.Sub) and A.int_value(e.left) == 1 \
                and (A.is_self_attr(e.right, 'max_padding_rate') or A.is_name(e.right, 'max_padding_rate'))
        stmts_ = [n for n in A.walk_local(fnb) if isinstance(n, ast.Assign)]
        for n in stmts_:
            for attr, opt, sym in (('lower_bound', ast.Mult, '*'), ('upper_bound', ast.Div, '/'), ('max_len', None, '')):
                if not A.is_self_attr(n.targets[0], attr):
                    continue
                v = n.value
                if isinstance(v, ast.Call) and A.dotted(v.func) in ('max', 'min') and len(v.args) == 2 \
                        and any(A.is_self_attr(a, attr) for a in v.args):
                    v = [a for a in v.args if not A.is_self_attr(a, attr)][0]
                elif mname_ == '_append':
                    continue        # reported by bound-only-tightens
                ve = flow.expand(v, fnb)
                # max_len may stand for the example's length once it has been updated (unconditionally, earlier)
                maxlen_current = any(
                    A.is_self_attr(m.targets[0], 'max_len') and m.lineno < n.lineno and not flow.guards_of(m, fnb)
                    and any(is_len_of_example(x) for x in ast.walk(flow.expand(m.value, fnb))) for m in stmts_)

                def is_len(e):
                    # max(len) over the members is what the LOWER bound needs; the upper bound follows the shortest member,
                    # so there only the length of the example itself will do
                    return is_len_of_example(e) or (maxlen_current and attr == 'lower_bound' and A.is_self_attr(e, 'max_len'))
                depends = any(is_len(x) for x in ast.walk(ve))
                kk = K.key(ts0, mname_, 'new-%s-from-len(%s)' % (attr, 'example'))
                if not depends:
                    rep.ob('P8', kk, False, n,
                           'the new term `%s` does not depend on the length of the example being added%s: the window is not '
                           'tightened by this example, so the next example may violate the padding-rate bound against it'
                           % (A.short(v), ' (self.max_len is only updated later in this function)'
                              if any(A.is_self_attr(x, 'max_len') for x in ast.walk(ve)) else ''))
                    continue
                if opt is None:
                    ok8 = is_len(ve)
                    if ok8:
                        rep.ob('P8', kk, True, n)
                    elif isinstance(ve, ast.BinOp):
                        rep.ob('P8', kk, False, n, 'max_len must become max(max_len, len(example)); found `%s`' % A.short(v))
                    else:
                        rep.undecided('P8', kk, n, 'unrecognised form of the new maximal length: `%s`' % A.short(v))
                    continue
                if isinstance(ve, ast.BinOp) and isinstance(ve.op, (ast.Mult, ast.Div)) and (
                        is_slack(ve.right) or is_slack(ve.left) or is_len(ve.left) or is_len(ve.right)):
                    if isinstance(ve.op, ast.Mult) and is_slack(ve.left):
                        lhs, rhs = ve.right, ve.left
                    else:
                        lhs, rhs = ve.left, ve.right
                    ok8 = isinstance(ve.op, opt) and is_len(lhs) and is_slack(rhs)
                    rep.ob('P8', kk, ok8, n, '' if ok8 else 'the new %s must be len(example) %s (1 - max_padding_rate); found `%s`'
                           % (attr, sym, A.short(ve)))
                else:
                    rep.undecided('P8', kk, n, 'unrecognised form of the bound: `%s`' % A.short(v))
    ap_ts = ts0.own('_append')
    if ap_ts is not None:
        upd = {a for n in A.walk_local(ap_ts.node) if isinstance(n, ast.Assign) for a in ('lower_bound', 'upper_bound', 'max_len')
               if A.is_self_attr(n.targets[0], a) and not flow.guards_of(n, ap_ts.node)}
        rep.ob('P8', K.key(ts0, '_append', 'all-bounds-updated-unconditionally'), upd == {'lower_bound', 'upper_bound', 'max_len'},
               ap_ts.node, '' if upd == {'lower_bound', 'upper_bound', 'max_len'} else
               'every appended example must tighten lower_bound, upper_bound and max_len unconditionally (updated: %s)' % sorted(upd))
    ass = ts0.own('assess')
    if ass is not None:
        rets_ = [r for r in flow.returns_of(ass.node) if r.value is not None and not A.is_const(r.value, False)]
        ok8 = len(rets_) == 1 and isinstance(rets_[0].value, ast.Compare) and len(rets_[0].value.ops) == 2 \
            and all(isinstance(o, ast.LtE) for o in rets_[0].value.ops) and A.is_self_attr(rets_[0].value.left, 'lower_bound') \
            and A.is_self_attr(rets_[0].value.comparators[1], 'upper_bound')
        rep.ob('P8', K.key(ts0, 'assess', 'accepts-iff-lower<=len<=upper'), ok8, ass.node, '')
    # ---------------- P9 the size limit is part of the acceptance test (a longer example raises the padded length
    # of every member, so testing only "is the bucket complete" before the append is not enough)
    if ass is not None:
        cand = None
        for n in A.walk_local(ass.node):
            if isinstance(n, ast.Assign) and isinstance(n.value, ast.Call) and A.is_self_attr(n.value.func, 'len_key') \
                    and isinstance(n.targets[0], ast.Name):
                cand = n.targets[0].id
        ok9 = False
        for n0 in A.walk_local(ass.node):
            if isinstance(n0, ast.Compare) and any(A.is_self_attr(x, 'max_total_size') for x in ast.walk(n0)):
                n = n0
                ne = flow.expand(n0, ass.node)
                # the candidate's length may itself be a named intermediate: keep it as a name
                names = {x.id for x in ast.walk(n0) if isinstance(x, ast.Name)} | {x.id for x in ast.walk(ne) if isinstance(x, ast.Name)}
                if any(isinstance(x, ast.Call) and A.is_self_attr(x.func, 'len_key') for x in ast.walk(ne)):
                    names.add(cand)
                attrs = {x.attr for x in ast.walk(ne) if isinstance(x, ast.Attribute) and A.is_name(x.value, 'self')}
                if cand in names and 'max_len' in attrs and 'data' in attrs and any(
                        isinstance(x, ast.Call) and A.dotted(x.func) == 'max' for x in ast.walk(ne)):
                    # exceeding -> refuse
                    par = n
                    while not isinstance(par, (ast.If, ast.Return)) and A.parent(par) is not None:
                        par = A.parent(par)
                    if isinstance(par, ast.If):
                        ok9 = any(isinstance(s_, ast.Return) and A.is_const(s_.value, False) for s_ in par.body)
                    elif isinstance(par, ast.Return):
                        ok9 = True
        rep.ob('P9', K.key(ts0, 'assess', 'size-limit-checked-with-the-candidate-length'), ok9, ass.node,
               '' if ok9 else 'assess() accepts an example without testing (len(data)+1) * max(max_len, len(example)) against '
               'max_total_size: a longer example joins a bucket and pushes its total size over the limit (is_completed only '
               'looks at the current max_len)')
    # ---------------- P3 final flush
    after = fn.body[fn.body.index(loop) + 1:]
    fl = [l for l in after if isinstance(l, ast.For) and A.is_name(l.iter, B)]
    ok = False
    if len(fl) == 1:
        mode, val = emission_in(fl[0].body, None)
        tgt = fl[0].target
        bn = tgt.elts[0].id if isinstance(tgt, ast.Tuple) and isinstance(tgt.elts[0], ast.Name) else None
        dd = [s for s in fl[0].body if isinstance(s, ast.Assign) and is_data(s.targets[0])]
        ok = mode == 'unless-drop' and bool(dd) and A.src(dd[0].value) == '%s.data' % bn and \
            not any(isinstance(x, (ast.Break, ast.Continue, ast.Return)) for x in A.walk_stmts(fl[0].body))
    rep.ob('P3', K.key(cls, '__iter__', 'final-flush-emits-every-remaining-bucket-unless-drop'), ok, fl[0] if fl else fn,
           '' if ok else 'after the source is exhausted every bucket still open must be yielded unless drop_incomplete is set')
    # ---------------- P5
    comp = [n for n in loop.body if isinstance(n, ast.If) and isinstance(n.test, ast.Call) and isinstance(n.test.func, ast.Attribute)
            and n.test.func.attr == 'is_completed']
    ok = len(comp) == 1 and A.is_name(comp[0].test.func.value, cur) and comp[0].lineno > apps[0].lineno and not flow.guards_of(comp[0], loop)
    rep.ob('P5', K.key(cls, '__iter__', 'completion-tested-on-the-touched-bucket-after-every-placement'), ok,
           comp[0] if comp else loop,
           '' if ok else 'after placing an element, is_completed() of exactly that bucket must be tested unconditionally')
    # index of the touched bucket
    comp_pops = [pp for pp in pops if any(isinstance(t, ast.Call) and isinstance(t.func, ast.Attribute)
                                           and t.func.attr == 'is_completed' and b for t, b in flow.guards_of(pp, fn))]
    jname = comp_pops[0].args[0].id if comp_pops and comp_pops[0].args and isinstance(comp_pops[0].args[0], ast.Name) else None
    jdefs = flow.assigned_names(fn).get(jname, []) if jname else []
    okj = any(A.src(d) == 'len(%s) - 1' % B for d in jdefs)
    # ... and the first-fit index comes from the enumerate over the open list
    if okj and inner:
        il0 = inner[0]
        okj = isinstance(il0.iter, ast.Call) and A.dotted(il0.iter.func) == 'enumerate' and isinstance(il0.target, ast.Tuple) \
            and A.is_name(il0.target.elts[0], jname)
    rep.ob('P5', K.key(cls, '__iter__', 'touched-index=len(list)-1-after-creation'), okj, loop,
           '' if okj else 'after creating a bucket the index used for its removal must be len(%s) - 1' % B)
    db = ctx.repo.cls('core.DynamicBucket')
    ic = db.own('is_completed').node
    rets = flow.returns_of(ic)
    ok = False
    if len(rets) == 1:
        kind, ats = A.atoms(rets[0].value)
        ok = len(ats) == 1 and len(ats[0]) == 3 and ats[0][2] is not None and (lambda r: r is not None and r[0] == '>='
                                                                              and A.is_self_attr(r[1], 'batch_size'))(
            A.norm_cmp(ats[0][0], ats[0][1], ats[0][2], lambda e: A.src(e) == 'len(self.data)'))
    rep.ob('P5', K.key(db, 'is_completed', 'complete-at-len(data)>=batch_size'), ok, ic,
           '' if ok else 'a bucket must be complete as soon as it holds batch_size examples (else batches exceed batch_size)')
    ma = db.own('maybe_append').node
    ok = any(isinstance(n, ast.Assert) and 'is_completed' in A.src(n.test) and A.strip_not(n.test)[1] for n in ma.body)
    ok2 = False
    app_calls = [n for n in A.walk_local(ma) if isinstance(n, ast.Call) and A.dotted(n.func) == 'self._append']

    def assess_cond(node):
        for t, truth in flow.guards_of(node, ma):
            tt, neg = A.strip_not(t)
            if isinstance(tt, ast.Call) and A.dotted(tt.func) == 'self.assess':
                return truth != neg
        return None
    if len(app_calls) == 1 and assess_cond(app_calls[0]) is True:
        rets_ma = [r for r in flow.returns_of(ma) if r.value is not None]
        t_ok = [r for r in rets_ma if A.is_const(r.value, True) and assess_cond(r) is True]
        f_ok = [r for r in rets_ma if A.is_const(r.value, False) and assess_cond(r) is False]
        ok2 = len(t_ok) == 1 and len(f_ok) == 1 and len(rets_ma) == 2
    rep.ob('P5', K.key(db, 'maybe_append', 'appends-iff-assess-and-reports-it'), ok and ok2, ma,
           '' if ok and ok2 else 'maybe_append must refuse completed buckets, append exactly when assess() accepts and '
           'return whether it appended')
    ap = db.own('_append').node
    ok = any(isinstance(n, ast.Call) and A.dotted(n.func) == 'self.data.append' and A.is_name(n.args[0], ap.args.args[1].arg)
             for n in A.walk_local(ap))
    rep.ob('P5', K.key(db, '_append', 'appends-the-example-once'), ok, ap, '')
    ts = ctx.repo.cls('core.DynamicTimeSeriesBucket')
    ap2 = ts.own('_append')
    ok = ap2 is not None and any(isinstance(n, ast.Call) and isinstance(n.func, ast.Attribute) and n.func.attr == '_append'
                                 and isinstance(n.func.value, ast.Call) and A.dotted(n.func.value.func) == 'super'
                                 for n in A.walk_local(ap2.node))
    rep.ob('P5', K.key(ts, '_append', 'delegates-to-the-base-append'), ok, ap2.node if ap2 else ts.node, '')
    init = db.own('__init__').node
    ok = any(isinstance(n, ast.Assign) and A.is_self_attr(n.targets[0], 'data') and isinstance(n.value, ast.List)
             and len(n.value.elts) == 1 and A.is_name(n.value.elts[0], init.args.args[1].arg) for n in A.walk_local(init))
    rep.ob('P5', K.key(db, '__init__', 'bucket-starts-with-exactly-the-creating-example'), ok, init, '')
    # emitted data are the bucket's data (possibly sorted), never filtered
    for y in A.yields_in(fn):
        ok = is_data(y.value)
        rep.ob('P2', K.key(cls, '__iter__', 'yields-the-whole-bucket'), ok, y, '' if ok else 'a yield emits %s' % A.short(y.value))
    srt = [n for n in A.walk_local(fn) if isinstance(n, ast.Assign) and isinstance(n.value, ast.Call)
           and A.dotted(n.value.func) == 'sorted']
    def data_expr(e):
        # a data variable, or the data list of a bucket read in place
        return is_data(e) or (isinstance(e, ast.Attribute) and e.attr == 'data')
    ok = all(is_data(n.targets[0]) and n.value.args and data_expr(n.value.args[0]) for n in srt)
    rep.ob('P2', K.key(cls, '__iter__', 'sorting-preserves-the-multiset'), ok, srt[0] if srt else fn, '')
