"""C13 — explicit seeds reproduce orders; frozen copies stay frozen; copies are faithful.

Rules (DESIGN.md section 4, C13): CC copy completeness, FZ freeze propagation, RS random
source, RT rng threading, OR ordered, PF prefetch/catch/apply iterate over one frozen copy.
"""
import ast

from .. import astutil as A
from .. import flow
from ..model import AnalysisError
from ..effects import INPUT_ATTR, INPUTS_ATTR, RNG_METHODS
from . import common as K

META = {
    'id': 'C13',
    'technique': 'AST parameter-binding analysis of every copy() against the resolved constructor chain; '
                 'effect analysis of random draws (who may draw from the global generator); abstract '
                 'evaluation of the ordered properties',
    'explanation': 'Decides statically, for every Dataset subclass, that copy() re-supplies every constructor '
                   'parameter / every attribute written by the constructor chain (so a copy cannot silently fall '
                   'back to a default such as the global random generator), that freeze is threaded to every input '
                   'copy, that no package code draws from the global numpy/stdlib random module, that a random '
                   'generator available in a factory is handed to the stage it builds, that stages whose iteration '
                   'draws random numbers report ordered=False, and that prefetch / catch / lazy-apply iterate over '
                   'one frozen copy. Equality of two runs (a value property) is not decided; it follows from these '
                   'clauses plus determinism of numpy generators.',
    'not_decided': 'value equality of two equally seeded runs',
    'assumptions': ['numpy RandomState/Generator draws are a deterministic function of the generator state',
                    'np.arange(n)[perm,] (fancy indexing) returns a new array'],
}

CC_TABLE_NO_COPY = {
    'CycleDataset': 'defines no copy(); Dataset.copy raises NotImplementedError loudly (documented)',
}


def _is_class_ctor(call, ctx_cls):
    """self.__class__(...), type(self)(...), ClassName(...)"""
    f = call.func
    d = A.dotted(f)
    if d in ('self.__class__',):
        return True
    if isinstance(f, ast.Call) and A.dotted(f.func) == 'type' and len(f.args) == 1 \
            and A.is_name(f.args[0], 'self'):
        return True
    if d is not None and d == ctx_cls.name:
        return True
    return False


def _is_new_call(expr):
    """self.__class__.__new__(self.__class__) / object.__new__(type(self)) / cls.__new__(cls)"""
    return isinstance(expr, ast.Call) and isinstance(expr.func, ast.Attribute) \
        and expr.func.attr == '__new__'


def _freeze_param(fn):
    names = [a.arg for a in fn.args.posonlyargs + fn.args.args + fn.args.kwonlyargs]
    return 'freeze' if 'freeze' in names else None


def _under_freeze_true(node, fn):
    for test, branch in flow.guards_of(node, fn):
        t, neg = A.strip_not(test)
        if A.is_name(t, 'freeze') and (branch != neg):
            return True
    return False


def _under_freeze_false(node, fn):
    for test, branch in flow.guards_of(node, fn):
        t, neg = A.strip_not(test)
        if A.is_name(t, 'freeze') and (branch == neg):
            return True
    return False


def _is_input_copy(expr, freeze_ok):
    """self.input_dataset.copy(freeze=freeze) (positional too)"""
    if isinstance(expr, ast.Call) and isinstance(expr.func, ast.Attribute) and expr.func.attr == 'copy' \
            and A.is_self_attr(expr.func.value, INPUT_ATTR):
        return True
    return False


def _is_inputs_copy(expr):
    """[ds.copy(freeze=freeze) for ds in self.input_datasets] (list/generator/tuple())"""
    if isinstance(expr, ast.Call) and A.dotted(expr.func) in ('list', 'tuple') and expr.args:
        expr = expr.args[0]
    if isinstance(expr, (ast.ListComp, ast.GeneratorExp)) and len(expr.generators) == 1:
        g = expr.generators[0]
        if A.is_self_attr(g.iter, INPUTS_ATTR) and not g.ifs and isinstance(g.target, ast.Name) \
                and isinstance(expr.elt, ast.Call) and isinstance(expr.elt.func, ast.Attribute) \
                and expr.elt.func.attr == 'copy' and A.is_name(expr.elt.func.value, g.target.id):
            return True
    return False


def _derives_from_attr(expr, attr, cls):
    """expr is self.<attr>, or self.m() with m returning self.<attr> (e.g. keys() for _keys)"""
    if A.is_self_attr(expr, attr):
        return True
    if isinstance(expr, ast.Call) and A.is_self_attr(expr.func) and not expr.args:
        mem = cls.resolve(expr.func.attr)
        if mem is not None and mem.is_function:
            rets = flow.returns_of(mem.node)
            if rets and all(A.is_self_attr(r.value, attr) for r in rets):
                return True
    return False


def rule_cc(ctx):
    rep = ctx.report
    fam = K.family(ctx, floor=20)
    n_copy = 0
    for cls in fam:
        mem = cls.resolve('copy')
        if mem is None or mem.owner is ctx.repo.dataset_base():
            if cls.name in CC_TABLE_NO_COPY:
                rep.ob('CC', K.key(cls, 'copy', 'absent-tabled'), True, cls.node,
                       CC_TABLE_NO_COPY[cls.name], nontrivial=False)
            else:
                rep.ob('CC', K.key(cls, 'copy', 'missing'), False, cls.node,
                       'stage has no copy(): prefetch/catch/profiling cannot freeze or duplicate it')
            continue
        fn = mem.node
        n_copy += 1
        if _freeze_param(fn) is None:
            rep.ob('CC', K.key(cls, 'copy', 'no-freeze-param'), False, fn, 'copy() lacks the freeze parameter')
            continue
        pattrs = flow.param_attrs(cls)       # ctor param -> attrs
        iattrs = flow.init_attrs(cls)        # attr -> ctor params
        chain = flow.init_chain(cls)
        if not chain:
            raise AnalysisError('no __init__ resolved for %s' % cls.qualname)
        init = chain[0][1]
        sig = flow.signature(init)
        rets = flow.returns_of(fn)
        if not rets:
            rep.ob('CC', K.key(cls, 'copy', 'no-return'), False, fn, 'copy() returns nothing')
            continue
        names = flow.assigned_names(fn)
        for r in rets:
            v = r.value
            # ---------------- constructor-style
            if isinstance(v, ast.Call) and _is_class_ctor(v, cls):
                b = flow.bind(v, init)
                for err in b.errors:
                    rep.ob('CC', K.key(cls, 'copy', 'bad-call(%s)' % err), False, v, err)
                for p in b.defaulted + b.unbound:
                    rep.ob('CC', K.key(cls, 'copy', 'param-defaulted(%s)' % p), False, v,
                           'copy() does not pass constructor parameter %r: the copy silently gets the default %s'
                           % (p, A.short(sig['defaults'][p]) if p in sig['defaults'] else '<none>'))
                for p, e in b.args.items():
                    attrs = pattrs.get(p, set())
                    ok = False
                    if attrs & {INPUT_ATTR}:
                        ok = _is_input_copy(e, True)
                    elif attrs & {INPUTS_ATTR}:
                        ok = _is_inputs_copy(e)
                    else:
                        ok = any(A.is_self_attr(e, a) for a in attrs)
                    rep.ob('CC', K.key(cls, 'copy', 'param(%s)' % p), ok, e,
                           '' if ok else 'constructor parameter %r is given %s, expected the stored value (%s)'
                           % (p, A.short(e), ', '.join('self.' + a for a in sorted(attrs)) or 'nothing stored?'))
                if sig['vararg']:
                    va = sig['vararg']
                    attrs = pattrs.get(va, set())
                    ok = b.vararg is not None and len(b.vararg) == 1 and isinstance(b.vararg[0], ast.Starred) \
                        and ((INPUTS_ATTR in attrs and _is_inputs_copy(b.vararg[0].value))
                             or any(A.is_self_attr(b.vararg[0].value, a) for a in attrs))
                    rep.ob('CC', K.key(cls, 'copy', 'vararg(%s)' % va), ok, v,
                           '' if ok else '*%s is not re-supplied with copies of all inputs' % va)
                if sig['kwarg']:
                    ka = sig['kwarg']
                    attrs = pattrs.get(ka, set())
                    ok = b.dstar is not None and any(A.is_self_attr(b.dstar, a) for a in attrs)
                    rep.ob('CC', K.key(cls, 'copy', 'kwargs(%s)' % ka), ok, v,
                           '' if ok else '**%s is not re-supplied from the stored mapping' % ka)
                continue
            # ---------------- __new__-style
            if isinstance(v, ast.Name) and v.id in names and any(_is_new_call(x) for x in names[v.id]):
                new = v.id
                assigned = {}
                for n in A.walk_local(fn):
                    if isinstance(n, ast.Assign):
                        for t in n.targets:
                            if isinstance(t, ast.Attribute) and A.is_name(t.value, new):
                                assigned[t.attr] = n.value
                for attr in sorted(iattrs):
                    if attr not in assigned:
                        rep.ob('CC', K.key(cls, 'copy', 'attr-missing(%s)' % attr), False, r,
                               'attribute %r written by the constructor is not set on the copy' % attr)
                        continue
                    e = assigned[attr]
                    if attr == INPUT_ATTR:
                        ok = _is_input_copy(e, True)
                    elif attr == INPUTS_ATTR:
                        ok = _is_inputs_copy(e)
                    else:
                        ok = _derives_from_attr(e, attr, cls)
                    rep.ob('CC', K.key(cls, 'copy', 'attr(%s)' % attr), ok, e,
                           '' if ok else 'attribute %r of the copy is %s, expected the value of self.%s'
                           % (attr, A.short(e), attr))
                continue
            # ---------------- anything else: only under `if freeze`
            ok = _under_freeze_true(r, fn)
            if ok:
                # what is handed out as "frozen" must itself be frozen: <anything>.copy(freeze=freeze) or a slice of the
                # frozen input by one drawn index array
                frozen_result = (isinstance(v, ast.Call) and isinstance(v.func, ast.Attribute) and v.func.attr == 'copy' and (
                    any(kw.arg == 'freeze' and (A.is_name(kw.value, 'freeze') or A.is_const(kw.value, True)) for kw in v.keywords)
                    or (v.args and (A.is_name(v.args[0], 'freeze') or A.is_const(v.args[0], True))))) or (
                    isinstance(v, ast.Subscript) and _is_input_copy(v.value, True))
                rep.ob('CC', K.key(cls, 'copy', 'frozen-branch-returns-a-frozen-dataset'), frozen_result, r,
                       '' if frozen_result else 'copy(freeze=True) returns %s, which is not itself frozen: if it still contains a '
                       'per-epoch random stage the "frozen" copy changes its order on every iteration' % A.short(v, 70))
            rep.ob('CC', K.key(cls, 'copy', 'foreign-return'), ok, r,
                   'returns another kind of dataset only under freeze=True (deliberate: a frozen view)' if ok
                   else 'copy() returns something that is not a reconstruction of the stage outside the freeze branch: '
                   + A.short(v))
    rep.floor('copy methods analysed', n_copy, 20)


def rule_fz(ctx):
    """every copy of an input made inside copy(self, freeze) passes the freeze parameter on"""
    rep = ctx.report
    n = 0
    for cls in K.family(ctx):
        mem = cls.own('copy')
        if mem is None or not mem.is_function:
            continue
        fn = mem.node
        local, fctx = ctx.effects.local_effects(fn, cls, cls.module)
        for call in A.walk_local(fn):
            if not (isinstance(call, ast.Call) and isinstance(call.func, ast.Attribute)
                    and call.func.attr == 'copy'):
                continue
            rk = fctx.kind(call.func.value)
            if rk not in ('DS',):
                # also: apply_function(self.input_dataset).copy(...)
                if not (isinstance(call.func.value, ast.Call) and any(
                        fctx.kind(a) == 'DS' for a in call.func.value.args)):
                    continue
            n += 1
            arg = None
            if call.args:
                arg = call.args[0]
            for kw in call.keywords:
                if kw.arg == 'freeze':
                    arg = kw.value
            ok = False
            if A.is_name(arg, 'freeze'):
                ok = True
            elif A.is_const(arg, True) and _under_freeze_true(call, fn):
                ok = True
            elif A.is_const(arg, False) and _under_freeze_false(call, fn):
                ok = True
            rep.ob('FZ', K.key(cls, 'copy', 'freeze-forwarded(%s)' % A.short(call.func.value, 40)), ok, call,
                   '' if ok else 'input copied with %s instead of the freeze argument of copy()'
                   % ('the default freeze=False' if arg is None else A.short(arg)))
    rep.floor('input copies inside copy()', n, 18)


def _resolves_to_global_random(module, expr):
    d = A.dotted(expr)
    if d is None:
        return None
    full = module.resolve_name(d)
    if full in ('numpy.random', 'random', 'numpy.random.mtrand', 'numpy.random.mtrand._rand'):
        return full
    return None


def rule_rs(ctx):
    """no draw from the global random module anywhere in the package"""
    rep = ctx.report
    ncalls = 0
    ndraws = 0
    for mod in ctx.repo.modules.values():
        if mod.name == 'database_cli':
            continue
        for n in ast.walk(mod.tree):
            if not isinstance(n, ast.Call):
                continue
            ncalls += 1
            f = n.func
            bad = None
            if isinstance(f, ast.Attribute):
                g = _resolves_to_global_random(mod, f.value)
                if g is not None:
                    bad = '%s.%s' % (g, f.attr)
                if f.attr in RNG_METHODS:
                    ndraws += 1
            else:
                d = A.dotted(f)
                full = mod.resolve_name(d) if d else None
                if full and (full.startswith('numpy.random.') or full.startswith('random.')):
                    bad = full
            if bad:
                fn = A.enclosing_function(n)
                in_main = any(isinstance(a, ast.If) and 'main' in A.src(a.test) for a in A.ancestors(n))
                if in_main:
                    continue
                rep.ob('RS', K.key(ctx.repo.qualname_of(fn) if fn else mod.name, None,
                                   'global-rng-draw(%s)' % bad), False, n,
                       'draws from the process-global generator %s: the order depends on the global numpy/random '
                       'state, not on the generator given to the stage' % bad)
    rep.summary('RS', 'package::no-global-rng-draw',
                '%d call sites scanned, %d random-draw calls, none on the global module' % (ncalls, ndraws))
    rep.count('call sites scanned for global rng', ncalls)
    rep.floor('random draw call sites', ndraws, 5)
    # draws inside stages use the stage's own generator attribute
    for cls in K.family(ctx):
        for name, mem in cls.members.items():
            if not mem.is_function:
                continue
            for n in A.walk_local(mem.node):
                if isinstance(n, ast.Call) and isinstance(n.func, ast.Attribute) and n.func.attr in RNG_METHODS:
                    recv = n.func.value
                    if A.dotted(recv) is None:
                        continue
                    src_ok = A.is_self_attr(recv)     # self.rng
                    if not src_ok:
                        # a local that is a copy of self.<x>
                        v = flow.copy_prop(recv, mem.node)
                        src_ok = A.is_self_attr(v)
                    rep.ob('RS', K.key(cls, name, 'draw-on-stage-rng(%s.%s)' % (A.dotted(recv), n.func.attr)),
                           src_ok, n, '' if src_ok else 'random draw on %s, not on a generator stored on the stage'
                           % A.short(recv))


def rule_rf(ctx):
    """`rng = np.random if rng is None else rng`: the global module is chosen only when no generator was given"""
    rep = ctx.report
    n = 0
    for mod in ctx.repo.modules.values():
        if mod.name != 'core':
            continue
        for x in ast.walk(mod.tree):
            if isinstance(x, ast.IfExp):
                g_body = _resolves_to_global_random(mod, x.body)
                g_else = _resolves_to_global_random(mod, x.orelse)
                if not (g_body or g_else):
                    continue
                n += 1
                t, neg = A.strip_not(x.test)
                ok = False
                if isinstance(t, ast.Compare) and len(t.ops) == 1 and A.is_const(t.comparators[0], None) and isinstance(t.left, ast.Name):
                    is_none = isinstance(t.ops[0], ast.Is) != neg
                    chosen_when_none = x.body if is_none else x.orelse
                    other = x.orelse if is_none else x.body
                    ok = _resolves_to_global_random(mod, chosen_when_none) is not None and A.is_name(other, t.left.id)
                fn = A.enclosing_function(x)
                rep.ob('RS', K.key(ctx.repo.qualname_of(fn) if fn else mod.name, None, 'global-generator-only-as-fallback'), ok, x,
                       '' if ok else 'the global numpy random module replaces the generator that was passed in (`%s`): explicit '
                       'seeds are ignored' % A.short(x))
            elif isinstance(x, ast.If):
                t, neg = A.strip_not(x.test)
                if isinstance(t, ast.Compare) and len(t.ops) == 1 and A.is_const(t.comparators[0], None) and isinstance(t.left, ast.Name) \
                        and 'rng' in t.left.id:
                    is_none = isinstance(t.ops[0], ast.Is) != neg
                    arm = x.body if is_none else x.orelse
                    other = x.orelse if is_none else x.body
                    bad = [s for s in other if isinstance(s, ast.Assign) and _resolves_to_global_random(mod, s.value)]
                    if any(isinstance(s, ast.Assign) and _resolves_to_global_random(mod, s.value) for s in arm + other):
                        n += 1
                        rep.ob('RS', K.key(ctx.repo.qualname_of(A.enclosing_function(x)), None, 'global-generator-only-as-fallback'),
                               not bad, x, '' if not bad else 'the global generator is assigned although one was given')
    rep.floor('fallbacks to the global generator', n, 1)


def rule_rt(ctx):
    """rng threading: a factory that holds a generator passes it to every constructor /
    factory it calls that accepts one"""
    rep = ctx.report
    repo = ctx.repo
    rng_names = ('rng', 'rng_state', 'random_state')
    n_sites = 0
    for mod in repo.modules.values():
        if mod.name not in ('core',):
            continue
        for _m, fn in repo.all_functions():
            if repo.module_of(fn) is not mod or isinstance(fn, ast.Lambda):
                continue
            params = [a.arg for a in fn.args.posonlyargs + fn.args.args + fn.args.kwonlyargs]
            have = [p for p in params if p in rng_names]
            has_self_rng = any(A.is_self_attr(x, 'rng') for x in ast.walk(fn))
            if not have and not has_self_rng:
                continue
            owner_cls = None
            for a in A.ancestors(fn):
                if isinstance(a, ast.ClassDef):
                    owner_cls = mod.classes.get(a.name)
                    break
            _eff, fctx = ctx.effects.local_effects(fn, owner_cls, mod)
            for call in A.walk_local(fn):
                if not isinstance(call, ast.Call):
                    continue
                d = A.dotted(call.func)
                if d is None:
                    continue
                last = d.split('.')[-1]
                target = None
                if last in mod.classes:
                    m = mod.classes[last].resolve('__init__')
                    target = m.node if m and m.is_function else None
                elif d in ('self.__class__',):
                    cls = None
                    for a in A.ancestors(fn):
                        if isinstance(a, ast.ClassDef):
                            cls = mod.classes.get(a.name)
                    if cls is not None:
                        m = cls.resolve('__init__')
                        target = m.node if m and m.is_function else None
                elif isinstance(call.func, ast.Attribute) and last in repo.dataset_base().members \
                        and repo.dataset_base().members[last].is_function \
                        and fctx.kind(call.func.value) in ('DS', 'SELF'):
                    target = repo.dataset_base().members[last].node
                if target is None:
                    continue
                tparams = [a.arg for a in target.args.posonlyargs + target.args.args + target.args.kwonlyargs]
                tr = [p for p in tparams if p in rng_names]
                if not tr:
                    continue
                n_sites += 1
                b = flow.bind(call, target)
                for p in tr:
                    e = b.args.get(p)
                    ok = e is not None and (A.is_name(e) and e.id in have or A.is_self_attr(e, 'rng'))
                    rep.ob('RT', K.key(repo.qualname_of(fn), None, 'rng-threaded(%s->%s.%s)' % (
                        '/'.join(have) or 'self.rng', last, p)), ok, call,
                        '' if ok else 'the generator held here is not handed to %s (parameter %r %s): the built '
                        'stage falls back to the global numpy state' % (
                            last, p, 'left to its default' if e is None else 'given ' + A.short(e)))
    rep.floor('rng hand-over sites', n_sites, 2)


def rule_or(ctx):
    rep = ctx.report
    n = 0
    TABLE_TRUE_WITH_INPUTS = {'KeyZipDataset': 'iterates by key lookup in the first input\'s key order'}
    for cls in K.family(ctx):
        val, mem = K.abstract_bool_property(cls, 'ordered', ctx.repo)
        if mem is None or mem.owner is ctx.repo.dataset_base():
            if cls.name == 'ProfilingDataset':
                # governed by C20.DEL (missing delegation); not a random stage
                continue
            rep.ob('OR', K.key(cls, 'ordered', 'defined'), False, cls.node,
                   'stage does not define `ordered`; the base property raises')
            continue
        n += 1
        if mem.kind != 'property':
            rep.ob('OR', K.key(cls, 'ordered', 'member-kind'), False, mem.node,
                   '`ordered` is a %s, not a property: `ds.ordered` is a truthy bound method' % mem.kind)
            continue
        draws = [e for e in ctx.effects.closed_effects(cls, '__iter__') if e.etype == 'RNG_DRAW']
        if draws:
            ok = val == ('const', False)
            rep.ob('OR', K.key(cls, 'ordered', 'random-stage-unordered'), ok, mem.node,
                   '' if ok else 'iteration draws random numbers (%s) but ordered is %s' % (draws[0], val))
        elif K.has_inputs(cls):
            ok = val[0] in ('forward', 'all') or val == ('const', False) or \
                (val == ('const', True) and cls.name in TABLE_TRUE_WITH_INPUTS)
            rep.ob('OR', K.key(cls, 'ordered', 'forwards-input-order'), ok, mem.node,
                   (TABLE_TRUE_WITH_INPUTS.get(cls.name, '') if ok else
                    'a stage with inputs reports ordered=%s instead of forwarding the inputs\' orderedness' % (val,)))
        else:
            rep.ob('OR', K.key(cls, 'ordered', 'source'), val[0] == 'const', mem.node, str(val), nontrivial=False)
    rep.floor('ordered properties analysed', n, 20)
    # a one-time shuffle is never answered with a re-drawing stage: in Dataset.shuffle every construction of a stage whose
    # iteration draws random numbers is reached only when `reshuffle is True` holds (if-guard or a dominating assert)
    sh = ctx.repo.dataset_base().own('shuffle')
    if sh is None:
        raise AnalysisError('anchor vanished: Dataset.shuffle')
    fam = {c.name: c for c in K.family(ctx)}
    pars = [a_.arg for a_ in sh.node.args.args]
    flag = 'reshuffle' if 'reshuffle' in pars else (pars[1] if len(pars) > 1 else None)

    def says_true(t0, truth):
        t, neg = A.strip_not(t0)
        if isinstance(t, ast.Compare) and len(t.ops) == 1 and A.is_name(t.left, flag) and A.is_const(t.comparators[0], True):
            pos = isinstance(t.ops[0], (ast.Is, ast.Eq))
            return (pos != neg) == truth
        if A.is_name(t, flag):
            return (not neg) == truth
        return False
    sites = 0
    for c in A.walk_local(sh.node):
        if not (isinstance(c, ast.Call) and isinstance(c.func, ast.Name) and c.func.id in fam):
            continue
        X = fam[c.func.id]
        if not [e for e in ctx.effects.closed_effects(X, '__iter__') if e.etype == 'RNG_DRAW']:
            continue
        sites += 1
        ok = any(says_true(t0, truth) for t0, truth in flow.guards_of(c, sh.node))
        if not ok:
            # a dominating assert: same or enclosing block, earlier statement
            stmt = c
            while not isinstance(A.parent(stmt), (ast.FunctionDef, ast.If, ast.For, ast.While, ast.With, ast.Try)) \
                    or not isinstance(stmt, ast.stmt):
                stmt = A.parent(stmt)
            blocks = []
            x = stmt
            while x is not None and x is not sh.node:
                par = A.parent(x)
                for fld in ('body', 'orelse', 'finalbody'):
                    blk = getattr(par, fld, None)
                    if isinstance(blk, list) and any(y is x for y in blk):
                        blocks.append((blk, [y is x for y in blk].index(True)))
                x = par
            for blk, i in blocks:
                for y in blk[:i]:
                    if isinstance(y, ast.Assert) and says_true(y.test, True):
                        ok = True
        rep.ob('OR', K.key(ctx.repo.dataset_base(), 'shuffle', 're-drawing-stage-only-when-reshuffle-is-True(%s)' % X.name), ok, c,
               '' if ok else '%s (draws a new order in every iteration) is constructed without `%s is True` being established: '
               'a requested one-time shuffle silently becomes a per-epoch reshuffle' % (X.name, flag))
    rep.floor('re-drawing stages constructed in Dataset.shuffle', sites, 2)


def rule_pf(ctx):
    """stages that freeze their input per iteration look examples up only in the frozen copy"""
    rep = ctx.report
    repo = ctx.repo
    sites = 0
    for cls in K.family(ctx):
        mem = cls.own('__iter__')
        if mem is None or not mem.is_function:
            continue
        fn = mem.node
        frozen = []
        for n in A.walk_local(fn):
            if isinstance(n, ast.Assign) and len(n.targets) == 1 and isinstance(n.targets[0], ast.Name) \
                    and isinstance(n.value, ast.Call) and isinstance(n.value.func, ast.Attribute) \
                    and n.value.func.attr == 'copy' \
                    and any(kw.arg == 'freeze' and A.is_const(kw.value, True) for kw in n.value.keywords):
                frozen.append((n.targets[0].id, n))
        if not frozen:
            # the frozen copy may be used in place (`for x in self.copy(freeze=True).__iter__(...)`)
            for n in A.walk_local(fn):
                if isinstance(n, ast.Call) and isinstance(n.func, ast.Attribute) and n.func.attr == 'copy' \
                        and any(kw.arg == 'freeze' and A.is_const(kw.value, True) for kw in n.keywords):
                    frozen.append(('<in place>', n))
        if not frozen:
            continue
        sites += 1
        fname, fassign = frozen[0]
        rep.ob('PF', K.key(cls, '__iter__', 'frozen-copy-once'), len(frozen) == 1 and not A.in_loop_body(fassign, fn), fassign,
            'one frozen copy per iteration, made outside any loop')
        # every example lookup (subscript / __getitem__ / iteration) in this function and its nested
        # functions must go through the frozen copy, never through self.input_dataset
        bad = []
        for n in ast.walk(fn):
            if isinstance(n, ast.Subscript) and A.is_self_attr(n.value, INPUT_ATTR):
                bad.append(n)
            elif isinstance(n, ast.Attribute) and n.attr in ('__getitem__', '__iter__') \
                    and A.is_self_attr(n.value, INPUT_ATTR):
                bad.append(n)
            elif isinstance(n, (ast.For, ast.comprehension)) and A.is_self_attr(n.iter, INPUT_ATTR):
                bad.append(n.iter)
            elif isinstance(n, ast.Call) and A.dotted(n.func) in ('iter', 'map', 'zip', 'enumerate', 'list') \
                    and any(A.is_self_attr(a, INPUT_ATTR) for a in n.args):
                bad.append(n)
        # the single-thread fallback of PrefetchDataset hands the (unfrozen) input to the prefetch
        # thread before the frozen copy exists; that path is sequential and keeps generator state
        # in one place; it is not a lookup site.
        ok = not bad
        rep.ob('PF', K.key(cls, '__iter__', 'lookups-through-frozen-copy(%s)' % fname), ok,
               bad[0] if bad else fassign,
               '' if ok else 'example lookup on the live input %s while a frozen copy %r exists: a reshuffling '
               'input is re-drawn per lookup' % (A.short(bad[0]), fname))
    rep.floor('iterations over a frozen copy', sites, 3)


def rule_sg(ctx):
    """copy() is called without arguments by prefetch workers, lazy apply, the profiler and users: the default must be
    the faithful (unfrozen) copy everywhere, or `ds.copy()` silently pins the order of one stage"""
    n = K.sibling_default(ctx, 'SG', 'copy', 'freeze', False,
                          'a plain copy() of this stage would freeze the random stages below it')
    ctx.report.floor('copy() signatures with freeze', n, 10)


def rule_al(ctx):
    """a stage that keeps the caller's raw argument next to the value it resolved from it (SliceDataset: `_slice` is the
    caller's index object - possibly the live permutation array of a reshuffle -, `slice` the private index array) works
    with the resolved value only: after construction the raw attribute is read for display and handed on by reference,
    never resolved again (the object may have been modified in place since)."""
    rep = ctx.report
    pairs = 0
    for cls in K.family(ctx):
        ini = cls.own('__init__')
        if ini is None or not ini.is_function:
            continue
        fn = ini.node
        params = [a_.arg for a_ in fn.args.posonlyargs + fn.args.args + fn.args.kwonlyargs][1:]
        raw = {n.targets[0].attr for n in A.walk_local(fn) if isinstance(n, ast.Assign) and A.is_self_attr(n.targets[0])
               and isinstance(n.value, ast.Name) and n.value.id in params}
        derived = {}
        for n in A.walk_local(fn):
            if isinstance(n, ast.Assign) and A.is_self_attr(n.targets[0]) and n.targets[0].attr not in raw:
                for x in ast.walk(n.value):
                    if A.is_self_attr(x) and x.attr in raw:
                        # the raw object is used as a *selection* (an index / an argument), not as the container that is read
                        par = A.parent(x)
                        sel = False
                        while par is not None and par is not n:
                            if isinstance(par, ast.Subscript) and any(y is x for y in ast.walk(par.slice)):
                                sel = True
                            par = A.parent(par)
                        if sel:
                            derived.setdefault(x.attr, set()).add(n.targets[0].attr)
        for r, ds_ in sorted(derived.items()):
            pairs += 1
            bad = []
            for mname, mem in cls.members.items():
                if not mem.is_function or mname in ('__init__', '__repr__', '__str__'):
                    continue
                for x in A.walk_local(mem.node):
                    if A.is_self_attr(x, r) and isinstance(x.ctx, ast.Load):
                        par = A.parent(x)
                        by_ref = isinstance(par, ast.Assign) and par.value is x and isinstance(par.targets[0], ast.Attribute) \
                            and par.targets[0].attr == r
                        if not by_ref:
                            bad.append((mname, x))
            rep.ob('AL', K.key(cls, None, 'raw-argument(%s)-not-resolved-again-after-construction' % r), not bad,
                   bad[0][1] if bad else cls.node,
                   '' if not bad else '%s.%s reads self.%s (the caller\'s object, resolved into self.%s at construction) again: '
                   'if that object was modified in place meanwhile - the permutation array of a reshuffle is - the copy / result '
                   'no longer has the order that was frozen' % (cls.name, bad[0][0], r, '/'.join(sorted(ds_))))
    rep.floor('raw/resolved attribute pairs', pairs, 1)


def rule_st(ctx):
    """what copy() hands to the constructor is what the copy is configured with"""
    n = K.ctor_stores_exact(ctx, 'ST')
    ctx.report.floor('parameter stores in stage constructors', n, 30)


def run(ctx):
    rule_sg(ctx)
    rule_st(ctx)
    rule_al(ctx)
    rule_cc(ctx)
    rule_fz(ctx)
    rule_rs(ctx)
    rule_rf(ctx)
    rule_rt(ctx)
    rule_or(ctx)
    rule_pf(ctx)
