"""C07 — prefetch read-ahead is bounded by the buffer size.

B1 interval invariant |q| <= buffer_size at the submit loop        B2 bounded hand-over queue, blocking puts
B3 buffer_size >= 1 established at every entry                   B4 buffer_size flows unchanged from the API
B5 no accumulation of pulled elements in the helpers
"""
import ast

from .. import astutil as A
from .. import flow
from ..cfg import CFG, normal, node_roots, node_contains
from ..effects import INPUT_ATTR
from ..model import AnalysisError
from . import common as K
from .par import LPM, STP

META = {
    'id': 'C07',
    'technique': 'abstract interpretation of the submit loop over the domain "queue length <= buffer_size + c" '
                 '(symbolic bound), constructor-argument / blocking-call checks for the hand-over queue, dominance of '
                 'the positivity assertions, identity flow of the buffer_size parameter',
    'explanation': 'The invariant "number of queued futures <= buffer_size" is inductive for the submit loop of '
                   'lazy_parallel_map: every path through the loop body (enumerated on the CFG) is interpreted with '
                   'put = +1, get = -1 and the normalised test q.qsize() >= buffer_size refining the bound, and ends with '
                   'at most buffer_size futures queued; hence started-but-undelivered applications <= buffer_size and '
                   'pulled-but-undelivered source elements <= buffer_size + 1. The hand-over queue of '
                   'single_thread_prefetch is queue.Queue(maxsize=buffer_size), filled only by blocking puts, one source '
                   'pull per put, and the worker keeps no other container, hence pulled-but-unconsumed <= buffer_size '
                   '(queue) + 1 (worker\'s hand) + 1 (consumer\'s hand). buffer_size >= 1 is asserted before both uses and '
                   'the parameter flows unchanged from Dataset.prefetch / map / batch_map to the helpers. The bound '
                   'itself is decided (for every schedule), assuming queue.Queue(maxsize) blocks when full.',
    'not_decided': '',
    'assumptions': ['queue.Queue(maxsize=n).put blocks while the queue holds n elements',
                    'queue.Queue.qsize() is exact when only one thread uses the queue (lazy_parallel_map)'],
}


def _interpret(L):
    """abstract interpretation of one loop iteration: returns list of (final offset u, path) with |q| <= B+u,
    starting from u = 0; infeasible paths are dropped"""
    g = L.cfg
    head = [nd for nd in g.nodes if nd.kind == 'for' and nd.ast is L.loop and not nd.tag][0]
    q = L.q
    results = []

    def qsize_cmp(test):
        """normalise a test to (op, bound kind) with q.qsize() on the left; bound kind 'B' if it is the
        buffer_size parameter, else source text"""
        kind, ats = A.atoms(test)
        if len(ats) != 1 or kind != 'and':
            return None
        a = ats[0]
        if len(a) != 3 or a[2] is None:
            return None
        r = A.norm_cmp(a[0], a[1], a[2], lambda e: isinstance(e, ast.Call) and isinstance(e.func, ast.Attribute)
                       and e.func.attr == 'qsize' and A.is_name(e.func.value, q))
        if not r:
            return None
        op, other = r
        return op, ('B' if A.is_name(other, 'buffer_size') else A.src(other))

    def refine(u, op, bound, taken):
        """returns new u or None when infeasible (lower bound on size is 0, upper B+u)"""
        if bound != 'B':
            return u   # unrelated bound: no information
        neg = {'>=': '<', '>': '<=', '<': '>=', '<=': '>', '==': '!=', '!=': '=='}
        if not taken:
            op = neg[op]
        if op == '>=':      # size >= B
            return u if u >= 0 else None
        if op == '>':       # size >= B+1
            return u if u >= 1 else None
        if op == '<':       # size <= B-1
            return min(u, -1)
        if op == '<=':
            return min(u, 0)
        if op == '==':
            return min(u, 0) if u >= 0 else None
        if op == '!=':
            return u        # size != B: with size <= B+u no integer refinement unless u == 0
        return u

    def delta(nd):
        d = 0
        for r in node_roots(nd):
            for c in A.walk_local(r):
                if isinstance(c, ast.Call) and isinstance(c.func, ast.Attribute) and A.is_name(c.func.value, q):
                    if c.func.attr in ('put', 'put_nowait'):
                        d += 1
                    elif c.func.attr in ('get', 'get_nowait'):
                        d -= 1
        return d

    stack = [(y, 0, [head]) for (y, k) in g.succ[head.id] if k == 'loop']
    peak = 0
    while stack:
        x, u, path = stack.pop()
        nd = g.nodes[x]
        if x == head.id:
            results.append((u, path))
            continue
        if nd in path:
            continue
        u2 = u + delta(nd)
        path2 = path + [nd]
        outs = [(y, k) for (y, k) in g.succ[x] if normal(k)]
        if nd.kind == 'test':
            cmp_ = qsize_cmp(nd.ast.test)
            for (y, k) in outs:
                if cmp_ is not None and k in ('true', 'false'):
                    u3 = refine(u2, cmp_[0], cmp_[1], k == 'true')
                    if u3 is None:
                        continue
                    stack.append((y, u3, path2))
                else:
                    stack.append((y, u2, path2))
        else:
            if not outs:
                results.append((u2, path2))
            for (y, k) in outs:
                stack.append((y, u2, path2))
    return results


def rule_b1(ctx):
    rep = ctx.report
    L = LPM(ctx)
    res = _interpret(L)
    rep.count('paths interpreted through the submit loop', len(res))
    if not res:
        raise AnalysisError('no feasible path through the submit loop')
    worst = max(res, key=lambda r: r[0])
    ok = worst[0] <= 0
    rep.ob('B1', 'parallel_utils.lazy_parallel_map::queued-futures<=buffer_size-is-inductive', ok, L.loop,
           'after every feasible path through one iteration |q| <= buffer_size %+d' % worst[0] if ok else
           'starting an iteration with |q| <= buffer_size, a path ends with |q| <= buffer_size %+d: the number of '
           'started-but-undelivered applications grows beyond buffer_size (unbounded if no get is reachable)' % worst[0],
           path=[repr(x) for x in worst[1] if x.ast is not None] if not ok else None)
    # every reachable state also keeps |q| <= B+1 transiently: the put happens after the (possible) get
    # the guard itself: present and compares against the parameter
    tests = [n for n in A.walk_stmts(L.loop.body) if isinstance(n, ast.If) and 'qsize' in A.src(n.test)]
    ok = len(tests) == 1 and 'buffer_size' in A.src(tests[0].test)
    rep.ob('B1', 'parallel_utils.lazy_parallel_map::fullness-test-against-the-buffer_size-parameter', ok,
           tests[0] if tests else L.loop, '' if ok else 'the submit loop does not compare q.qsize() with buffer_size')
    # qsize is exact: queue confined to one thread is C04.Q5


def rule_b2(ctx):
    rep = ctx.report
    S = STP(ctx)
    qa = S.q_assign.value
    arg = qa.args[0] if qa.args else next((kw.value for kw in qa.keywords if kw.arg == 'maxsize'), None)
    ok = A.is_name(arg, 'buffer_size') and len(qa.args) + len(qa.keywords) == 1
    rep.ob('B2', 'parallel_utils.single_thread_prefetch::hand-over-queue-bounded-by-buffer_size', ok, S.q_assign,
           '' if ok else 'the hand-over queue is constructed with %s instead of maxsize=buffer_size: the worker runs '
           'arbitrarily far ahead of the consumer' % ('no bound' if arg is None else 'maxsize=' + A.short(arg)))
    puts = S.q_calls(S.worker, 'put') + S.q_calls(S.worker, 'put_nowait')
    for p in puts:
        blocking = p.func.attr == 'put' and len(p.args) == 1 and not p.keywords
        rep.ob('B2', 'parallel_utils.single_thread_prefetch.worker::blocking-put(%s)' % A.short(p.args[0] if p.args else p, 20),
               blocking, p, '' if blocking else 'a non-blocking / timed put either drops elements or lets the worker spin ahead')
    rep.floor('worker puts', len(puts), 2)
    # the worker holds nothing else
    grow = [n for n in A.walk_local(S.worker) if isinstance(n, ast.Call) and isinstance(n.func, ast.Attribute)
            and n.func.attr in ('append', 'extend', 'appendleft', 'add', 'insert')]
    mats = [n for n in A.walk_local(S.worker) if isinstance(n, ast.Call) and A.dotted(n.func) in ('list', 'tuple', 'sorted', 'set')
            and n.args and A.is_name(n.args[0], 'generator')]
    rep.ob('B5', 'parallel_utils.single_thread_prefetch.worker::no-accumulation-of-pulled-elements', not grow and not mats,
           (grow + mats)[0] if grow + mats else S.worker,
           '' if not grow and not mats else 'the worker collects pulled elements outside the bounded queue')
    mats = [n for n in A.walk_local(S.fn) if isinstance(n, ast.Call) and A.dotted(n.func) in ('list', 'tuple', 'sorted', 'set')
            and n.args and A.is_name(n.args[0], 'generator')]
    rep.ob('B5', 'parallel_utils.single_thread_prefetch::source-not-materialised', not mats, mats[0] if mats else S.fn, '')
    # the consumer holds one item at a time: it takes exactly one element per delivery and keeps no second buffer
    t = S.consumer_try
    grow = [n for n in A.walk_stmts(t.body) if isinstance(n, ast.Call) and isinstance(n.func, ast.Attribute)
            and n.func.attr in ('append', 'extend', 'appendleft', 'add', 'insert')]
    takes = [n for n in A.walk_stmts(t.body) if isinstance(n, ast.Call) and isinstance(n.func, ast.Attribute)
             and A.is_name(n.func.value, S.q) and n.func.attr in ('get', 'get_nowait')]
    inner_loops = [n for w in t.body if isinstance(w, ast.While) for n in A.walk_stmts(w.body) if isinstance(n, (ast.While, ast.For))]
    ok = not grow and len(takes) == 1 and not inner_loops
    rep.ob('B5', 'parallel_utils.single_thread_prefetch::consumer-takes-one-element-per-delivery', ok,
           (grow + inner_loops + takes[1:])[0] if (grow or inner_loops or takes[1:]) else t,
           '' if ok else 'the consumer empties the hand-over queue into a second buffer (%d take sites, %d inner loops, %d '
           'growing containers): the worker refills the queue meanwhile, so read-ahead is about 2*buffer_size instead of '
           'buffer_size + 2' % (len(takes), len(inner_loops), len(grow)))
    L = LPM(ctx)
    grow = [n for n in A.walk_stmts(L.with_.body) if isinstance(n, ast.Call) and isinstance(n.func, ast.Attribute)
            and n.func.attr in ('append', 'extend', 'appendleft', 'add', 'insert')]
    mats = [n for n in A.walk_local(L.fn) if isinstance(n, ast.Call) and A.dotted(n.func) in ('list', 'tuple', 'sorted', 'set', 'reversed')
            and n.args and A.is_name(n.args[0], 'generator')]
    rep.ob('B5', 'parallel_utils.lazy_parallel_map::no-accumulation-besides-the-future-queue', not grow and not mats,
           (grow + mats)[0] if grow + mats else L.fn, '')


def rule_b3(ctx):
    rep = ctx.report
    L = LPM(ctx)
    fn = L.fn
    g = L.cfg
    asserts = [n for n in fn.body if isinstance(n, ast.Assert)]
    pos = None
    for a in asserts:
        kind, ats = A.atoms(a.test)
        for at in ats:
            if len(at) == 3 and at[2] is not None:
                r = A.norm_cmp(at[0], at[1], at[2], lambda e: A.is_name(e, 'buffer_size'))
                if r and ((r[0] == '>' and A.int_value(r[1]) == 0) or (r[0] == '>=' and A.int_value(r[1]) == 1)):
                    if a.lineno < L.with_.lineno:
                        pos = a
    rep.ob('B3', 'parallel_utils.lazy_parallel_map::asserts(buffer_size>=1)-before-the-loop', pos is not None, pos or fn,
           '' if pos is not None else 'buffer_size > 0 is not asserted unconditionally before the submit loop: with 0 the '
           'fullness test is always true and get() blocks on an empty queue forever')
    ge = None
    for a in [n for n in A.walk_local(fn) if isinstance(n, ast.Assert)]:
        kind, ats = A.atoms(a.test)
        for at in ats:
            if len(at) == 3 and at[2] is not None:
                r = A.norm_cmp(at[0], at[1], at[2], lambda e: A.is_name(e, 'buffer_size'))
                if r and r[0] == '>=' and A.is_name(r[1], 'max_workers'):
                    ge = a
    rep.ob('B3', 'parallel_utils.lazy_parallel_map::asserts(buffer_size>=max_workers)', ge is not None, ge or fn, '')
    # PrefetchDataset / ParMapDataset establish it for single_thread_prefetch
    pf = ctx.repo.cls('core.PrefetchDataset')
    init = pf.own('__init__').node
    a1 = a2 = None
    for a in [n for n in init.body if isinstance(n, ast.Assert)]:
        kind, ats = A.atoms(a.test)
        for at in ats:
            if len(at) == 3 and at[2] is not None:
                r = A.norm_cmp(at[0], at[1], at[2], lambda e: A.is_name(e, 'num_workers'))
                if r and ((r[0] == '>=' and A.int_value(r[1]) == 1) or (r[0] == '>' and A.int_value(r[1]) == 0)):
                    a1 = a
                r = A.norm_cmp(at[0], at[1], at[2], lambda e: A.is_name(e, 'buffer_size'))
                if r and r[0] == '>=' and A.is_name(r[1], 'num_workers'):
                    a2 = a
    ok = a1 is not None and a2 is not None
    rep.ob('B3', 'core.PrefetchDataset.__init__::asserts(num_workers>=1,buffer_size>=num_workers)', ok, init,
           '' if ok else 'the constructor does not establish buffer_size >= num_workers >= 1: a hand-over queue of capacity 0 '
           'is unbounded (queue.Queue(0))')
    for cname in ('core.PrefetchDataset', 'core.ParMapDataset'):
        c = ctx.repo.cls(cname)
        writers = [(m.name, n) for m in c.members.values() if m.is_function for n in ast.walk(m.node)
                   if isinstance(n, (ast.Assign, ast.AugAssign)) and any(
                       A.is_self_attr(t, 'buffer_size') for t in (n.targets if isinstance(n, ast.Assign) else [n.target]))]
        ok = [w[0] for w in writers] == ['__init__'] and A.is_name(writers[0][1].value, 'buffer_size')
        rep.ob('B3', K.key(c, None, 'buffer_size-written-only-by-the-constructor'), ok, c.node,
               '' if ok else 'self.buffer_size is written by %s' % [w[0] for w in writers])


def rule_b4(ctx):
    rep = ctx.report
    base = ctx.repo.dataset_base()
    pu = ctx.repo.module('parallel_utils')
    core = ctx.repo.module('core')
    hops = 0

    def check_call(caller_fn, callee_name, callee_fn, param, expect_src, where, skip_self=True):
        nonlocal hops
        calls = [n for n in A.walk_local(caller_fn) if isinstance(n, ast.Call) and (A.dotted(n.func) or '').split('.')[-1] == callee_name]
        if not calls:
            raise AnalysisError('undecidable shape: %s does not call %s' % (where, callee_name))
        for c in calls:
            hops += 1
            b = flow.bind(c, callee_fn, skip_self=skip_self)
            e = b.args.get(param)
            ok = e is not None and A.src(e) == expect_src
            rep.ob('B4', '%s::passes(%s=%s)->%s' % (where, param, expect_src, callee_name), ok, c,
                   '' if ok else '%s receives %s for %s (expected %s unchanged)' % (
                       callee_name, A.short(e) if e is not None else 'its default', param, expect_src))

    pf = ctx.repo.cls('core.PrefetchDataset')
    pm = ctx.repo.cls('core.ParMapDataset')
    check_call(base.own('prefetch').node, 'PrefetchDataset', pf.own('__init__').node, 'buffer_size', 'buffer_size', 'core.Dataset.prefetch')
    check_call(base.own('prefetch').node, 'PrefetchDataset', pf.own('__init__').node, 'num_workers', 'num_workers', 'core.Dataset.prefetch')
    check_call(base.own('map').node, 'ParMapDataset', pm.own('__init__').node, 'buffer_size', 'buffer_size', 'core.Dataset.map')
    check_call(base.own('map').node, 'ParMapDataset', pm.own('__init__').node, 'num_workers', 'num_workers', 'core.Dataset.map')
    check_call(base.own('batch_map').node, 'map', base.own('map').node, 'buffer_size', 'buffer_size', 'core.Dataset.batch_map')
    lpm = pu.functions['lazy_parallel_map']
    stp = pu.functions['single_thread_prefetch']
    check_call(pf.own('__iter__').node, 'lazy_parallel_map', lpm, 'buffer_size', 'self.buffer_size', 'core.PrefetchDataset.__iter__', False)
    check_call(pf.own('__iter__').node, 'lazy_parallel_map', lpm, 'max_workers', 'self.num_workers', 'core.PrefetchDataset.__iter__', False)
    check_call(pf.own('_single_thread_prefetch').node, 'single_thread_prefetch', stp, 'buffer_size', 'self.buffer_size',
               'core.PrefetchDataset._single_thread_prefetch', False)
    check_call(pm.own('__iter__').node, 'lazy_parallel_map', lpm, 'buffer_size', 'self.buffer_size', 'core.ParMapDataset.__iter__', False)
    check_call(pm.own('__iter__').node, 'lazy_parallel_map', lpm, 'max_workers', 'self.num_workers', 'core.ParMapDataset.__iter__', False)
    rep.floor('buffer_size hand-over sites', hops, 12)
    # inside the helpers the parameter is not rebound
    for f, name in ((lpm, 'lazy_parallel_map'), (stp, 'single_thread_prefetch')):
        reb = [n for n in ast.walk(f) if isinstance(n, (ast.Assign, ast.AugAssign)) and any(
            A.is_name(t, 'buffer_size') for t in (n.targets if isinstance(n, ast.Assign) else [n.target]))]
        rep.ob('B4', 'parallel_utils.%s::buffer_size-not-rebound' % name, not reb, reb[0] if reb else f, '')
    # the single-thread path hands the (possibly catching) input itself, not a materialised copy
    st = pf.own('_single_thread_prefetch').node
    mats = [n for n in A.walk_local(st) if isinstance(n, ast.Call) and A.dotted(n.func) in ('list', 'tuple', 'sorted')]
    rep.ob('B5', 'core.PrefetchDataset._single_thread_prefetch::input-handed-over-lazily', not mats, mats[0] if mats else st, '')


def run(ctx):
    rule_b1(ctx)
    rule_b2(ctx)
    rule_b3(ctx)
    rule_b4(ctx)
