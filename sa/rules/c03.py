"""C03 — keys, items and key lookup are aligned with iteration order.

W  with_key protocol honoured on every path of every __iter__
W2 key-mode consistency of the two branches (paired iteration where keys are asked for)
T  lookup totality: no __getitem__ path reaches the implicit end (would return None)
A  itemgetter(*xs) arity: empty and single selections handled
K3 keys() forwarded only by order- and count-preserving stages
P  in a yielded (key, example) pair both components come from the same index / key
"""
import ast

from .. import astutil as A
from .. import flow
from ..cfg import CFG, normal
from ..effects import INPUT_ATTR, INPUTS_ATTR
from ..model import AnalysisError
from . import common as K

META = {
    'id': 'C03',
    'technique': 'CFG path rules over every __iter__/__getitem__ (must-consume, fall-through), '
                 'dominance of arity guards, class-hierarchy resolution of keys(), syntactic index '
                 'unification of yielded pairs',
    'explanation': 'For all Dataset subclasses: on every control-flow path of __iter__ from entry to a yield the '
                   'with_key flag is tested or forwarded; where keys are requested the stage iterates its input '
                   'in paired mode and yields 2-tuples whose key and example are addressed by the same index or '
                   'key; no __getitem__ path falls off the end (an absent key can never come back as None); '
                   'operator.itemgetter(*xs) is protected against empty and single selections; keys() is a pure '
                   'forward of the input keys only in stages whose iteration is 1:1 and order preserving. '
                   'Alignment of keys and examples as runtime values through arbitrary compositions is not decided; '
                   'these are the per-stage conditions from which it follows by induction over the pipeline.',
    'not_decided': 'value-level key/example alignment through compositions',
    'assumptions': ['operator.itemgetter semantics (0 args: TypeError, 1 arg: scalar, n args: tuple)'],
}


def _mentions(expr, name):
    return any(isinstance(n, ast.Name) and n.id == name for n in ast.walk(expr))


def _forwards_flag(node, flag):
    """the statement contains a call ...__iter__(with_key=<flag>) or f(..., with_key=flag)"""
    for n in ast.walk(node):
        if isinstance(n, ast.Call):
            for kw in n.keywords:
                if kw.arg == 'with_key' and A.is_name(kw.value, flag):
                    return True
            if isinstance(n.func, ast.Attribute) and n.func.attr == '__iter__' and n.args \
                    and A.is_name(n.args[0], flag):
                return True
    return False


def _check_consumed(rep, cls, fn, mname):
    flag = K.with_key_param(fn)
    if flag is None:
        rep.ob('W', K.key(cls, mname, 'with_key-parameter'), False, fn,
               '%s does not accept with_key: items() on a pipeline containing this stage fails with '
               'a TypeError instead of ItemsNotDefined' % mname)
        return []
    g = CFG(fn)

    def consumes(node):
        if node.ast is None or node.kind == 'join':
            return False
        if node.kind in ('test', 'while'):
            return _mentions(node.ast.test, flag)
        if node.kind in ('for', 'with', 'handler'):
            head = node.ast.iter if node.kind == 'for' else node.ast
            return _forwards_flag(head, flag) if node.kind == 'for' else False
        if isinstance(node.ast, (ast.If, ast.While, ast.For, ast.Try, ast.With) + A.FUNC_TYPES):
            return False
        return _forwards_flag(node.ast, flag) or (
            isinstance(node.ast, (ast.Assign, ast.Expr, ast.Return, ast.AugAssign))
            and any(isinstance(x, ast.IfExp) and _mentions(x.test, flag) for x in ast.walk(node.ast)))

    def is_emit(node):
        if node.ast is None or node.kind in ('join', 'test', 'while', 'for', 'handler', 'with'):
            return False
        if isinstance(node.ast, A.FUNC_TYPES):
            return False
        if isinstance(node.ast, ast.Return) and node.ast.value is not None:
            return not consumes(node)
        return A.contains_yield(node.ast) and not consumes(node)

    path = g.path_avoiding(g.entry.id, is_emit, consumes, edge_ok=normal)
    ok = path is None
    rep.ob('W', K.key(cls, mname, 'with_key-consumed-on-every-path'), ok,
           path[-1].ast if path else fn,
           '' if ok else 'a path reaches `%s` without ever testing or forwarding with_key: items() yields '
           'bare examples on it' % A.short(path[-1].ast, 60),
           path=[repr(p) for p in path if p.ast is not None] if path else None)
    # helpers of the stage that are handed the flag must honour it as well
    out = []
    for c in A.walk_local(fn):
        if isinstance(c, ast.Call) and A.is_self_attr(c.func) and any(kw.arg == 'with_key' and A.is_name(kw.value, flag)
                                                                       for kw in c.keywords):
            m2 = cls.resolve(c.func.attr)
            if m2 is not None and m2.is_function:
                out.append(m2)
    return out


def rule_w(ctx):
    rep = ctx.report
    n_iter = 0
    for cls in K.family(ctx, floor=20):
        mem = cls.own('__iter__')
        if mem is None or not mem.is_function:
            continue
        n_iter += 1
        todo = [(mem.node, '__iter__')]
        seen = set()
        while todo:
            fn, mname = todo.pop()
            if id(fn) in seen:
                continue
            seen.add(id(fn))
            for m2 in _check_consumed(rep, cls, fn, mname):
                todo.append((m2.node, m2.name))
    rep.floor('__iter__ methods with a CFG', n_iter, 20)


def _branches_on_flag(fn, flag):
    """yield (true_stmts, false_stmts) for each `if <flag>` / `if not <flag>` directly testing the flag"""
    for n in A.walk_local(fn):
        if isinstance(n, ast.If):
            t, neg = A.strip_not(n.test)
            if A.is_name(t, flag):
                true_b, false_b = (n.orelse, n.body) if neg else (n.body, n.orelse)
                # early-exit style: when one arm always leaves, what follows the `if` belongs to the other arm
                blk = [b_ for b_ in (getattr(A.parent(n), f_, None) for f_ in ('body', 'orelse', 'finalbody'))
                       if isinstance(b_, list) and any(x is n for x in b_)]
                rest = blk[0][[x is n for x in blk[0]].index(True) + 1:] if blk else []
                if rest and true_b and flow.always_exits(true_b) and not (false_b and flow.always_exits(false_b)):
                    false_b = list(false_b) + rest
                elif rest and false_b and flow.always_exits(false_b) and not (true_b and flow.always_exits(true_b)):
                    true_b = list(true_b) + rest
                yield (true_b, false_b, n)


def rule_w3(ctx):
    """`if with_key:` must do something: raise the items signal, or set up / yield the paired iteration.
    Also followed into self methods that receive the flag."""
    rep = ctx.report
    n = 0
    for cls in K.family(ctx):
        mem = cls.own('__iter__')
        if mem is None or not mem.is_function:
            continue
        todo = [mem.node]
        seen = set()
        while todo:
            fn = todo.pop()
            if id(fn) in seen:
                continue
            seen.add(id(fn))
            flag = K.with_key_param(fn)
            if flag is None:
                continue
            for c in A.walk_local(fn):
                if isinstance(c, ast.Call) and A.is_self_attr(c.func) and any(kw.arg == 'with_key' for kw in c.keywords):
                    m2 = cls.resolve(c.func.attr)
                    if m2 is not None and m2.is_function:
                        todo.append(m2.node)
                        if K.with_key_param(m2.node) is None:
                            rep.ob('W', K.key(cls, m2.name, 'with_key-parameter'), False, m2.node, 'helper is handed with_key but has no such parameter')
            for true_b, false_b, ifn in _branches_on_flag(fn, flag):
                n += 1
                does = any(isinstance(x, (ast.Raise, ast.Return, ast.Yield, ast.YieldFrom, ast.Assign, ast.AugAssign, ast.For, ast.While))
                           for x in A.walk_stmts(true_b))
                if not does and not true_b and flow.always_exits(false_b):
                    # `if not with_key: <plain iteration>; return` - what follows the `if` IS the with_key branch
                    blk = [b_ for b_ in (getattr(A.parent(ifn), f_, None) for f_ in ('body', 'orelse', 'finalbody'))
                           if isinstance(b_, list) and any(x is ifn for x in b_)]
                    rest = blk[0][[x is ifn for x in blk[0]].index(True) + 1:] if blk else []
                    does = any(isinstance(x, (ast.Raise, ast.Return, ast.Yield, ast.YieldFrom, ast.Assign, ast.AugAssign, ast.For, ast.While))
                               for x in A.walk_stmts(rest))
                rep.ob('W', K.key(cls, fn.name, 'with_key-branch-has-an-effect'), does, ifn,
                       '' if does else 'with_key is tested but the branch does nothing: items() falls through to the plain '
                       'iteration and yields bare examples instead of pairs (or instead of refusing)')
    rep.floor('with_key branches', n, 12)


def rule_w2(ctx):
    rep = ctx.report
    sites = 0
    for cls in K.family(ctx):
        mem = cls.own('__iter__')
        if mem is None or not mem.is_function:
            continue
        fn = mem.node
        flag = K.with_key_param(fn)
        if flag is None:
            continue
        _l, fctx = ctx.effects.local_effects(fn, cls, cls.module)
        is_items = False
        # ItemsDataset: its *value* iteration is the paired iteration of the input (tabled, shape verified)
        for true_b, false_b, ifn in _branches_on_flag(fn, flag):
            plain_in_false = [n for n in A.walk_stmts(false_b) if isinstance(n, ast.Call)
                              and isinstance(n.func, ast.Attribute) and n.func.attr == '__iter__'
                              and any(kw.arg == 'with_key' and A.is_const(kw.value, True) for kw in n.keywords)]
            if plain_in_false and cls.name == 'ItemsDataset':
                is_items = True
        for true_b, false_b, ifn in _branches_on_flag(fn, flag):
            sites += 1
            # -- key branch: every input iteration is paired
            for n in A.walk_stmts(true_b):
                bad = None
                if isinstance(n, (ast.For, ast.comprehension)) and fctx.kind(n.iter) == 'DS':
                    bad = n.iter
                elif isinstance(n, ast.Call):
                    d = A.dotted(n.func)
                    if d in ('iter', 'map', 'zip', 'enumerate') and any(
                            fctx.kind(a.value if isinstance(a, ast.Starred) else a) in ('DS', 'DSSEQ')
                            for a in n.args):
                        bad = n
                    if isinstance(n.func, ast.Attribute) and n.func.attr == '__iter__' \
                            and fctx.kind(n.func.value) == 'DS':
                        paired = any(kw.arg == 'with_key' and (A.is_const(kw.value, True) or A.is_name(kw.value, flag))
                                     for kw in n.keywords) or (n.args and (A.is_const(n.args[0], True)
                                                                          or A.is_name(n.args[0], flag)))
                        if not paired:
                            bad = n
                elif isinstance(n, ast.YieldFrom) and fctx.kind(n.value) == 'DS':
                    bad = n
                if bad is not None:
                    rep.ob('W2', K.key(cls, '__iter__', 'key-branch-iterates-values(%s)' % A.short(bad, 40)),
                           False, bad, 'in the with_key branch the input is iterated without keys: '
                           'the stage yields bare examples where (key, example) pairs are expected')
            # -- direct yields in the key branch are pairs
            for n in A.walk_stmts(true_b):
                if isinstance(n, ast.Yield) and n.value is not None:
                    v = n.value
                    ok = isinstance(v, ast.Tuple) and len(v.elts) == 2
                    if not ok and isinstance(v, ast.Name):
                        # element of a paired iterator (loop target of an ITER) or next(paired)
                        ok = True
                    if not ok and isinstance(v, ast.Call):
                        ok = True
                    rep.ob('W2', K.key(cls, '__iter__', 'key-branch-yields-pair'), ok, n,
                           '' if ok else 'yield in the with_key branch is not a (key, example) pair: ' + A.short(v))
            # -- value branch: never asks the input for pairs
            if not is_items:
                for n in A.walk_stmts(false_b):
                    if isinstance(n, ast.Call) and isinstance(n.func, ast.Attribute) and n.func.attr == '__iter__' \
                            and any(kw.arg == 'with_key' and A.is_const(kw.value, True) for kw in n.keywords):
                        rep.ob('W2', K.key(cls, '__iter__', 'value-branch-iterates-pairs'), False, n,
                               'the plain iteration asks its input for (key, example) pairs and yields them as examples')
            rep.ob('W2', K.key(cls, '__iter__', 'branches-consistent'), True, ifn,
                   'key branch paired / value branch plain', nontrivial=True)
    rep.floor('with_key branch sites', sites, 12)
    # ItemsDataset shape (the one stage whose value iteration is the paired iteration)
    items = ctx.repo.cls('core.ItemsDataset')
    fn = items.own('__iter__').node if items.own('__iter__') else None
    if fn is None:
        raise AnalysisError('anchor vanished: ItemsDataset.__iter__')
    flag = K.with_key_param(fn) or 'with_key'
    found = False
    for true_b, false_b, ifn in _branches_on_flag(fn, flag):
        found = True
        yf = [n for n in A.walk_stmts(false_b) if isinstance(n, (ast.YieldFrom, ast.For))]
        ok = any(isinstance(n.value if isinstance(n, ast.YieldFrom) else n.iter, ast.Call)
                 and any(kw.arg == 'with_key' and A.is_const(kw.value, True)
                         for kw in (n.value if isinstance(n, ast.YieldFrom) else n.iter).keywords)
                 and A.is_self_attr((n.value if isinstance(n, ast.YieldFrom) else n.iter).func.value, INPUT_ATTR)
                 for n in yf if isinstance(n.value if isinstance(n, ast.YieldFrom) else n.iter, ast.Call)
                 and isinstance((n.value if isinstance(n, ast.YieldFrom) else n.iter).func, ast.Attribute))
        rep.ob('W2', K.key(items, '__iter__', 'items-iterates-input-paired'), ok, ifn,
               '' if ok else 'ItemsDataset does not iterate its input with with_key=True')
        handlers = [h for n in A.walk_stmts(false_b) if isinstance(n, ast.Try) for h in n.handlers]
        ok2 = any(h.type is not None and A.dotted(h.type) == '_ItemsNotDefined' and
                  any(isinstance(x, ast.Raise) and x.exc is not None for x in A.walk_stmts(h.body))
                  for h in handlers)
        rep.ob('W2', K.key(items, '__iter__', 'items-refusal-is-loud'), ok2, ifn,
               '' if ok2 else 'the internal _ItemsNotDefined signal is not converted into a raised ItemsNotDefined')
    if not found:
        rep.ob('W2', K.key(items, '__iter__', 'items-iterates-input-paired'), False, fn,
               'ItemsDataset.__iter__ no longer branches on with_key')


def rule_t(ctx):
    rep = ctx.report
    n = 0
    for cls in ctx.repo.classes.values():
        mem = cls.own('__getitem__')
        if mem is None or not mem.is_function:
            continue
        if K.only_raises(mem.node):
            continue
        n += 1
        g = CFG(mem.node)
        reach = g.reach([g.entry.id], normal)
        ends = [g.nodes[i] for i in g.falloff if i in reach]
        ok = not ends
        path = None
        if ends:
            target = ends[0].id
            p = g.path_avoiding(g.entry.id, lambda nd: nd.id == target, None, edge_ok=normal)
            path = [repr(x) for x in (p or []) if x.ast is not None]
        rep.ob('T', K.key(cls, '__getitem__', 'no-fallthrough'), ok, ends[0].ast if ends else mem.node,
               '' if ok else 'a path through __getitem__ reaches the end of the function without return or raise: '
               'the lookup answers None (last statement on it: `%s`)' % A.short(ends[0].ast, 60), path=path)
    rep.floor('__getitem__ methods', n, 20)


def _emptiness_guard(node_ast, xs_src):
    """does this test / statement establish something about len(xs) or touch xs[0]?"""
    for n in ast.walk(node_ast):
        if isinstance(n, ast.Call) and A.dotted(n.func) == 'len' and n.args and A.src(n.args[0]) == xs_src:
            par = A.parent(n)
            if isinstance(par, ast.Compare):
                others = [par.left] + par.comparators
                vals = [A.int_value(o) for o in others if o is not n]
                if any(v == 0 for v in vals):
                    return True
                ops = par.ops
                # len(xs) > 1 / >= 2 / < 1 / >= 1 also separate the empty case
                if any(v in (1, 2) for v in vals) and any(isinstance(o, (ast.Gt, ast.GtE, ast.Lt, ast.LtE)) for o in ops):
                    return True
        if isinstance(n, ast.Subscript) and A.src(n.value) == xs_src and A.int_value(n.slice) in (0, -1):
            return True
    return False


def rule_a(ctx):
    rep = ctx.report
    sites = 0
    for mod, fn in ctx.repo.all_functions():
        if isinstance(fn, ast.Lambda) or ctx.repo.is_new_private_helper(fn):
            continue
        for call in A.walk_local(fn):
            if not (isinstance(call, ast.Call) and call.args and isinstance(call.args[0], ast.Starred)
                    and len(call.args) == 1):
                continue
            d = A.dotted(call.func)
            if d is None or mod.resolve_name(d) not in ('operator.itemgetter',):
                continue
            sites += 1
            xs = call.args[0].value
            xs_src = A.src(xs)
            qual = ctx.repo.qualname_of(fn)
            g = CFG(fn)
            targets = [nd for nd in g.stmt_nodes() if nd.ast is not None and nd.kind == 'stmt'
                       and any(x is call for x in ast.walk(nd.ast))]
            if not targets:
                raise AnalysisError('itemgetter call not found in CFG of %s' % qual)
            tid = {t.id for t in targets}

            def guard(nd):
                if nd.ast is None or nd.kind == 'join' or nd.id in tid:
                    return False
                if nd.kind in ('test', 'while'):
                    # truthiness of xs itself
                    t, _neg = A.strip_not(nd.ast.test)
                    if A.src(t) == xs_src:
                        return True
                    return _emptiness_guard(nd.ast.test, xs_src)
                if nd.kind == 'stmt' and not isinstance(nd.ast, (ast.If, ast.For, ast.While, ast.Try)):
                    return _emptiness_guard(nd.ast, xs_src)
                return False

            p = g.path_avoiding(g.entry.id, lambda nd: nd.id in tid, guard, edge_ok=None)
            ok0 = p is None
            rep.ob('A', K.key(qual, None, 'itemgetter-arity(0)'), ok0, call,
                   '' if ok0 else 'operator.itemgetter(*%s) is reached without any test that %s is non-empty: '
                   'an empty selection raises TypeError instead of giving an empty result' % (xs_src, xs_src),
                   path=[repr(x) for x in p if x.ast is not None] if p else None)
            # the single-element case: somewhere after the call, len(xs) == 1 is tested
            after_ok = False
            for n in A.walk_local(fn):
                if isinstance(n, ast.If) and getattr(n, 'lineno', 0) >= call.lineno:
                    for c in ast.walk(n.test):
                        if isinstance(c, ast.Compare) and len(c.ops) == 1 and isinstance(c.ops[0], ast.Eq):
                            sides = [c.left, c.comparators[0]]
                            if any(A.int_value(s) == 1 for s in sides) and any(
                                    isinstance(s, ast.Call) and A.dotted(s.func) == 'len' and s.args
                                    and A.src(s.args[0]) == xs_src for s in sides):
                                after_ok = True
            rep.ob('A', K.key(qual, None, 'itemgetter-arity(1)'), after_ok, call,
                   '' if after_ok else 'the scalar result of a single-element selection is not wrapped into a tuple')
    rep.floor('starred itemgetter sites', sites, 1)
    if sites == 0:
        rep.note('no operator.itemgetter(*xs) site left in the package (rule A has nothing to decide)')


def _pure_forward_keys(mem):
    rets = flow.returns_of(mem.node)
    if not rets:
        return False
    for r in rets:
        v = r.value
        if not (isinstance(v, ast.Call) and isinstance(v.func, ast.Attribute) and v.func.attr == 'keys'
                and A.is_self_attr(v.func.value, INPUT_ATTR) and not v.args):
            return False
    return True


K3_TABLE = {
    'CycleDataset': 'keys of an endless repetition: documented as the keys of one cycle',
}


def rule_k3(ctx):
    rep = ctx.report
    n = 0
    for cls in K.family(ctx):
        mem = cls.resolve('keys')
        flags, _fn = K.iteration_class(ctx, cls)
        changing = flags & {'conditional', 'catching', 'nested', 'random', 'buffered'}
        val, _m = K.abstract_bool_property(cls, 'ordered', ctx.repo)
        if mem is None or mem.owner is ctx.repo.dataset_base():
            n += 1
            rep.ob('K3', K.key(cls, 'keys', 'undefined-for-this-stage'), True, cls.node,
                   'keys() resolves to the raising base implementation', nontrivial=bool(changing))
            continue
        n += 1
        if _pure_forward_keys(mem):
            ok = not changing and val != ('const', False)
            if cls.name in K3_TABLE and flags <= {'infinite'}:
                ok = True
            rep.ob('K3', K.key(cls, 'keys', 'forward-only-if-1:1'), ok, mem.node,
                   (K3_TABLE.get(cls.name, '') if ok else
                    'keys() forwards the input keys although iteration of this stage %s: keys() no longer lists '
                    'one key per yielded example in iteration order' % (
                        'is ' + '/'.join(sorted(changing)) if changing else 'is unordered')))
        else:
            rep.ob('K3', K.key(cls, 'keys', 'own-computation'), True, mem.node,
                   'keys() is computed by the stage (checked by P / A)', nontrivial=False)
    rep.floor('keys resolutions', n, 20)


def _index_of_lookup(expr, fctx, include_self=True):
    """all index expressions of dataset lookups D[idx] inside expr"""
    out = []
    for n in ast.walk(expr):
        if isinstance(n, ast.Subscript) and fctx.kind(n.value) in (('DS', 'SELF') if include_self else ('DS',)):
            out.append(n.slice)
    return out


def rule_p(ctx, only=None, floor=12):
    rep = ctx.report
    classified = 0
    for cls in K.family(ctx):
        if only is not None and cls.name not in only:
            continue
        for mname in ('__iter__', '__getitem__'):
            mem = cls.own(mname)
            if mem is None or not mem.is_function:
                continue
            fn = mem.node
            funcs = [fn] + [n for n in ast.walk(fn) if isinstance(n, A.FUNC_TYPES) and n is not fn]
            for f in funcs:
                _l, fctx = ctx.effects.local_effects(fn, cls, cls.module)
                # nested defs see the enclosing names
                pairs = []
                for n in A.walk_local(f):
                    v = None
                    if isinstance(n, ast.Yield):
                        v = n.value
                    elif isinstance(n, ast.Return):
                        v = n.value
                    if isinstance(v, ast.Tuple) and len(v.elts) == 2:
                        pairs.append((n, v.elts[0], v.elts[1]))
                for stmt, a, b in pairs:
                    a1 = flow.copy_prop(a, f)
                    idxs = _index_of_lookup(b, fctx)
                    where = K.key(cls, mname if f is fn else mname + '.' + f.name, None)
                    if isinstance(a1, ast.Subscript) and idxs:
                        # (keys[i], ds[j])
                        ok = all(A.same(a1.slice, j) for j in idxs)
                        classified += 1
                        rep.ob('P', where + '::pair-same-index(%s)' % A.short(a1.slice, 20), ok, stmt,
                               '' if ok else 'key taken at index %s but example at %s' % (
                                   A.short(a1.slice), ', '.join(A.short(j) for j in idxs)))
                        # ... and the key tuple indexed is the keys() of the very dataset the example is looked up in
                        # (positions of self.keys() and of input.keys() differ as soon as the stage selects or reorders)
                        kc = flow.expand(a1.value, f)
                        if isinstance(kc, ast.Call) and isinstance(kc.func, ast.Attribute) and kc.func.attr == 'keys' and not kc.args:
                            owners = [n2.value for n2 in ast.walk(b) if isinstance(n2, ast.Subscript)
                                      and fctx.kind(n2.value) in ('DS', 'SELF')]
                            kowner = kc.func.value
                            if A.is_name(kowner, 'self'):
                                km = cls.resolve('keys')
                                krets = [r for r in flow.returns_of(km.node)] if km is not None and km.is_function else []
                                if len(krets) == 1 and isinstance(krets[0].value, ast.Call) and not krets[0].value.args \
                                        and isinstance(krets[0].value.func, ast.Attribute) and krets[0].value.func.attr == 'keys' \
                                        and len([x for x in km.node.body if not (isinstance(x, ast.Expr) and isinstance(x.value, ast.Constant))]) == 1:
                                    kowner = krets[0].value.func.value      # keys() is a pure forwarder
                            oko = bool(owners) and all(A.same(flow.expand(o, f), kowner) or A.same(flow.expand(o, f), kc.func.value)
                                                       for o in owners)
                            rep.ob('P', where + '::pair-keys-of-the-dataset-looked-up(%s)' % A.short(kc.func.value, 30), oko, stmt,
                                   '' if oko else 'the key comes from %s.keys() but the example from %s[...]: position i of the two '
                                   'differs whenever this stage selects or reorders' % (
                                       A.short(kc.func.value, 30), ', '.join(A.short(o, 30) for o in owners)))
                    elif isinstance(a1, ast.Name) and idxs:
                        # (k, ds[k]) or (item, ds[keys().index(item)])
                        def same_key(j):
                            if A.is_name(j, a1.id):
                                return True
                            return isinstance(j, ast.Call) and isinstance(j.func, ast.Attribute) \
                                and j.func.attr == 'index' and j.args and A.is_name(j.args[0], a1.id)
                        ok = all(same_key(j) for j in idxs)
                        classified += 1
                        rep.ob('P', where + '::pair-same-key(%s)' % a1.id, ok, stmt,
                               '' if ok else 'key %s paired with the example looked up under %s' % (
                                   a1.id, ', '.join(A.short(j) for j in idxs)))
                    elif isinstance(a, ast.Name) and not idxs:
                        # (k, f(v)) with (k, v) bound together by one unpacking
                        partner = None
                        for n in A.walk_local(f):
                            tgt = None
                            if isinstance(n, (ast.For, ast.comprehension)):
                                tgt = n.target
                            elif isinstance(n, ast.Assign) and len(n.targets) == 1:
                                tgt = n.targets[0]
                            if isinstance(tgt, ast.Tuple) and len(tgt.elts) == 2 and A.is_name(tgt.elts[0], a.id) \
                                    and isinstance(tgt.elts[1], ast.Name):
                                partner = tgt.elts[1].id
                        if partner is not None:
                            names = set(A.names_in(b, ast.Load))
                            ok = partner in names
                            # ItemsDataset: yield k, (k, v)
                            classified += 1
                            rep.ob('P', where + '::pair-from-one-unpack(%s,%s)' % (a.id, partner), ok, stmt,
                                   '' if ok else 'key %s is yielded with a value that does not derive from its '
                                   'partner %s' % (a.id, partner))
                        else:
                            rep.note('pair not classified (no index and no common unpacking): %s %s' % (
                                where, A.short(stmt)))
                    else:
                        rep.note('pair not classified: %s %s' % (where, A.short(stmt)))
    rep.floor('(key, example) pair sites classified', classified, floor)


def rule_mv(ctx):
    """a memoised keys() is stored only after its validation: no `raise` may follow the memo store inside the
    memo block (else a refused first call leaves the invalid value cached and the second call returns it)"""
    rep = ctx.report
    n = 0
    for cls in K.family(ctx):
        mem = cls.own('keys')
        if mem is None or not mem.is_function:
            continue
        fn = mem.node
        g = CFG(fn)
        stores = [nd for nd in g.stmt_nodes() if nd.kind == 'stmt' and isinstance(nd.ast, (ast.Assign, ast.AugAssign))
                  and any(A.is_self_attr(t) for t in (nd.ast.targets if isinstance(nd.ast, ast.Assign) else [nd.ast.target]))]
        for st in stores:
            n += 1
            p = g.path_avoiding(st.id, lambda nd: nd.kind == 'stmt' and isinstance(nd.ast, (ast.Raise, ast.Assert)),
                                None, edge_ok=normal)
            ok = p is None
            attr = [t.attr for t in (st.ast.targets if isinstance(st.ast, ast.Assign) else [st.ast.target])
                    if A.is_self_attr(t)][0]
            rep.ob('MV', K.key(cls, 'keys', 'memo-stored-after-validation(%s)' % attr), ok, st.ast,
                   '' if ok else 'self.%s is stored before the validation that can still refuse it (`%s`): the first '
                   'keys() call raises, but the invalid key tuple stays cached and later keys() / ds[key] calls use it '
                   'silently' % (attr, A.short(p[-1].ast, 50)),
                   path=[repr(x) for x in p if x.ast is not None] if p else None)
    rep.floor('memo stores in keys()', n, 4)
    # ... and the other half: when the memo is empty, every path to `return self.<memo>` has filled it (else keys() is None
    # for that shape of input - e.g. the empty selection - and every key lookup behind it fails)
    for cls in K.family(ctx):
        mem = cls.own('keys')
        if mem is None or not mem.is_function:
            continue
        fn = mem.node
        rets = [r for r in flow.returns_of(fn) if r.value is not None and A.is_self_attr(r.value)]
        if not rets:
            continue
        attr = rets[0].value.attr
        g = CFG(fn)
        tests = []
        for nd in g.nodes:
            if nd.kind == 'test' and nd.ast is not None:
                t, neg = A.strip_not(nd.ast.test if hasattr(nd.ast, 'test') else nd.ast)
                if isinstance(t, ast.Compare) and len(t.ops) == 1 and A.is_self_attr(t.left, attr) \
                        and A.is_const(t.comparators[0], None) and isinstance(t.ops[0], (ast.Is, ast.IsNot)):
                    empty_edge = 'true' if (isinstance(t.ops[0], ast.Is) != neg) else 'false'
                    tests.append((nd, empty_edge))
        if not tests:
            continue

        def is_store(nd):
            return nd.kind == 'stmt' and isinstance(nd.ast, ast.Assign) and any(A.is_self_attr(t, attr) for t in nd.ast.targets)

        def is_ret(nd):
            return nd.kind == 'stmt' and isinstance(nd.ast, ast.Return) and nd.ast.value is not None \
                and A.is_self_attr(nd.ast.value, attr)
        bad = None
        for nd, edge in tests:
            for (y, k) in g.succ[nd.id]:
                if k != edge:
                    continue
                if is_store(g.nodes[y]):
                    continue
                if is_ret(g.nodes[y]):
                    bad = [nd, g.nodes[y]]
                    continue
                p_ = g.path_avoiding(y, is_ret, is_store, edge_ok=normal)
                bad = bad or p_
        rep.ob('MV', K.key(cls, 'keys', 'memo-filled-on-every-path-to-the-return(%s)' % attr), bad is None, fn,
               '' if bad is None else 'with an empty memo a path reaches `return self.%s` without storing it: keys() returns '
               'None there' % attr, path=[repr(x) for x in bad if x.ast is not None] if bad else None)


def rule_kw(ctx):
    """string lookup in a multi-input stage: a part answers only for keys it lists itself"""
    rep = ctx.report
    sites = 0
    for cls in K.family(ctx):
        mem = cls.own('__getitem__')
        if mem is None or not mem.is_function:
            continue
        fn = mem.node
        item, arms = K.getitem_arms(fn)
        _l, fctx = ctx.effects.local_effects(fn, cls, cls.module)
        for arm in arms:
            if not (arm['types'] and 'str' in arm['types'] and 'int' not in arm['types']):
                continue
            for loop in A.walk_stmts(arm['body']):
                if not (isinstance(loop, ast.For) and fctx.kind(loop.iter) == 'DSSEQ' and isinstance(loop.target, ast.Name)):
                    continue
                part = loop.target.id
                looks = [s for s in A.walk_stmts(loop.body) if isinstance(s, ast.Subscript) and A.is_name(s.value, part)
                         and A.is_name(s.slice, item)]
                if looks:
                    # duplicate keys across the parts are refused before any part answers
                    pre = [s for s in arm['body'] if s.lineno < loop.lineno and isinstance(s, ast.Expr)
                           and isinstance(s.value, ast.Call) and A.dotted(s.value.func) == 'self.keys']
                    rep.ob('KW', K.key(cls, '__getitem__', 'uniqueness-validated-before-the-part-walk'), bool(pre), loop,
                           '' if pre else 'the string lookup no longer calls self.keys() (which refuses duplicate keys) first: '
                           'with the same key in two parts ds[key] silently answers with the first part\'s example')
                for lk in looks:
                    sites += 1
                    guarded = False
                    for test, branch in flow.guards_of(lk, loop):
                        t, neg = A.strip_not(test)
                        if isinstance(t, ast.Compare) and len(t.ops) == 1 and A.is_name(t.left, item) \
                                and isinstance(t.comparators[0], ast.Call) and isinstance(t.comparators[0].func, ast.Attribute) \
                                and t.comparators[0].func.attr == 'keys' and A.is_name(t.comparators[0].func.value, part):
                            if (isinstance(t.ops[0], ast.In) and branch != neg) or (isinstance(t.ops[0], ast.NotIn) and branch == neg):
                                guarded = True
                    rep.ob('KW', K.key(cls, '__getitem__', 'part-answers-only-for-its-own-keys'), guarded, lk,
                           '' if guarded else 'the key is looked up in a part without testing `%s in %s.keys()`: a part '
                           'that is a selection of a larger source (slice, shard, sort, shuffle) forwards unknown keys to '
                           'that source, so the stage returns the example of the wrong part instead of the one whose key '
                           'it lists' % (item, part))
    rep.floor('per-part key lookups', sites, 2)


def rule_ks(ctx):
    """a stage that lists a *selection* of its input's keys validates a string key against its own keys
    before forwarding it to the input"""
    rep = ctx.report
    n = 0
    for cls in K.family(ctx):
        km = cls.resolve('keys')
        gm = cls.own('__getitem__')
        if km is None or gm is None or km.owner is ctx.repo.dataset_base() or not gm.is_function:
            continue
        if _pure_forward_keys(km):
            continue
        # own keys computed by selecting from the single input's keys
        selects = any(isinstance(x, ast.Call) and isinstance(x.func, ast.Attribute) and x.func.attr == 'keys'
                      and A.is_self_attr(x.func.value, INPUT_ATTR) for x in ast.walk(km.node))
        if not selects:
            continue
        fn = gm.node
        item, arms = K.getitem_arms(fn)
        for arm in arms:
            if not (arm['types'] and 'str' in arm['types'] and 'int' not in arm['types']):
                continue
            fwd = [s for s in A.walk_stmts(arm['body']) if isinstance(s, ast.Subscript)
                   and A.is_self_attr(s.value, INPUT_ATTR) and A.is_name(s.slice, item)]
            for f in fwd:
                n += 1
                checked = False
                for test, truth in flow.guards_of(f, fn):
                    t0, neg0 = A.strip_not(test)
                    eff = (truth != neg0)
                    if isinstance(t0, ast.Compare) and len(t0.ops) == 1 and A.is_name(t0.left, item) \
                            and isinstance(t0.ops[0], (ast.In, ast.NotIn)) and 'keys' in A.src(t0.comparators[0]) \
                            and 'input_dataset' not in A.src(t0.comparators[0]):
                        present = (isinstance(t0.ops[0], ast.In) and eff) or (isinstance(t0.ops[0], ast.NotIn) and not eff)
                        if present:
                            checked = True
                for s_ in A.walk_stmts(arm['body']):
                    if isinstance(s_, ast.Call) and isinstance(s_.func, ast.Attribute) and s_.func.attr == 'index' \
                            and 'keys' in A.src(s_.func.value) and s_.args and A.is_name(s_.args[0], item):
                        checked = True
                # ... and an absent key is refused with an exception somewhere in the arm
                checked = checked and any(isinstance(x, ast.Raise) for x in A.walk_stmts(arm['body']))
                rep.ob('KS', K.key(cls, '__getitem__', 'str-key-validated-against-own-keys'), checked, f,
                       '' if checked else 'keys() of this stage is a selection of the input keys, but ds[key] forwards any '
                       'string to the input: a key that the stage does not list is answered with an example instead of a '
                       'lookup error')
    rep.floor('selecting stages with a string lookup', n, 1)


def rule_sg(ctx):
    """iter(ds) calls __iter__() without arguments: values are the default, pairs only on request"""
    n = K.sibling_default(ctx, 'SG', '__iter__', 'with_key', False,
                          'plain iteration of this stage would yield (key, example) pairs')
    ctx.report.floor('__iter__ signatures with with_key', n, 10)


def rule_cs(ctx):
    """items() / keys() / lookup paths never rely on a capability the stage itself does not implement"""
    n = K.self_capability_stubs(ctx, 'CS')
    ctx.report.floor('own-capability calls in the family', n, 20)


def run(ctx):
    rule_cs(ctx)
    rule_sg(ctx)
    rule_mv(ctx)
    rule_kw(ctx)
    rule_ks(ctx)
    rule_w(ctx)
    rule_w3(ctx)
    rule_w2(ctx)
    rule_t(ctx)
    rule_a(ctx)
    rule_k3(ctx)
    rule_p(ctx)
