"""C20 — the profiling wrapper is transparent and counts truthfully.

DEL delegation completeness (member kind, forwarding target, with_key)
PR  the wrapped pipeline object stays pristine (writes only to the wrapper's own copy)
CN  counter deltas per path class of the fetch; the yielded / returned object is the fetched one
SH  copies share the counters and copy the input with the given freeze
"""
import ast

from .. import astutil as A
from .. import flow
from ..cfg import CFG, normal
from ..effects import INPUT_ATTR, INPUTS_ATTR
from ..model import AnalysisError
from . import common as K

META = {
    'id': 'C20',
    'technique': 'class-hierarchy resolution of the delegated protocol members (kind and forwarding target), '
                 'provenance of attribute stores in the wrapper constructor, handler-shape / path-class analysis of the '
                 'counting code',
    'explanation': 'ProfilingDataset resolves every protocol member (__len__, keys, indexable, ordered, __getitem__, '
                   '__iter__) to an own definition of the same kind as the base member that forwards to the same '
                   'member of its input, with_key included; its constructor rebinds the parameter to its own copy() '
                   'before any attribute of it is written and wraps both kinds of inputs recursively; in __iter__ and '
                   '__getitem__ the hit counter is incremented once per fetch, decremented again only on '
                   'StopIteration, the failure counter is incremented exactly in the handler that re-raises with a '
                   'bare raise, the time is accumulated in finally, and the object yielded/returned is the fetched '
                   'one; copy() shares both counter containers. Timing values are not decided.',
    'not_decided': 'timing values',
    'assumptions': [],
}

PROTOCOL = ('__len__', 'keys', 'indexable', 'ordered', '__getitem__', '__iter__')


def rule_del(ctx):
    rep = ctx.report
    cls = ctx.repo.cls('core.ProfilingDataset')
    base = ctx.repo.dataset_base()
    for name in PROTOCOL:
        own = cls.own(name)
        bm = base.own(name)
        if bm is None:
            raise AnalysisError('anchor vanished: Dataset.%s' % name)
        if own is None:
            rep.ob('DEL', K.key(cls, name, 'missing'), False, cls.node,
                   '%s is not delegated: the wrapper answers with the raising base implementation while the '
                   'wrapped pipeline answers normally' % name)
            continue
        if own.kind != bm.kind:
            rep.ob('DEL', K.key(cls, name, 'member-kind'), False, own.node,
                   '%s is a %s in the wrapper but a %s in the protocol: `wrapper.%s` is %s' % (
                       name, own.kind, bm.kind, name,
                       'a bound method, always truthy' if bm.kind == 'property' else 'not callable'))
            continue
        fn = own.node
        # forwards to the same member of the input
        fwd = False
        for n in A.walk_local(fn):
            if name in ('indexable', 'ordered'):
                if isinstance(n, ast.Return) and isinstance(n.value, ast.Attribute) and n.value.attr == name \
                        and A.is_self_attr(n.value.value, INPUT_ATTR):
                    fwd = True
            elif name == '__len__':
                if isinstance(n, ast.Return) and isinstance(n.value, ast.Call) and A.dotted(n.value.func) == 'len' \
                        and A.is_self_attr(n.value.args[0], INPUT_ATTR):
                    fwd = True
            elif name == 'keys':
                if isinstance(n, ast.Return) and isinstance(n.value, ast.Call) and isinstance(n.value.func, ast.Attribute) \
                        and n.value.func.attr == 'keys' and A.is_self_attr(n.value.func.value, INPUT_ATTR):
                    fwd = True
            elif name == '__getitem__':
                if isinstance(n, ast.Return) and isinstance(n.value, ast.Subscript) \
                        and A.is_self_attr(n.value.value, INPUT_ATTR) and A.is_name(n.value.slice, fn.args.args[1].arg):
                    fwd = True
            elif name == '__iter__':
                if isinstance(n, ast.Call) and ((A.dotted(n.func) == 'iter' and n.args and A.is_self_attr(n.args[0], INPUT_ATTR))
                                                or (isinstance(n.func, ast.Attribute) and n.func.attr == '__iter__'
                                                    and A.is_self_attr(n.func.value, INPUT_ATTR))):
                    fwd = True
        rep.ob('DEL', K.key(cls, name, 'forwards-to-input'), fwd, fn,
               '' if fwd else '%s does not forward to the same member of the wrapped dataset' % name)
    it = cls.own('__iter__')
    if it is not None:
        fn = it.node
        flag = K.with_key_param(fn)
        forwarded = flag is not None and any(
            isinstance(n, ast.Call) and isinstance(n.func, ast.Attribute) and n.func.attr == '__iter__'
            and any(kw.arg == 'with_key' and A.is_name(kw.value, flag) for kw in n.keywords) for n in A.walk_local(fn))
        refused = flag is not None and any(
            isinstance(n, ast.If) and A.is_name(A.strip_not(n.test)[0], flag)
            and any(isinstance(x, ast.Raise) for x in n.body) for n in A.walk_local(fn))
        ok = forwarded and not refused
        rep.ob('DEL', K.key(cls, '__iter__', 'with_key-forwarded'), ok, fn,
               '' if ok else 'the wrapper %s: a pipeline containing .items() cannot be profiled although it iterates '
               'fine unwrapped' % ('refuses with_key=True' if refused else 'does not pass with_key to its input'))


def rule_pr(ctx):
    rep = ctx.report
    cls = ctx.repo.cls('core.ProfilingDataset')
    init = cls.own('__init__')
    if init is None:
        raise AnalysisError('anchor vanished: ProfilingDataset.__init__')
    fn = init.node
    param = fn.args.args[1].arg
    rebind = None
    for n in fn.body:
        if isinstance(n, ast.Assign) and A.is_name(n.targets[0], param) and isinstance(n.value, ast.Call) \
                and isinstance(n.value.func, ast.Attribute) and n.value.func.attr == 'copy' \
                and A.is_name(n.value.func.value, param):
            rebind = n
            break
    ok = rebind is not None and not flow.enclosing_guards(rebind, fn)
    if rebind is not None:
        # a plain copy: freezing would pin the order of every reshuffling stage and evaluate lazy applies at wrap time
        c_ = rebind.value
        frz = [kw.value for kw in c_.keywords if kw.arg == 'freeze'] + list(c_.args[:1])
        plain = not frz or all(A.is_const(v, False) for v in frz)
        rep.ob('PR', K.key(cls, '__init__', 'pipeline-copied-unfrozen'), plain, rebind,
               '' if plain else 'the wrapper profiles `%s`: a frozen copy is another pipeline (reshuffling stages keep one order, '
               'lazy applies are evaluated once, random stages become indexable) and freezing draws from the original\'s generator'
               % A.short(c_, 50))
    rep.ob('PR', K.key(cls, '__init__', 'parameter-rebound-to-its-copy'), ok, rebind or fn,
           '' if ok else 'the constructor must first rebind its parameter to `%s.copy()` unconditionally' % param)
    stores = []
    for n in A.walk_local(fn):
        if isinstance(n, (ast.Assign, ast.AugAssign)):
            targets = n.targets if isinstance(n, ast.Assign) else [n.target]
            for t in targets:
                root = t
                while isinstance(root, (ast.Attribute, ast.Subscript)):
                    root = root.value
                if A.is_name(root, param) and t is not root:
                    stores.append(n)
        if isinstance(n, ast.Call) and A.dotted(n.func) == 'setattr' and n.args and A.is_name(n.args[0], param):
            stores.append(n)
    rep.floor('stores into the wrapped stage', len(stores), 2)
    for s in stores:
        ok = rebind is not None and s.lineno > rebind.lineno
        rep.ob('PR', K.key(cls, '__init__', 'store-on-own-copy(%s)' % A.short(s.targets[0] if isinstance(s, ast.Assign) else s, 40)),
               ok, s, '' if ok else 'the constructor writes into the caller\'s pipeline object before copying it')
    # both input attributes are wrapped recursively
    for attr in (INPUT_ATTR, INPUTS_ATTR):
        ok = False
        for s in stores:
            if isinstance(s, ast.Assign) and isinstance(s.targets[0], ast.Attribute) and s.targets[0].attr == attr:
                v = flow.expand(s.value, fn)
                calls = [x for x in ast.walk(v) if isinstance(x, ast.Call) and A.dotted(x.func) in (
                    'self.__class__', 'ProfilingDataset', 'type(self)')]
                guard = any(isinstance(t, ast.Call) and A.dotted(t.func) == 'hasattr' and len(t.args) == 2
                            and isinstance(t.args[1], ast.Constant) and t.args[1].value == attr
                            for t, b in flow.guards_of(s, fn) if b)
                if attr == INPUT_ATTR:
                    ok = bool(calls) and guard and any(
                        isinstance(c.args[0], ast.Attribute) and c.args[0].attr == attr for c in calls if c.args)
                else:
                    ok = bool(calls) and guard and isinstance(v, (ast.ListComp, ast.Call, ast.GeneratorExp)) and \
                        any(isinstance(x, ast.comprehension) and isinstance(x.iter, ast.Attribute)
                            and x.iter.attr == attr and not x.ifs for x in ast.walk(v))
        rep.ob('PR', K.key(cls, '__init__', 'wraps-every(%s)' % attr), ok, fn,
               '' if ok else 'inputs stored under %r are not all wrapped recursively' % attr)
    # the wrapper keeps the copy
    ok = any(isinstance(n, ast.Assign) and A.is_self_attr(n.targets[0], INPUT_ATTR) and A.is_name(n.value, param)
             and (rebind is not None and n.lineno > rebind.lineno) for n in A.walk_local(fn))
    rep.ob('PR', K.key(cls, '__init__', 'wrapper-holds-the-copy'), ok, fn, '')


def _is_counter(t, attr, idx):
    return isinstance(t, ast.Subscript) and A.is_self_attr(t.value, attr) and A.int_value(t.slice) == idx


def _aug(stmts, attr, idx, op):
    out = []
    for s in stmts:
        if isinstance(s, ast.AugAssign) and _is_counter(s.target, attr, idx) and isinstance(s.op, op) \
                and A.int_value(s.value) == 1:
            out.append(s)
    return out


def rule_cn(ctx):
    rep = ctx.report
    cls = ctx.repo.cls('core.ProfilingDataset')
    # counting starts at zero: the constructor creates the counter containers with zero entries, and nothing but the
    # two fetch methods writes them
    ini = cls.own('__init__')
    if ini is None:
        raise AnalysisError('anchor vanished: ProfilingDataset.__init__')
    for attr, size in (('hit_count', 2), ('time', 1)):
        st = [n for n in A.walk_local(ini.node) if isinstance(n, ast.Assign) and A.is_self_attr(n.targets[0], attr)]
        ok = len(st) == 1 and isinstance(st[0].value, ast.List) and len(st[0].value.elts) == size and all(
            isinstance(e, ast.Constant) and not isinstance(e.value, bool) and e.value == 0 for e in st[0].value.elts) \
            and not flow.enclosing_guards(st[0], ini.node)
        rep.ob('CN', K.key(cls, '__init__', 'counter-starts-at-zero(%s)' % attr), ok, st[0] if st else ini.node,
               '' if ok else 'self.%s must be created as a fresh list of %d zero(s), unconditionally; found %s' % (
                   attr, size, A.short(st[0].value) if st else 'no assignment'))
    def called_from_fetch(mn):
        # private helpers of the wrapper that the two fetch methods call directly
        return mn.startswith('_') and not mn.startswith('__') and any(
            isinstance(x, ast.Call) and A.is_self_attr(x.func, mn)
            for fm in ('__iter__', '__getitem__') if cls.own(fm) is not None for x in A.walk_local(cls.own(fm).node))
    writers = sorted({'%s.%s' % (c.name, mn) for c in ctx.repo.classes.values() for mn, m_ in c.members.items()
                      if m_.is_function and mn not in ('__iter__', '__getitem__', '__init__', 'copy')
                      and not (c is cls and called_from_fetch(mn))
                      for n in A.walk_local(m_.node)
                      if isinstance(n, (ast.Assign, ast.AugAssign)) and any(
                          isinstance(x, ast.Attribute) and x.attr == 'hit_count'
                          for t_ in (n.targets if isinstance(n, ast.Assign) else [n.target]) for x in ast.walk(t_))})
    rep.ob('CN', K.key(cls, None, 'hit_count-written-only-by-the-fetch-methods'), not writers, cls.node,
           '' if not writers else 'hit_count is also written by %s' % writers)
    for mname in ('__iter__', '__getitem__'):
        mem = cls.own(mname)
        if mem is None:
            raise AnalysisError('anchor vanished: ProfilingDataset.%s' % mname)
        fn = mem.node
        tries = [n for n in A.walk_local(fn) if isinstance(n, ast.Try)]
        if len(tries) != 1:
            # the timed fetch may have been moved into a private method of the wrapper (that was not inlined because it
            # changes how exhaustion is signalled): this rule then cannot decide the counting discipline
            helpers = [cls.resolve(c.func.attr) for c in A.walk_local(fn) if isinstance(c, ast.Call) and A.is_self_attr(c.func)
                       and c.func.attr.startswith('_') and cls.resolve(c.func.attr) is not None]
            moved = [h for h in helpers if h.is_function and any(isinstance(x, ast.Try) for x in A.walk_local(h.node))
                     and any(isinstance(x, ast.AugAssign) and _is_counter(x.target, 'hit_count', 0) for x in A.walk_local(h.node))]
            if not tries and moved:
                rep.undecided('CN', K.key(cls, mname, 'one-fetch-try'), fn,
                              'the counted fetch lives in the helper %s (different exhaustion protocol): counting rules not decided'
                              % moved[0].name)
                continue
            rep.ob('CN', K.key(cls, mname, 'one-fetch-try'), False, fn, 'expected exactly one try around the fetch, found %d' % len(tries))
            continue
        t = tries[0]
        block = A.parent(t).body
        pre = block[:block.index(t)]
        # +1 before the fetch, exactly once
        inc = _aug(pre, 'hit_count', 0, ast.Add)
        all_inc = [s for s in A.walk_local(fn) if isinstance(s, ast.AugAssign) and _is_counter(s.target, 'hit_count', 0)
                   and isinstance(s.op, ast.Add)]
        ok = len(inc) == 1 and len(all_inc) == 1
        rep.ob('CN', K.key(cls, mname, 'hit+1-once-per-fetch'), ok, t,
               '' if ok else 'the total hit counter must be incremented exactly once, right before each fetch')
        # the fetch
        if mname == '__iter__':
            fetch = [s for s in t.body if isinstance(s, ast.Assign) and isinstance(s.value, ast.Call)
                     and A.dotted(s.value.func) == 'next']
            ok = len(fetch) == 1 and len(t.body) == 1
            fetched = fetch[0].targets[0].id if fetch and isinstance(fetch[0].targets[0], ast.Name) else None
            ys = [y for y in A.yields_in(fn)]
            ok_y = len(ys) == 1 and isinstance(ys[0], ast.Yield) and A.is_name(ys[0].value, fetched or '\0') \
                and not any(x is ys[0] for s in t.body + t.finalbody for x in ast.walk(s)) \
                and not any(x is ys[0] for h in t.handlers for s in h.body for x in ast.walk(s))
            rep.ob('CN', K.key(cls, mname, 'yields-the-fetched-object-outside-the-timed-region'), ok and ok_y, t,
                   '' if ok and ok_y else 'the object yielded must be exactly the one fetched by next(), yielded after '
                   'the try (so consumer time is not measured)')
            stop = [h for h in t.handlers if h.type is not None and A.src(h.type) == 'StopIteration']
            ok_s = len(stop) == 1 and len(_aug(stop[0].body, 'hit_count', 0, ast.Sub)) == 1 and any(
                isinstance(s, ast.Return) for s in stop[0].body) and t.handlers.index(stop[0]) == 0 \
                and not _aug(stop[0].body, 'hit_count', 1, ast.Add)
            rep.ob('CN', K.key(cls, mname, 'exhaustion:(hit-1,return,no-failure)'), ok_s, stop[0] if stop else t,
                   '' if ok_s else 'on StopIteration the speculative hit must be undone once, nothing counted as failed, '
                   'and the generator must return')
        else:
            rets = [s for s in t.body if isinstance(s, ast.Return)]
            ok = len(rets) == 1 and len(t.body) == 1 and isinstance(rets[0].value, ast.Subscript) \
                and A.is_self_attr(rets[0].value.value, INPUT_ATTR) and A.is_name(rets[0].value.slice, fn.args.args[1].arg)
            rep.ob('CN', K.key(cls, mname, 'returns-the-fetched-object'), ok, t,
                   '' if ok else 'the value returned must be exactly self.input_dataset[item]')
        # failure handler
        fails = [h for h in t.handlers if h.type is None or A.src(h.type) in ('Exception', 'BaseException')]
        ok_f = len(fails) == 1 and len(_aug(fails[0].body, 'hit_count', 1, ast.Add)) == 1 and \
            isinstance(fails[0].body[-1], ast.Raise) and fails[0].body[-1].exc is None and \
            not _aug(fails[0].body, 'hit_count', 0, ast.Sub)
        rep.ob('CN', K.key(cls, mname, 'failure:(failed+1,bare-raise)'), ok_f, fails[0] if fails else t,
               '' if ok_f else 'a failing fetch must count one failure and re-raise the same exception with a bare raise')
        # no other writes to the failure counter
        other = [s for s in A.walk_local(fn) if isinstance(s, (ast.AugAssign, ast.Assign)) and any(
            _is_counter(x, 'hit_count', 1) for x in ([s.target] if isinstance(s, ast.AugAssign) else s.targets))
            and not (fails and any(x is s for x in fails[0].body))]
        rep.ob('CN', K.key(cls, mname, 'failure-counter-written-only-in-the-handler'), not other,
               other[0] if other else fn, '')
        # finally: time
        tm = [s for s in t.finalbody if isinstance(s, ast.AugAssign) and _is_counter(s.target, 'time', 0)
              and isinstance(s.op, ast.Add)]
        ok_t = len(tm) == 1 and not any(isinstance(s, (ast.Return, ast.Break, ast.Continue)) for s in A.walk_stmts(t.finalbody))
        rep.ob('CN', K.key(cls, mname, 'time-accumulated-in-finally-without-swallowing'), ok_t, t,
               '' if ok_t else 'the duration must be added in `finally`, which must not return/break (that would swallow '
               'the exception)')


def rule_sh(ctx):
    rep = ctx.report
    cls = ctx.repo.cls('core.ProfilingDataset')
    cp = cls.own('copy')
    if cp is None:
        raise AnalysisError('anchor vanished: ProfilingDataset.copy')
    fn = cp.node
    assigned = {}
    for n in A.walk_local(fn):
        if isinstance(n, ast.Assign) and isinstance(n.targets[0], ast.Attribute) and isinstance(n.targets[0].value, ast.Name):
            assigned[n.targets[0].attr] = n.value
    for attr in ('time', 'hit_count'):
        ok = attr in assigned and A.is_self_attr(assigned[attr], attr)
        rep.ob('SH', K.key(cls, 'copy', 'shares(%s)' % attr), ok, fn,
               '' if ok else 'copy() must share the %s container with the original (prefetch iterates a copy): %s' % (
                   attr, A.short(assigned[attr]) if attr in assigned else 'not set'))
    v = assigned.get(INPUT_ATTR)
    ok = isinstance(v, ast.Call) and isinstance(v.func, ast.Attribute) and v.func.attr == 'copy' and (
        any(kw.arg == 'freeze' and A.is_name(kw.value, 'freeze') for kw in v.keywords) or (v.args and A.is_name(v.args[0], 'freeze')))
    rep.ob('SH', K.key(cls, 'copy', 'input-copied-with-freeze'), ok, fn, '')
    # does not go through __init__ (which would wrap again and reset counters)
    ok = not any(isinstance(n, ast.Call) and A.dotted(n.func) in ('self.__class__', 'ProfilingDataset', 'type(self)')
                 for n in A.walk_local(fn))
    rep.ob('SH', K.key(cls, 'copy', 'does-not-rewrap'), ok, fn,
           '' if ok else 'copy() goes through the constructor: the pipeline is wrapped a second time and counters reset')


def run(ctx):
    rule_del(ctx)
    rule_pr(ctx)
    rule_cn(ctx)
    rule_sh(ctx)
