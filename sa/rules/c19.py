"""C19 — the database layer builds correct, isolated datasets from its source.

NM no mutation of caller-owned dictionaries        OK optional-key contradiction
DUP duplicate checks dominate merges               AUG example augmentation on copies
MEMO weak memo protocol / list concatenation       RED pickle state of JsonDatabase
"""
import ast

from .. import astutil as A
from .. import flow
from ..effects import MUTATORS
from ..model import AnalysisError
from . import common as K

META = {
    'id': 'C19',
    'technique': 'freshness/alias (provenance depth) analysis of every mutating operation in database.py; '
                 'contradiction rule on optional dictionary keys; dominance of duplicate checks over merges',
    'explanation': 'Every mutating operation in the database module (subscript store/delete, update, setdefault, '
                   'pop, ...) has a receiver that is provably a fresh object at the depth written (a display, '
                   'comprehension of .copy() values, {**x}) or the object\'s own private state; a key that a function '
                   'treats as optional somewhere is never subscripted unguarded elsewhere in it; every merge of an '
                   'incoming section is preceded by an assertion on the overlap of names; alias unions assert disjoint '
                   'ids; each returned example is a new dict that spreads the stored example and then sets example_id '
                   'and dataset; the memo is weak, consulted before building and filled under the same name; lists of '
                   'names concatenate recursively in the given order; __reduce__ carries the loaded data.',
    'not_decided': 'value equality with the stored order; behaviour for non-dict extra top-level values (needs types)',
    'assumptions': ['dict display / comprehension / {**x} / .copy() create new top-level objects',
                    'weakref.WeakValueDictionary drops entries when the dataset is collected'],
}

PRIVATE_STATE = {'_dataset_weak_ref_dict', '_data', '_json_path'}


def _fresh_depth(expr, fn, seen=None):
    """how many levels of the object denoted by expr are newly created in this function (0 = alias/source)"""
    seen = seen or set()
    if isinstance(expr, (ast.Dict, ast.List, ast.Set, ast.Tuple)):
        vals = expr.values if isinstance(expr, ast.Dict) else expr.elts
        keys = expr.keys if isinstance(expr, ast.Dict) else [1] * len(vals)
        inner = [(_fresh_depth(v, fn, seen) if k is not None else 0) for k, v in zip(keys, vals)]
        return 1 + (min(inner) if inner else 99)
    if isinstance(expr, (ast.DictComp,)):
        return 1 + _fresh_depth(expr.value, fn, seen)
    if isinstance(expr, (ast.ListComp, ast.SetComp)):
        return 1 + _fresh_depth(expr.elt, fn, seen)
    if isinstance(expr, ast.Call):
        d = A.dotted(expr.func) or ''
        if isinstance(expr.func, ast.Attribute) and expr.func.attr == 'copy' and not expr.args:
            return 1
        if d in ('dict', 'list', 'set', 'tuple') :
            return 1
        if d in ('copy.deepcopy', 'deepcopy', 'json.loads', 'json.load', 'pickle.loads'):
            return 99
        if d in ('copy.copy',):
            return 1
        return 0
    if isinstance(expr, ast.Name):
        if expr.id in seen:
            return 0
        defs = flow.assigned_names(fn).get(expr.id)
        if not defs:
            return 0
        return min(_fresh_depth(d, fn, seen | {expr.id}) for d in defs)
    if isinstance(expr, ast.Constant):
        return 99
    return 0


def _mutations(fn):
    """(node, receiver expr, depth of subscripts between root and mutated object, what)"""
    out = []
    for n in A.walk_local(fn):
        if isinstance(n, ast.Call) and isinstance(n.func, ast.Attribute) and n.func.attr in MUTATORS:
            out.append((n, n.func.value, n.func.attr))
        elif isinstance(n, (ast.Assign, ast.AugAssign, ast.Delete)):
            targets = n.targets if isinstance(n, (ast.Assign, ast.Delete)) else [n.target]
            for t in targets:
                for tt in (t.elts if isinstance(t, (ast.Tuple, ast.List)) else [t]):
                    if isinstance(tt, ast.Subscript):
                        out.append((n, tt.value, 'store'))
                    elif isinstance(tt, ast.Attribute) and not A.is_name(tt.value, 'self'):
                        out.append((n, tt.value, 'attr-store'))
    return out


def rule_nm(ctx):
    rep = ctx.report
    db = ctx.repo.module('database')
    n_mut = 0
    for mod, fn in ctx.repo.all_functions():
        if mod is not db or isinstance(fn, ast.Lambda) or ctx.repo.is_new_private_helper(fn):
            continue
        qual = ctx.repo.qualname_of(fn)
        for node, recv, what in _mutations(fn):
            n_mut += 1
            depth = 1
            root = recv
            while isinstance(root, ast.Subscript) or (
                    isinstance(root, ast.Call) and isinstance(root.func, ast.Attribute)
                    and root.func.attr in ('setdefault', 'get') and root.args):
                # X[k] and X.setdefault(k, fresh) / X.get(k, fresh) denote an object one level below X
                root = root.value if isinstance(root, ast.Subscript) else root.func.value
                depth += 1
            ok = False
            why = ''
            if isinstance(root, ast.Attribute) and A.is_name(root.value, 'self'):
                if root.attr in PRIVATE_STATE:
                    ok = True
                else:
                    # property returning source data?
                    why = 'receiver self.%s is the (caller-owned) database dictionary' % root.attr
            elif isinstance(root, ast.Name):
                fd = _fresh_depth(root, fn)
                ok = fd >= depth
                why = '' if ok else '`%s` is only fresh to depth %d but the write happens at depth %d: it reaches ' \
                                    'an object owned by the caller' % (root.id, fd, depth)
            elif isinstance(root, ast.Call):
                fd = _fresh_depth(root, fn)
                ok = fd >= depth
                why = '' if ok else 'receiver %s is not a fresh object' % A.short(root)
            else:
                why = 'receiver %s of unknown provenance' % A.short(root)
            det = 'mutates-source(%s)' % what if not ok else 'mutation-on-fresh(%s:%s)' % (A.short(recv, 30), what)
            rep.ob('NM', K.key(qual, None, det), ok, node, why)
    rep.floor('mutating operations in database.py', n_mut, 3)


def _const_str(e):
    return e.value if isinstance(e, ast.Constant) and isinstance(e.value, str) else None


def rule_ok(ctx):
    rep = ctx.report
    db = ctx.repo.module('database')
    checked = 0
    for mod, fn in ctx.repo.all_functions():
        if mod is not db or isinstance(fn, ast.Lambda) or ctx.repo.is_new_private_helper(fn):
            continue
        qual = ctx.repo.qualname_of(fn)
        optional = {}   # (container src, key) -> node
        for n in A.walk_local(fn):
            if isinstance(n, ast.Call) and isinstance(n.func, ast.Attribute) and n.func.attr in ('get', 'setdefault') \
                    and n.args and _const_str(n.args[0]) is not None:
                optional[(A.src(n.func.value), _const_str(n.args[0]))] = n
            if isinstance(n, ast.Compare) and len(n.ops) == 1 and isinstance(n.ops[0], (ast.In, ast.NotIn)) \
                    and _const_str(n.left) is not None:
                optional[(A.src(n.comparators[0]), _const_str(n.left))] = n
        for (cont, key), where in optional.items():
            for n in A.walk_local(fn):
                if isinstance(n, ast.Subscript) and isinstance(n.ctx, ast.Load) and A.src(n.value) == cont \
                        and _const_str(n.slice) == key:
                    checked += 1
                    guarded = False
                    for test, branch in flow.guards_of(n, fn):
                        for c in ast.walk(test):
                            if isinstance(c, ast.Compare) and len(c.ops) == 1 and _const_str(c.left) == key \
                                    and A.src(c.comparators[0]) == cont:
                                if isinstance(c.ops[0], ast.In) and branch:
                                    guarded = True
                                if isinstance(c.ops[0], ast.NotIn) and not branch:
                                    guarded = True
                    # a dominating store / setdefault in the same or an enclosing block, earlier
                    for m in A.walk_local(fn):
                        if getattr(m, 'lineno', 10 ** 9) < n.lineno:
                            if isinstance(m, ast.Assign) and any(
                                    isinstance(t, ast.Subscript) and A.src(t.value) == cont and _const_str(t.slice) == key
                                    for t in m.targets) and not flow.guards_of(m, fn):
                                guarded = True
                            if isinstance(m, ast.Expr) and isinstance(m.value, ast.Call) and \
                                    isinstance(m.value.func, ast.Attribute) and m.value.func.attr == 'setdefault' \
                                    and A.src(m.value.func.value) == cont and m.value.args \
                                    and _const_str(m.value.args[0]) == key and all(
                                        any(g2 is g1 for g2, _b in flow.guards_of(n, fn))
                                        for g1, _b in flow.guards_of(m, fn)):
                                guarded = True
                    rep.ob('OK', K.key(qual, None, 'optional-key-contradiction(%r)' % key), guarded, n,
                           '' if guarded else '%s treats key %r of `%s` as optional (%s) but subscripts it '
                           'unconditionally here: KeyError when it is absent' % (fn.name, key, cont, A.short(where, 40)))
        # statistics
    rep.count('optional-key subscripts checked', checked)
    rep.summary('OK', 'database::optional-keys-consistent',
                '%d subscripts of keys that are optional elsewhere' % checked, nontrivial=False)


def rule_dup(ctx):
    rep = ctx.report
    db = ctx.repo.module('database')
    fn = db.functions.get('_merge_database_dicts')
    if fn is None:
        raise AnalysisError('anchor vanished: database._merge_database_dicts')
    merges = [n for n in A.walk_local(fn) if isinstance(n, ast.Call) and isinstance(n.func, ast.Attribute)
              and n.func.attr == 'update']
    rep.floor('section merges', len(merges), 2)
    asserts = [n for n in A.walk_local(fn) if isinstance(n, ast.Assert)]
    assigns = [n for n in A.walk_local(fn) if isinstance(n, ast.Assign) and len(n.targets) == 1 and isinstance(n.targets[0], ast.Name)]
    # `s |= more` / `s += more` on a name counts as the definition `s = s | more` for the purpose of expansion
    for n in A.walk_local(fn):
        if isinstance(n, ast.AugAssign) and isinstance(n.target, ast.Name):
            syn = ast.Assign(targets=[ast.Name(id=n.target.id, ctx=ast.Store())],
                             value=ast.BinOp(left=ast.Name(id=n.target.id, ctx=ast.Load()), op=n.op, right=n.value))
            ast.copy_location(syn, n)
            syn.lineno = n.lineno
            syn._parent = A.parent(n)
            syn._src_line = getattr(n, '_src_line', n.lineno)
            assigns.append(syn)

    # the accumulator the sections are merged into is an object that changes: it is never replaced by its initial value
    no_expand = {r_ for m_ in merges for r_ in A.names_in(m_.func.value)[:1]}

    def latest_def(name, before):
        c = [n for n in assigns if n.targets[0].id == name and n.lineno < before]
        return max(c, key=lambda n: n.lineno) if c else None

    def expand_at(expr, line, used, depth=6):
        """expr with every local replaced by the value of its latest assignment before `line` (straight-line view of the
        loop body); `used` collects the assignments substituted"""
        if depth == 0:
            return expr

        class T(ast.NodeTransformer):
            def visit_Name(self, nd):
                if isinstance(nd.ctx, ast.Load) and nd.id not in no_expand:
                    d = latest_def(nd.id, line)
                    if d is not None:      # a self-referential update (`s = s | more`) expands through the earlier definition
                        used.append(d)
                        return expand_at(A.clone(d.value), d.lineno, used, depth - 1)
                return nd
        return T().visit(A.clone(expr))

    def intersection_sides(e):
        for x in ast.walk(e):
            if isinstance(x, ast.Call) and isinstance(x.func, ast.Attribute) and x.func.attr == 'intersection':
                if A.dotted(x.func.value) == 'set' and len(x.args) == 2:
                    yield x.args[0], x.args[1]
                elif len(x.args) == 1:
                    yield x.func.value, x.args[0]
            elif isinstance(x, ast.BinOp) and isinstance(x.op, ast.BitAnd):
                yield x.left, x.right

    def mentions_section(e, root, sect):
        return any((isinstance(x, ast.Subscript) and _const_str(x.slice) == sect and root in A.names_in(x.value))
                   or (isinstance(x, ast.Call) and isinstance(x.func, ast.Attribute) and x.func.attr in ('get', 'setdefault')
                       and x.args and _const_str(x.args[0]) == sect and root in A.names_in(x.func.value))
                   for x in ast.walk(e))
    taken_exprs = []      # (expanded expression of the taken names, assignments it was expanded through, assert)
    for m in merges:
        incoming = m.args[0] if m.args else None
        sect = None
        for x in ast.walk(incoming) if incoming is not None else []:
            if isinstance(x, ast.Subscript) and _const_str(x.slice):
                sect = _const_str(x.slice)
        part = (A.names_in(incoming) or [None])[0] if incoming is not None else None
        ok = False
        polarity_bad = []
        for a in asserts:
            if a.lineno > m.lineno:
                continue
            # the assert is on the path to the merge
            if not all(any(g2 is g1 for g2, _b in flow.guards_of(m, fn)) for g1, _b in flow.guards_of(a, fn)):
                continue
            # the assertion states that the overlap is EMPTY: `not dup`, `len(dup) == 0`, `dup == set()`
            t_, neg_ = A.strip_not(a.test)
            subject = t_
            if isinstance(t_, ast.Name) or (isinstance(t_, ast.Call) and A.dotted(t_.func) in ('len', 'bool', 'any')) or (
                    isinstance(t_, ast.Call) and isinstance(t_.func, ast.Attribute) and t_.func.attr == 'intersection') or (
                    isinstance(t_, ast.BinOp)):
                states_empty = neg_
            elif isinstance(t_, ast.Compare) and len(t_.ops) == 1:
                rhs = t_.comparators[0]
                zero = A.int_value(rhs) == 0 or (isinstance(rhs, ast.Call) and A.dotted(rhs.func) == 'set' and not rhs.args)
                states_empty = zero and (isinstance(t_.ops[0], ast.Eq) != neg_)
                subject = t_.left
            elif isinstance(t_, ast.Call) and isinstance(t_.func, ast.Attribute) and t_.func.attr == 'isdisjoint' and len(t_.args) == 1:
                states_empty = not neg_
                subject = ast.BinOp(left=t_.func.value, op=ast.BitAnd(), right=t_.args[0])
            else:
                states_empty = None
            used = []
            e = expand_at(subject, a.lineno, used)
            hit = None
            for l_, r_ in intersection_sides(e):
                for inc_side, other in ((l_, r_), (r_, l_)):
                    if part and sect and mentions_section(inc_side, part, sect) and not mentions_section(other, part, sect):
                        hit = other
            if hit is None:
                continue
            if states_empty is False:
                polarity_bad.append(a)
                continue
            if states_empty is None:
                continue
            ok = True
            taken_exprs.append((hit, used, a))
        rep.ob('DUP', K.key('database._merge_database_dicts', None, 'merge(%s)-preceded-by-duplicate-assert' % sect),
               ok, m, '' if ok else ('the assertion before merging the %r section demands a NON-empty overlap (`%s`)' % (
                   sect, A.short(polarity_bad[0].test, 50)) if polarity_bad else
                   'the %r section is merged without a dominating assertion that its names do not '
                   'collide with the accumulated dataset and alias names' % sect))
    # the alias section is optional in every part: every read of <part>['alias'] is guarded by membership
    for n in A.walk_local(fn):
        if isinstance(n, ast.Subscript) and isinstance(n.ctx, ast.Load) and _const_str(n.slice) == 'alias':
            cont = A.src(n.value)
            guarded = any(isinstance(c, ast.Compare) and _const_str(c.left) == 'alias' and A.src(c.comparators[0]) == cont
                          and ((isinstance(c.ops[0], ast.In) and b) or (isinstance(c.ops[0], ast.NotIn) and not b))
                          for t, b in flow.guards_of(n, fn) for c in ast.walk(t))
            rep.ob('OK', 'database._merge_database_dicts::alias-section-optional(%s)' % cont, guarded, n,
                   '' if guarded else '`%s[\'alias\']` is read without testing `\'alias\' in %s`: a description without alias '
                   'section (allowed, see Database.data) raises KeyError when merged' % (cont, cont))
    # the accumulated names contain both datasets and aliases (of the accumulator the sections are merged into)
    acc = None
    for m in merges:
        r = A.names_in(m.func.value)
        acc = r[0] if r else acc
    ok = bool(taken_exprs) and all(mentions_section(t, acc, 'datasets') and mentions_section(t, acc, 'alias') for t, _u, _a in taken_exprs)
    rep.ob('DUP', 'database._merge_database_dicts::names=datasets|aliases', ok, taken_exprs[0][2] if taken_exprs else fn,
           '' if ok else 'the set of taken names must include dataset names and alias names of the accumulated description')
    # the taken names are current when each part is checked: parts are merged one after the other in a loop, so every
    # value read from the accumulator on the way to the overlap test is computed inside that loop (or extended there)
    loops = [l for m in merges for l in A.ancestors(m) if isinstance(l, (ast.For, ast.While))]
    if loops and taken_exprs:
        loop = loops[0]

        def inside(n):
            return any(a is loop for a in A.ancestors(n))
        stale = {}
        for _t, used, _a in taken_exprs:
            for d in used:
                if acc in A.names_in(d.value) and not inside(d):
                    nm = d.targets[0].id
                    grows = [n for n in A.walk_local(loop) if (isinstance(n, ast.Call) and isinstance(n.func, ast.Attribute)
                                                               and A.is_name(n.func.value, nm) and n.func.attr in ('update', 'add'))
                             or (isinstance(n, ast.AugAssign) and A.is_name(n.target, nm) and isinstance(n.op, ast.BitOr))]
                    if len(grows) < len([m for m in merges if inside(m)]):
                        stale[nm] = d
        for nm, d in sorted(stale.items()):
            rep.ob('DUP', 'database._merge_database_dicts::taken-names-current-for-every-part(%s)' % nm, False, d,
                   '`%s` is computed once before the merge loop and never extended in it: names merged from '
                   'part k are unknown when part k+1 is checked, so duplicate dataset / alias names between two later '
                   'parts are accepted and silently overwrite each other' % nm)
        if not stale:
            rep.ob('DUP', 'database._merge_database_dicts::taken-names-current-for-every-part', True, loop)
    # later parts restricted to datasets/alias
    # get_examples: alias union asserts disjoint ids
    dbc = ctx.repo.cls('database.Database')
    ge = dbc.own('get_examples').node
    unions = [n for n in A.walk_local(ge) if isinstance(n, ast.Assign) and isinstance(n.value, ast.Dict)
              and sum(1 for k in n.value.keys if k is None) >= 2]
    rep.floor('alias unions', len(unions), 1)
    g_assigns = [n for n in A.walk_local(ge) if isinstance(n, ast.Assign) and len(n.targets) == 1 and isinstance(n.targets[0], ast.Name)]

    def g_expand(expr, line, depth=5, keep=()):
        class T(ast.NodeTransformer):
            def visit_Name(self, nd):
                if isinstance(nd.ctx, ast.Load) and depth > 0 and nd.id not in keep:
                    c = [n for n in g_assigns if n.targets[0].id == nd.id and n.lineno < line and not isinstance(n.value, ast.Dict)]
                    if c:
                        d = max(c, key=lambda n: n.lineno)
                        return g_expand(A.clone(d.value), d.lineno, depth - 1, keep)
                return nd
        return T().visit(A.clone(expr))

    def sides(e):
        for x in ast.walk(e):
            if isinstance(x, ast.Call) and isinstance(x.func, ast.Attribute) and x.func.attr == 'intersection':
                if A.dotted(x.func.value) == 'set' and len(x.args) == 2:
                    yield x.args[0], x.args[1]
                elif len(x.args) == 1:
                    yield x.func.value, x.args[0]
            elif isinstance(x, ast.BinOp) and isinstance(x.op, ast.BitAnd):
                yield x.left, x.right
            elif isinstance(x, ast.Call) and isinstance(x.func, ast.Attribute) and x.func.attr == 'isdisjoint' and len(x.args) == 1:
                yield x.func.value, x.args[0]
    for u in unions:
        ok = False
        spread = [v for k, v in zip(u.value.keys, u.value.values) if k is None]
        spread_names = [set(A.names_in(v)) for v in spread]
        blk = A.parent(u).body if hasattr(A.parent(u), 'body') else []
        for a in blk:
            if not (isinstance(a, ast.Assert) and a.lineno < u.lineno):
                continue
            t_, neg_ = A.strip_not(a.test)
            subject = t_
            if isinstance(t_, ast.Compare) and len(t_.ops) == 1:
                rhs = t_.comparators[0]
                zero = A.int_value(rhs) == 0 or (isinstance(rhs, ast.Call) and A.dotted(rhs.func) == 'set' and not rhs.args)
                empty = zero and (isinstance(t_.ops[0], ast.Eq) != neg_)
                subject = t_.left
            elif isinstance(t_, ast.Call) and isinstance(t_.func, ast.Attribute) and t_.func.attr == 'isdisjoint':
                empty = not neg_
            else:
                empty = neg_
            e = g_expand(subject, a.lineno, keep=set().union(*spread_names) if spread_names else ())
            for l_, r_ in sides(e):
                ln, rn = set(A.names_in(l_)), set(A.names_in(r_))
                if len(spread_names) >= 2 and ((spread_names[0] & ln and spread_names[1] & rn) or (spread_names[0] & rn and spread_names[1] & ln)):
                    ok = bool(empty)
        rep.ob('DUP', 'database.Database.get_examples::alias-union-asserts-disjoint-ids', ok, u,
               '' if ok else 'example dicts of an alias are merged without asserting that their ids do not overlap')


def rule_aug(ctx):
    rep = ctx.report
    dbc = ctx.repo.cls('database.Database')
    ge = dbc.own('get_examples').node
    params = [a.arg for a in ge.args.args][1:]
    found = False

    def check_aug(site, d, keyname, valname, container, covers_all):
        """d: the dict display built per example; keyname: loop variable holding the example id; valname: loop variable
        holding the stored example (or None); container: the expression of the examples dict"""
        kv = list(zip(d.keys, d.values))
        first = kv[0][1] if kv and kv[0][0] is None else None
        stored = first is not None and (
            (valname is not None and A.is_name(first, valname)) or (
                isinstance(first, ast.Subscript) and A.is_name(first.slice, keyname) and A.same(first.value, container)))
        byk = {_const_str(k): v for k, v in kv if k is not None}
        ok = len(kv) == 3 and stored and A.is_name(byk.get('example_id'), keyname) and A.is_name(byk.get('dataset'), params[0])
        rep.ob('AUG', 'database.Database.get_examples::example={**stored,example_id:id,dataset:name}', ok, site,
               '' if ok else 'each returned example must be a new dict spreading the stored example first '
               'and then setting example_id to its key and dataset to the requested name; found ' + A.short(d, 80))
        rep.ob('AUG', 'database.Database.get_examples::augments-every-example', covers_all, site,
               '' if covers_all else 'the augmentation loop must range over all keys of the examples dict')

    def loop_vars(target, it):
        """-> (key variable, value variable or None, container expression, covers all entries?)"""
        if isinstance(it, ast.Call) and isinstance(it.func, ast.Attribute) and not it.args:
            if it.func.attr == 'keys' and isinstance(target, ast.Name):
                return target.id, None, it.func.value, True
            if it.func.attr == 'items' and isinstance(target, ast.Tuple) and len(target.elts) == 2 \
                    and all(isinstance(e, ast.Name) for e in target.elts):
                return target.elts[0].id, target.elts[1].id, it.func.value, True
        if isinstance(it, ast.Call) and A.dotted(it.func) in ('list', 'tuple', 'sorted') and len(it.args) == 1:
            return loop_vars(target, it.args[0])
        if isinstance(it, (ast.Name, ast.Attribute)) and isinstance(target, ast.Name):
            return target.id, None, it, True
        return None
    for n in A.walk_local(ge):
        if isinstance(n, ast.For):
            lv = loop_vars(n.target, n.iter)
            if lv is None:
                continue
            for s in n.body:
                if isinstance(s, ast.Assign) and isinstance(s.value, ast.Dict) and isinstance(s.targets[0], ast.Subscript) \
                        and A.is_name(s.targets[0].slice, lv[0]):
                    found = True
                    check_aug(s, s.value, lv[0], lv[1], s.targets[0].value,
                              lv[3] and A.same(lv[2], s.targets[0].value) and not flow.enclosing_guards(s, n))
        if isinstance(n, ast.DictComp) and isinstance(n.value, ast.Dict) and len(n.generators) == 1:
            g_ = n.generators[0]
            lv = loop_vars(g_.target, g_.iter)
            if lv is not None and A.is_name(n.key, lv[0]):
                found = True
                check_aug(n, n.value, lv[0], lv[1], lv[2], lv[3] and not g_.ifs)
    if not found:
        raise AnalysisError('undecidable shape: augmentation loop of get_examples not found')
    # the non-alias branch copies the dataset dict before augmenting
    ok = False
    for n in A.walk_local(ge):
        if isinstance(n, ast.Assign) and isinstance(n.targets[0], ast.Name) and isinstance(n.value, ast.Dict) \
                and len(n.value.keys) == 1 and n.value.keys[0] is None and "['datasets']" in A.src(n.value.values[0]):
            ok = True
    rep.ob('AUG', 'database.Database.get_examples::dataset-dict-copied-before-augmentation', ok, ge,
           '' if ok else 'a plain dataset must be shallow-copied ({**...}) before its entries are replaced')
    # get_dataset builds from get_examples with the same name
    gd = dbc.own('_get_dataset').node
    ok = False
    for n in A.walk_local(gd):
        if isinstance(n, ast.Call) and (A.dotted(n.func) or '').endswith('from_dict') and n.args:
            src = flow.copy_prop(n.args[0], gd)
            if isinstance(src, ast.Call) and A.dotted(src.func) == 'self.get_examples' and A.is_name(src.args[0], 'name'):
                ok = any(kw.arg == 'name' and A.is_name(kw.value, 'name') for kw in n.keywords)
    rep.ob('AUG', 'database.Database._get_dataset::from_dict(get_examples(name),name=name)', ok, gd,
           '' if ok else 'the dataset must be built from get_examples(name) and carry the requested name')


def rule_memo(ctx):
    rep = ctx.report
    dbc = ctx.repo.cls('database.Database')
    # the memo belongs to one database: created on the instance in a constructor of the hierarchy; a class-level
    # container is shared by every database object (and every subclass), keyed by dataset name only
    shared = []
    for c in ctx.repo.module('database').classes.values():
        if dbc in c.mro:
            for st in c.node.body:
                if isinstance(st, (ast.Assign, ast.AnnAssign)) and isinstance(getattr(st, 'value', None), (ast.Call, ast.Dict, ast.List, ast.Set)):
                    tg = st.targets[0] if isinstance(st, ast.Assign) else st.target
                    if isinstance(tg, ast.Name) and ('weak' in tg.id or 'cache' in tg.id or 'memo' in tg.id or isinstance(st.value, (ast.Dict, ast.List, ast.Set))
                                                     or (A.dotted(st.value.func) or '').split('.')[-1] in ('WeakValueDictionary', 'dict', 'list', 'set', 'defaultdict', 'OrderedDict')):
                        shared.append((c, tg.id, st))
    rep.ob('MEMO', 'database.Database::no-container-shared-between-database-objects', not shared,
           shared[0][2] if shared else dbc.node,
           '' if not shared else '%s.%s is a class attribute holding a mutable container: it is shared by all database objects, so a '
           'dataset built by one database is served by another one for the same name' % (shared[0][0].name, shared[0][1]))
    im = dbc.own('__init__')
    if im is None:
        rep.ob('MEMO', 'database.Database.__init__::memo-is-weak', False, dbc.node,
               'Database has no constructor that creates the per-object dataset memo')
        init = None
    else:
        init = im.node
        ok = any(isinstance(n, ast.Assign) and A.is_self_attr(n.targets[0], '_dataset_weak_ref_dict')
                 and isinstance(n.value, ast.Call) and (A.dotted(n.value.func) or '').endswith('WeakValueDictionary')
                 for n in A.walk_local(init))
        rep.ob('MEMO', 'database.Database.__init__::memo-is-weak', ok, init,
               '' if ok else 'the dataset memo must be a weakref.WeakValueDictionary (a strong dict keeps every dataset alive)')
    gd = dbc.own('_get_dataset').node
    lookup = store = build = None
    for n in A.walk_local(gd):
        if isinstance(n, ast.Return) and isinstance(n.value, ast.Subscript) \
                and A.is_self_attr(n.value.value, '_dataset_weak_ref_dict') and A.is_name(n.value.slice, 'name'):
            lookup = n
        if isinstance(n, ast.Assign) and isinstance(n.targets[0], ast.Subscript) \
                and A.is_self_attr(n.targets[0].value, '_dataset_weak_ref_dict'):
            store = n
        if isinstance(n, ast.Call) and A.dotted(n.func) == 'self.get_examples':
            build = n
    ok = lookup is not None and build is not None and lookup.lineno < build.lineno and any(
        isinstance(a, ast.Try) for a in A.ancestors(lookup))
    rep.ob('MEMO', 'database.Database._get_dataset::memo-consulted-before-building', ok, lookup or gd,
           '' if ok else 'the memo must be looked up (and returned from) before get_examples is called')
    ok = store is not None and A.is_name(store.targets[0].slice, 'name') and isinstance(store.value, ast.Name)
    if ok:
        rets = [r for r in flow.returns_of(gd) if r.value is not None and A.is_name(r.value, store.value.id)]
        ok = bool(rets) and rets[-1].lineno > store.lineno
    rep.ob('MEMO', 'database.Database._get_dataset::built-dataset-stored-under-its-name-and-returned', ok, store or gd,
           '' if ok else 'the freshly built dataset must be stored under `name` and be the object returned')
    # list path
    ok = False
    for n in A.walk_local(gd):
        if isinstance(n, ast.Return) and isinstance(n.value, ast.Call) and (A.dotted(n.value.func) or '').endswith('concatenate'):
            arg = n.value.args[0] if n.value.args else None
            if isinstance(arg, ast.Starred):
                src = flow.copy_prop(arg.value, gd)
                if isinstance(src, ast.ListComp) and not src.generators[0].ifs and A.is_name(src.generators[0].iter, 'name') \
                        and isinstance(src.elt, ast.Call) and A.dotted(src.elt.func) == 'self._get_dataset' \
                        and A.is_name(src.elt.args[0], src.generators[0].target.id):
                    ok = True
    rep.ob('MEMO', 'database.Database._get_dataset::list=concatenate(recursive results in given order)', ok, gd,
           '' if ok else 'a list of names must give concatenate(*[self._get_dataset(n) for n in name])')
    # alias / names
    # the alias branch may live in get_examples or in a helper it calls (inlined by the normaliser)
    ok = False
    for mname, mem_ in dbc.members.items():
        if not mem_.is_function:
            continue
        gx = mem_.node
        for n in A.walk_local(gx):
            if isinstance(n, ast.For):
                src = flow.copy_prop(n.iter, gx)
                if isinstance(src, ast.Subscript) and A.src(src.value) == 'self.alias' and isinstance(src.slice, ast.Name) \
                        and isinstance(n.target, ast.Name):
                    member = n.target.id
                    reads = [x for x in A.walk_stmts(n.body) if isinstance(x, ast.Subscript) and A.is_name(x.slice, member)
                             and "['datasets']" in A.src(x.value)]
                    unfiltered = not any(isinstance(x, (ast.Continue, ast.Break)) for x in A.walk_stmts(n.body))
                    if reads and unfiltered:
                        ok = True
    rep.ob('MEMO', 'database.Database.get_examples::alias-members-in-listed-order', ok, dbc.node,
           '' if ok else 'an alias must be resolved by walking self.alias[name] in order and reading data[\'datasets\'][member]')


def rule_red(ctx):
    rep = ctx.report
    jc = ctx.repo.cls('database.JsonDatabase')
    rm = jc.own('__reduce__')
    if rm is None:
        raise AnalysisError('anchor vanished: JsonDatabase.__reduce__')
    fn = rm.node
    rets = [r for r in flow.returns_of(fn) if r.value is not None]
    ok = False
    forced = False
    for n in A.walk_local(fn):
        if isinstance(n, ast.Attribute) and A.is_self_attr(n, 'data') and rets and n.lineno < rets[0].lineno:
            forced = True
    if rets and isinstance(rets[0].value, ast.Tuple) and len(rets[0].value.elts) == 3:
        c, args, state = rets[0].value.elts
        ok = A.src(c) in ('JsonDatabase', 'self.__class__', 'type(self)') and isinstance(args, ast.Tuple) \
            and len(args.elts) == 1 and A.is_self_attr(args.elts[0], '_json_path') and isinstance(state, ast.Dict) \
            and any(_const_str(k) == '_data' and A.is_self_attr(v, '_data') for k, v in zip(state.keys, state.values))
    rep.ob('RED', 'database.JsonDatabase.__reduce__::loads-then-returns(cls,(paths,),{_data})', ok and forced, fn,
           '' if ok and forced else 'pickling must force the load and carry the paths and the loaded data')
    # data property: memoised load merges all paths in order
    dm = jc.own('data')
    ok = False
    if dm is not None:
        for n in A.walk_local(dm.node):
            if isinstance(n, ast.Call) and A.dotted(n.func) == '_merge_database_dicts':
                arg = n.args[0] if n.args else None
                it_ = flow.list_built_over(arg, dm.node) if isinstance(arg, ast.Starred) else None
                if it_ is not None and A.is_self_attr(it_, '_json_path'):
                    ok = True
    rep.ob('RED', 'database.JsonDatabase.data::merges-every-path-in-order', ok, dm.node if dm else jc.node,
           '' if ok else 'data must merge the JSON of every path in self._json_path, in order')
    dd = ctx.repo.cls('database.DictDatabase').own('__init__').node
    ok = any(isinstance(n, ast.Call) and A.dotted(n.func) == '_merge_database_dicts' and n.args
             and isinstance(n.args[0], ast.Starred) for n in A.walk_local(dd))
    rep.ob('RED', 'database.DictDatabase.__init__::merges-all-given-dicts', ok, dd, '')


def run(ctx):
    rule_nm(ctx)
    rule_ok(ctx)
    rule_dup(ctx)
    rule_aug(ctx)
    rule_memo(ctx)
    rule_red(ctx)
