"""Shared recognisers for the two concurrency helpers (parallel_utils) used by C04-C07."""
import ast

from .. import astutil as A
from .. import flow
from ..cfg import CFG, normal, node_roots, node_contains
from ..model import AnalysisError


class LPM:
    """lazy_parallel_map, bound by role"""

    def __init__(self, ctx):
        self.ctx = ctx
        self.mod = ctx.repo.module('parallel_utils')
        self.fn = self.mod.functions.get('lazy_parallel_map')
        if self.fn is None:
            raise AnalysisError('anchor vanished: parallel_utils.lazy_parallel_map')
        fn = self.fn
        sig = flow.signature(fn, skip_self=False)
        self.params = sig['pos'] + sig['kwonly']
        for p in ('function', 'generator', 'buffer_size', 'max_workers', 'backend'):
            if p not in self.params:
                raise AnalysisError('anchor vanished: lazy_parallel_map parameter %r' % p)
        # the queue: local bound to a queue.* constructor
        self.q_assigns = [n for n in A.walk_local(fn) if isinstance(n, ast.Assign) and isinstance(n.targets[0], ast.Name)
                          and isinstance(n.value, ast.Call) and (self.mod.resolve_name(A.dotted(n.value.func) or '') or '').startswith('queue.')]
        if not self.q_assigns:
            # also lists / deques used as queue
            self.q_assigns = [n for n in A.walk_local(fn) if isinstance(n, ast.Assign) and isinstance(n.targets[0], ast.Name)
                              and n.targets[0].id == 'q']
        if not self.q_assigns:
            raise AnalysisError('undecidable shape: lazy_parallel_map has no future queue')
        self.q = self.q_assigns[0].targets[0].id
        withs = [n for n in fn.body if isinstance(n, ast.With)]
        if len(withs) != 1:
            raise AnalysisError('undecidable shape: lazy_parallel_map has %d top-level with blocks' % len(withs))
        self.with_ = withs[0]
        self.executor = self.with_.items[0].optional_vars.id if isinstance(self.with_.items[0].optional_vars, ast.Name) else None
        self.loops = [n for n in A.walk_stmts(self.with_.body) if isinstance(n, ast.For)
                      and A.is_name(flow.copy_prop(n.iter, fn), 'generator')]
        if len(self.loops) != 1:
            src_loops = [n for n in A.walk_stmts(self.with_.body) if isinstance(n, (ast.For, ast.While))]
            raise AnalysisError('undecidable shape: submit loop over `generator` not found (%d loops)' % len(src_loops))
        self.loop = self.loops[0]
        self.cfg = CFG(fn)
        # the three adapter slots, bound by role (not by name):
        #   submit    = the callable whose result is put into the queue inside the submit loop
        #   result    = the callable applied to q.get() in the deliveries
        #   terminate = the callable that the GeneratorExit handler calls with the queue
        self.n_submit = self.n_result = self.n_terminate = None
        for c in A.walk_stmts(self.loop.body):
            if isinstance(c, ast.Call) and isinstance(c.func, ast.Attribute) and c.func.attr in ('put', 'put_nowait') \
                    and self.is_q(c.func.value) and c.args:
                a0 = flow.copy_prop(c.args[0], fn)
                if isinstance(a0, ast.Call) and isinstance(a0.func, ast.Name):
                    self.n_submit = a0.func.id
        for y in A.yields_in(fn):
            v = getattr(y, 'value', None)
            if isinstance(v, ast.Call) and isinstance(v.func, ast.Name) and v.args and isinstance(v.args[0], ast.Call) \
                    and isinstance(v.args[0].func, ast.Attribute) and self.is_q(v.args[0].func.value):
                self.n_result = v.func.id
        for h in [h for t in A.walk_stmts(self.with_.body) if isinstance(t, ast.Try) for h in t.handlers]:
            if h.type is not None and A.src(h.type) == 'GeneratorExit':
                for c in A.walk_stmts(h.body):
                    if isinstance(c, ast.Call) and isinstance(c.func, ast.Name) and any(self.is_q(a) for a in c.args):
                        self.n_terminate = c.func.id
        if self.n_submit is None:
            # a submit whose future is first bound to a local (seeded shape): the only nested-def call with the executor
            for c in A.walk_stmts(self.loop.body):
                if isinstance(c, ast.Call) and isinstance(c.func, ast.Name) and c.args and A.is_name(c.args[0], self.executor or '\0'):
                    self.n_submit = c.func.id
        self.n_submit = self.n_submit or 'submit'
        self.n_result = self.n_result or 'result'
        self.n_terminate = self.n_terminate or 'terminate'
        # backend branches
        self.branches = self._branches()

    def is_q(self, e):
        return A.is_name(e, self.q)

    def q_calls(self, root, method):
        return [n for n in (A.walk_local(root) if not isinstance(root, list) else A.walk_stmts(root))
                if isinstance(n, ast.Call) and isinstance(n.func, ast.Attribute)
                and n.func.attr == method and self.is_q(n.func.value)]

    # the documented values of `backend` (docstring of lazy_parallel_map) plus one undocumented value
    BACKENDS = ['mp', 'multiprocessing', 'dill_mp', 't', 'thread', 'concurrent_mp', False]
    UNKNOWN = '<any other value>'

    @staticmethod
    def eval_test(test, value, name='backend'):
        """truth of `test` when <name> == value; None if it depends on something else"""
        if isinstance(test, ast.UnaryOp) and isinstance(test.op, ast.Not):
            r = LPM.eval_test(test.operand, value, name)
            return None if r is None else not r
        if isinstance(test, ast.BoolOp):
            rs = [LPM.eval_test(v, value, name) for v in test.values]
            if isinstance(test.op, ast.And):
                return False if False in rs else (None if None in rs else True)
            return True if True in rs else (None if None in rs else False)
        if isinstance(test, ast.Compare) and len(test.ops) == 1 and A.is_name(test.left, name):
            op, rhs = test.ops[0], test.comparators[0]

            def same(v):
                return (v is value) if (isinstance(value, bool) or isinstance(v, bool)) else (v == value)
            if isinstance(rhs, (ast.List, ast.Tuple, ast.Set)) and isinstance(op, (ast.In, ast.NotIn)):
                if not all(isinstance(e, ast.Constant) for e in rhs.elts):
                    return None
                r = any(same(e.value) for e in rhs.elts)
                return r if isinstance(op, ast.In) else not r
            if not isinstance(rhs, ast.Constant):
                return None
            if isinstance(op, (ast.Eq, ast.Is)):
                return same(rhs.value)
            if isinstance(op, (ast.NotEq, ast.IsNot)):
                return not same(rhs.value)
        return None

    @staticmethod
    def run_stmts(stmts, value, out, name='backend', fn=None):
        """statements executed for this backend value, in order; stops at a raise. Returns False when it raised."""
        from .. import flow as _flow
        for st in stmts:
            test = _flow.expand(st.test, fn) if (fn is not None and isinstance(st, ast.If)) else getattr(st, 'test', None)
            if isinstance(st, ast.If) and any(A.is_name(x, name) for x in ast.walk(test)):
                r = LPM.eval_test(test, value, name)
                if r is None:
                    out.append(('undecided', st))
                    return True
                if not LPM.run_stmts(st.body if r else st.orelse, value, out, name, fn):
                    return False
            elif isinstance(st, ast.Raise):
                out.append(('raise', st))
                return False
            else:
                out.append(('stmt', st))
        return True

    def dispatch(self):
        """the statement(s) of the function body that dispatch on `backend` and define the adapters"""
        from .. import flow as _flow
        d = [n for n in self.fn.body if isinstance(n, ast.If) and any(A.is_name(x, 'backend') for x in ast.walk(_flow.expand(n.test, self.fn))) and any(
            isinstance(x, A.FUNC_TYPES) for x in ast.walk(n))]
        if not d:
            raise AnalysisError('undecidable shape: backend dispatch chain not found')
        # with the canonical early-exit form the chain may continue after the first `if`
        k = [i for i, n in enumerate(self.fn.body) if n is d[0]][0]
        tail = []
        for n in self.fn.body[k:]:
            if n is self.with_ or any(x is self.with_ for x in ast.walk(n)):
                break
            tail.append(n)
        return tail

    def _branches(self):
        """list of (label, stmts, node): the statements executed for each documented backend value, obtained by
        evaluating the dispatch for that value (values that execute the same statements share one entry). The polarity
        and nesting of the tests do not matter."""
        disp = self.dispatch()
        groups = []
        self.else_body = []
        for value in self.BACKENDS + [self.UNKNOWN]:
            out = []
            self.run_stmts(disp, 'no-such-backend' if value is self.UNKNOWN else value, out, fn=self.fn)
            stmts = [st for k, st in out if k in ('stmt', 'raise')]
            if value is self.UNKNOWN:
                self.else_body = stmts
                continue
            for g in groups:
                if len(g[1]) == len(stmts) and all(a is b for a, b in zip(g[1], stmts)):
                    g[0].append(value)
                    break
            else:
                groups.append(([value], stmts))
        out = []
        self.branch_values = {}
        for values, stmts in groups:
            node = stmts[0] if stmts else disp[0]
            self.branch_values['backend in %r' % (values,) if len(values) > 1 else 'backend == %r' % (values[0],)] = values
            out.append(('backend in %r' % (values,) if len(values) > 1 else 'backend == %r' % (values[0],), stmts, node))
        return out

    def adapters(self, stmts):
        """nested defs of one backend branch by role: {'submit': def, 'result': def, 'terminate': def}"""
        role = {self.n_submit: 'submit', self.n_result: 'result', self.n_terminate: 'terminate'}
        d = {}
        for s in stmts:
            if isinstance(s, A.FUNC_TYPES):
                d[role.get(s.name, s.name)] = s
        return d


class STP:
    """single_thread_prefetch, bound by role"""

    def __init__(self, ctx):
        self.ctx = ctx
        self.mod = ctx.repo.module('parallel_utils')
        self.fn = self.mod.functions.get('single_thread_prefetch')
        if self.fn is None:
            raise AnalysisError('anchor vanished: parallel_utils.single_thread_prefetch')
        fn = self.fn
        self.params = [a.arg for a in fn.args.args]
        if 'buffer_size' not in self.params or 'generator' not in self.params:
            raise AnalysisError('anchor vanished: single_thread_prefetch(generator, buffer_size)')
        qa = [n for n in A.walk_local(fn) if isinstance(n, ast.Assign) and isinstance(n.targets[0], ast.Name)
              and isinstance(n.value, ast.Call) and (self.mod.resolve_name(A.dotted(n.value.func) or '') or '').startswith('queue.')]
        if len(qa) != 1:
            raise AnalysisError('undecidable shape: single_thread_prefetch has %d queue constructions' % len(qa))
        self.q_assign = qa[0]
        self.q = qa[0].targets[0].id
        # the worker: function passed as target= to threading.Thread
        self.thread_calls = [n for n in A.walk_local(fn) if isinstance(n, ast.Call) and
                             (self.mod.resolve_name(A.dotted(n.func) or '') or '') == 'threading.Thread']
        if not self.thread_calls:
            raise AnalysisError('undecidable shape: no threading.Thread in single_thread_prefetch')
        tgt = [kw.value for kw in self.thread_calls[0].keywords if kw.arg == 'target']
        if not tgt and len(self.thread_calls[0].args) >= 2:
            tgt = [self.thread_calls[0].args[1]]
        wname = tgt[0].id if tgt and isinstance(tgt[0], ast.Name) else None
        ws = [s for s in fn.body if isinstance(s, A.FUNC_TYPES) and s.name == wname]
        if not ws:
            raise AnalysisError('undecidable shape: worker function (Thread target) not found')
        self.worker = ws[0]
        # sentinel: a name bound to object()
        sa = [n for n in A.walk_local(fn) if isinstance(n, ast.Assign) and isinstance(n.value, ast.Call)
              and A.dotted(n.value.func) == 'object' and isinstance(n.targets[0], ast.Name)]
        if len(sa) != 1:
            raise AnalysisError('undecidable shape: %d sentinel objects in single_thread_prefetch' % len(sa))
        self.sentinel = sa[0].targets[0].id
        # the shutdown flag: boolean local that the consumer's finally sets to True and the worker reads
        tries = [s for s in fn.body if isinstance(s, ast.Try) and s.finalbody]
        if len(tries) != 1:
            raise AnalysisError('undecidable shape: consumer try/finally not found')
        self.consumer_try = tries[0]
        flags = [s.targets[0].id for s in self.consumer_try.finalbody if isinstance(s, ast.Assign)
                 and isinstance(s.targets[0], ast.Name) and A.is_const(s.value, True)]
        flags = [f for f in flags if any(A.is_name(x, f) for x in ast.walk(self.worker))]
        if len(flags) != 1:
            raise AnalysisError('undecidable shape: shutdown flag (set in the consumer\'s finally, read by the worker) not found')
        self.flag = flags[0]
        # the error slot: name assigned in a handler of the worker
        self.exc_names = sorted({n.targets[0].id for h in ast.walk(self.worker) if isinstance(h, ast.ExceptHandler)
                                 for n in A.walk_stmts(h.body) if isinstance(n, ast.Assign) and isinstance(n.targets[0], ast.Name)})
        self.wcfg = CFG(self.worker)
        self.cfg = CFG(fn)

    def q_calls(self, root, method):
        return [n for n in A.walk_local(root) if isinstance(n, ast.Call) and isinstance(n.func, ast.Attribute)
                and n.func.attr == method and A.is_name(n.func.value, self.q)]

    def worker_puts(self):
        """(item puts, sentinel puts) as CFG nodes of the worker"""
        item, sent = [], []
        for nd in self.wcfg.stmt_nodes():
            if nd.kind != 'stmt':
                continue
            for r in node_roots(nd):
                for c in A.walk_local(r):
                    if isinstance(c, ast.Call) and isinstance(c.func, ast.Attribute) and A.is_name(c.func.value, self.q) \
                            and c.func.attr in ('put', 'put_nowait'):
                        if c.args and A.is_name(c.args[0], self.sentinel):
                            sent.append(nd)
                        else:
                            item.append(nd)
        return item, sent

    def flag_tests(self):
        return [nd for nd in self.wcfg.nodes if nd.kind in ('test', 'while') and any(
            A.is_name(x, self.flag) for x in ast.walk(nd.ast.test))]
