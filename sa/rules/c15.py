"""C15 — shards partition the dataset.

G  both range guards raise ValueError before any slicing
D  shard(n, i) is split(n)[i]
PV section indices are np.array_split(np.arange(len(self)), sections), used completely and in order
"""
import ast

from .. import astutil as A
from .. import flow
from ..cfg import CFG, normal
from ..model import AnalysisError
from . import common as K

META = {
    'id': 'C15',
    'technique': 'comparison normalisation + CFG dominance for the two range guards; parameter-binding check of '
                 'shard; provenance (copy-propagated def-use) of the index sections',
    'explanation': 'Decides that Dataset.split raises ValueError exactly for sections < 1 and sections > len(self), '
                   'that both tests dominate the first subscript of self, that the returned list is `self[s]` for every '
                   's, unfiltered and in order, of np.array_split(np.arange(len(self)), sections), and that shard(n, i) '
                   'is split(n)[i]. That array_split yields an ordered partition whose part sizes differ by at most one '
                   'is numpy\'s contract and is trusted, not re-proved.',
    'not_decided': 'the partition arithmetic inside numpy.array_split',
    'assumptions': ['numpy.array_split(np.arange(n), k) returns k consecutive, disjoint, ordered index ranges '
                    'covering range(n) with sizes differing by at most one'],
}


def _guard_kind(test, param):
    """classify an if test: 'low' (param < 1), 'high' (param > len(self)) or None"""
    kind, ats = A.atoms(test)
    out = set()
    for a in ats:
        if len(a) != 3 or a[2] is None:
            continue
        r = A.norm_cmp(a[0], a[1], a[2], lambda e: A.is_name(e, param))
        if not r:
            continue
        op, other = r
        v = A.int_value(other)
        if v is not None:
            if (op == '<' and v == 1) or (op == '<=' and v == 0):
                out.add('low')
            elif op in ('<', '<=', '==', '>', '>='):
                out.add('low?:%s %s' % (op, v))
        elif isinstance(other, ast.Call) and A.dotted(other.func) == 'len' and other.args \
                and A.is_name(other.args[0], 'self'):
            if op == '>':
                out.add('high')
            else:
                out.add('high?:%s' % op)
    return kind, out


def run(ctx):
    rep = ctx.report
    base = ctx.repo.dataset_base()
    sp = base.own('split')
    sh = base.own('shard')
    if sp is None or sh is None:
        raise AnalysisError('anchor vanished: Dataset.split / Dataset.shard')
    fn = sp.node
    params = [a.arg for a in fn.args.args][1:]
    if not params:
        raise AnalysisError('Dataset.split has no sections parameter')
    sec = params[0]
    g = CFG(fn)
    low = high = None
    wrong = []
    for n in A.walk_local(fn):
        if isinstance(n, ast.If) and any(isinstance(x, ast.Raise) for x in n.body):
            kind, kinds = _guard_kind(n.test, sec)
            raises_value_error = any(isinstance(x, ast.Raise) and x.exc is not None and 'ValueError' in A.src(x.exc)
                                     for x in n.body)
            for k in kinds:
                if k == 'low' and raises_value_error:
                    low = n
                elif k == 'high' and raises_value_error:
                    high = n
                elif k.startswith('low?') or k.startswith('high?'):
                    wrong.append((n, k))
    subs = [nd for nd in g.stmt_nodes() if nd.kind == 'stmt' and any(
        isinstance(x, ast.Subscript) and A.is_name(x.value, 'self') for x in ast.walk(nd.ast))]
    if not subs:
        raise AnalysisError('undecidable shape: Dataset.split does not subscript self')

    def dominated(ifnode):
        tids = {nd.id for nd in g.node_of(ifnode)}
        for s in subs:
            p = g.path_avoiding(g.entry.id, lambda nd: nd.id == s.id, lambda nd: nd.id in tids, edge_ok=normal)
            if p is not None:
                return False
        return True
    ok_low = low is not None and dominated(low)
    rep.ob('G', K.key(base, 'split', 'rejects(sections<1)-before-slicing'), ok_low, low or fn,
           '' if ok_low else 'no `raise ValueError` guarded by exactly %s < 1 dominates the slicing%s' % (
               sec, '; found the off-by-one test %s' % wrong[0][1] if wrong else ''))
    ok_high = high is not None and dominated(high)
    rep.ob('G', K.key(base, 'split', 'rejects(sections>len)-before-slicing'), ok_high, high or fn,
           '' if ok_high else 'no `raise ValueError` guarded by exactly %s > len(self) dominates the slicing%s' % (
               sec, '; found %s' % wrong[0][1] if wrong else ''))
    # PS: the sections are a function of len(self) and `sections` alone: split consults no other state
    state = []
    for n in A.walk_local(fn):
        if isinstance(n, ast.Attribute) and isinstance(n.ctx, (ast.Load, ast.Store)) and (
                A.is_name(n.value, 'self') or A.src(n.value) in ('self.__class__', 'type(self)', 'Dataset')):
            if n.attr in ('__class__',):
                continue
            state.append(n)
        if isinstance(n, (ast.Global, ast.Nonlocal)):
            state.append(n)
    rep.ob('PS', K.key(base, 'split', 'sections-depend-only-on(len(self),sections)'), not state, state[0] if state else fn,
           '' if not state else 'split reads or writes state besides len(self) (%s): sections computed for one dataset / call '
           'leak into another (a cache keyed by `sections` alone returns the index ranges of a dataset of another length)'
           % A.short(state[0]))
    # PV
    rets = [r for r in flow.returns_of(fn) if r.value is not None]
    ok_pv = False
    detail = ''
    if len(rets) == 1:
        v = flow.copy_prop(rets[0].value, fn)
        if isinstance(v, ast.ListComp) and len(v.generators) == 1 and not v.generators[0].ifs \
                and isinstance(v.elt, ast.Subscript) and A.is_name(v.elt.value, 'self') \
                and isinstance(v.generators[0].target, ast.Name) and A.is_name(v.elt.slice, v.generators[0].target.id):
            src_it = flow.copy_prop(v.generators[0].iter, fn)
            if isinstance(src_it, ast.Call) and (A.dotted(src_it.func) or '').endswith('array_split'):
                a = src_it.args
                good = len(a) == 2 and not src_it.keywords and isinstance(a[0], ast.Call) \
                    and (A.dotted(a[0].func) or '').endswith('arange') and len(a[0].args) == 1 \
                    and not a[0].keywords and A.src(a[0].args[0]) == 'len(self)' and A.is_name(a[1], sec)
                ok_pv = good
                detail = '' if good else 'sections are %s, expected np.array_split(np.arange(len(self)), %s)' % (
                    A.short(src_it, 70), sec)
            else:
                raise AnalysisError('undecidable shape: the section indices of Dataset.split are not produced by '
                                    'np.array_split (%s); the partition arithmetic cannot be decided statically'
                                    % A.short(src_it, 60))
        else:
            detail = 'split must return [self[s] for s in <sections>] without filter or reordering; found ' + A.short(v, 70)
    else:
        detail = 'split has %d value returns' % len(rets)
    rep.ob('PV', K.key(base, 'split', 'sections=array_split(arange(len(self)),sections)-all-in-order'), ok_pv,
           rets[0] if rets else fn, detail)
    # D
    f2 = sh.node
    p2 = [a.arg for a in f2.args.args][1:]
    rets = [r for r in flow.returns_of(f2) if r.value is not None]
    ok_d = False
    if len(rets) == 1 and len(p2) >= 2:
        v = flow.copy_prop(rets[0].value, f2)
        if isinstance(v, ast.Subscript) and A.is_name(v.slice, p2[1]):
            c = flow.copy_prop(v.value, f2)
            if isinstance(c, ast.Call) and A.dotted(c.func) == 'self.split':
                b = flow.bind(c, fn)
                ok_d = A.is_name(b.args.get(sec), p2[0])
    rep.ob('D', K.key(base, 'shard', 'is-split(num_shards)[shard_index]'), ok_d, f2,
           '' if ok_d else 'shard(%s) is not self.split(%s)[%s]' % (', '.join(p2), p2[0] if p2 else '?',
                                                                     p2[1] if len(p2) > 1 else '?'))
