"""Helpers shared by several rule modules."""
import ast

from .. import astutil as A
from ..effects import FnCtx, INPUT_ATTR, INPUTS_ATTR
from ..model import AnalysisError


def key(cls_or_name, member=None, detail=None):
    base = cls_or_name if isinstance(cls_or_name, str) else cls_or_name.qualname
    s = base + ('.' + member if member else '')
    if detail:
        s += '::' + detail
    return s


def family(ctx, floor=None):
    fam = ctx.repo.dataset_family()
    if floor is not None:
        ctx.report.floor('Dataset subclasses', len(fam), floor)
    return fam


def has_inputs(cls):
    """does the constructor chain store upstream datasets (input_dataset / input_datasets)?"""
    from .. import flow
    attrs = flow.init_attrs(cls)
    return INPUT_ATTR in attrs or INPUTS_ATTR in attrs


def abstract_bool_property(cls, name, repo):
    """abstract value of a boolean metadata property:
    ('const', True/False) | ('forward', None) | ('all', None) | ('raises', None) |
    ('absent', None) | ('other', src) ; plus the member"""
    mem = cls.resolve(name)
    if mem is None:
        return ('absent', None), None
    if not mem.is_function:
        return ('other', 'class attribute'), mem
    rets = [n for n in A.walk_local(mem.node) if isinstance(n, ast.Return)]
    raises = [n for n in A.walk_local(mem.node) if isinstance(n, ast.Raise)]
    if not rets:
        return (('raises', None) if raises else ('other', 'no return')), mem
    vals = []
    for r in rets:
        v = r.value
        if isinstance(v, ast.Constant) and isinstance(v.value, bool):
            vals.append(('const', v.value))
        elif isinstance(v, ast.Attribute) and v.attr == name and A.is_self_attr(v.value, INPUT_ATTR):
            vals.append(('forward', None))
        elif isinstance(v, ast.Call) and A.dotted(v.func) == 'all' and v.args:
            comp = v.args[0]
            if isinstance(comp, (ast.ListComp, ast.GeneratorExp)) and len(comp.generators) == 1 \
                    and A.is_self_attr(comp.generators[0].iter, INPUTS_ATTR) \
                    and not comp.generators[0].ifs \
                    and isinstance(comp.elt, ast.Attribute) and comp.elt.attr == name \
                    and isinstance(comp.generators[0].target, ast.Name) \
                    and A.is_name(comp.elt.value, comp.generators[0].target.id):
                vals.append(('all', None))
            else:
                vals.append(('other', A.short(v)))
        else:
            vals.append(('other', A.short(v)))
    if len(set(vals)) == 1:
        return vals[0], mem
    return ('other', ' | '.join(sorted({str(v) for v in vals}))), mem


def with_key_param(fn):
    """name of the with_key parameter of an __iter__ or None"""
    names = [a.arg for a in fn.args.posonlyargs + fn.args.args + fn.args.kwonlyargs]
    return 'with_key' if 'with_key' in names else None


def only_raises(fn):
    """function body (after docstring) consists of a raise / never returns a value"""
    rets = [n for n in A.walk_local(fn) if isinstance(n, ast.Return)]
    ys = A.yields_in(fn)
    return not rets and not ys and any(isinstance(n, ast.Raise) for n in A.walk_local(fn))


def isinstance_branches(fn, param):
    """For a __getitem__(self, item): classify top-level if/elif arms by the types tested
    with isinstance(item, T). Returns list of (typeset, stmts, testnode) and the else stmts.
    typeset members: 'str', 'int', 'slice', 'other:<src>'."""
    arms = []
    body = [s for s in fn.body if not (isinstance(s, ast.Expr) and isinstance(s.value, ast.Constant))]
    return body


def classify_type_test(test, param):
    """-> set of type tags the test admits for `param` if it is an isinstance test
    (possibly combined with `and`), else None"""
    t = test
    if isinstance(t, ast.BoolOp) and isinstance(t.op, ast.And):
        for v in t.values:
            r = classify_type_test(v, param)
            if r is not None:
                return r
        return None
    if isinstance(t, ast.Call) and A.dotted(t.func) == 'isinstance' and len(t.args) == 2 \
            and A.is_name(t.args[0], param):
        ty = t.args[1]
        elts = ty.elts if isinstance(ty, ast.Tuple) else [ty]
        out = set()
        for e in elts:
            d = A.dotted(e) or A.src(e)
            if d == 'str':
                out.add('str')
            elif d in ('numbers.Integral', 'int', 'np.integer', 'numpy.integer', 'Integral'):
                out.add('int')
            elif d in ('slice', 'tuple', 'list', 'np.ndarray', 'numpy.ndarray'):
                out.add('slice')
            else:
                out.add('other:' + d)
        return out
    return None


def getitem_arms(fn):
    """Split a __getitem__ body into arms by isinstance tests on the index parameter.
    Returns list of dicts {types:set, body:[stmts], test:expr|None} in order; an arm with
    types None is an unconditional tail / else."""
    params = [a.arg for a in fn.args.posonlyargs + fn.args.args]
    if len(params) < 2:
        raise AnalysisError('__getitem__ without index parameter at line %s' % fn.lineno)
    item = params[1]
    arms = []

    def walk(stmts):
        for i, st in enumerate(stmts):
            if isinstance(st, ast.If):
                ty = classify_type_test(st.test, item)
                if ty is not None:
                    arms.append({'types': ty, 'body': st.body, 'test': st.test, 'node': st})
                    if st.orelse:
                        if len(st.orelse) == 1 and isinstance(st.orelse[0], ast.If):
                            walk(st.orelse)
                        else:
                            arms.append({'types': None, 'body': st.orelse, 'test': None, 'node': st})
                    continue
            if isinstance(st, ast.Assert):
                ty = classify_type_test(st.test, item)
                if ty is not None:
                    arms.append({'types': ty, 'body': stmts[i + 1:], 'test': st.test, 'node': st,
                                 'assert': True})
                    return
        return

    walk(fn.body)
    return item, arms
