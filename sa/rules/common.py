"""Helpers shared by several rule modules."""
import ast

from .. import astutil as A
from ..effects import FnCtx, INPUT_ATTR, INPUTS_ATTR
from ..model import AnalysisError


def key(cls_or_name, member=None, detail=None):
    base = cls_or_name if isinstance(cls_or_name, str) else cls_or_name.qualname
    s = base + ('.' + member if member else '')
    if detail:
        s += '::' + detail
    return s


def family(ctx, floor=None):
    fam = ctx.repo.dataset_family()
    if floor is not None:
        ctx.report.floor('Dataset subclasses', len(fam), floor)
    return fam


def has_inputs(cls):
    """does the constructor chain store upstream datasets (input_dataset / input_datasets)?"""
    from .. import flow
    attrs = flow.init_attrs(cls)
    return INPUT_ATTR in attrs or INPUTS_ATTR in attrs


def abstract_bool_property(cls, name, repo):
    """abstract value of a boolean metadata property:
    ('const', True/False) | ('forward', None) | ('all', None) | ('raises', None) |
    ('absent', None) | ('other', src) ; plus the member"""
    mem = cls.resolve(name)
    if mem is None:
        return ('absent', None), None
    if not mem.is_function:
        return ('other', 'class attribute'), mem
    rets = [n for n in A.walk_local(mem.node) if isinstance(n, ast.Return)]
    raises = [n for n in A.walk_local(mem.node) if isinstance(n, ast.Raise)]
    if not rets:
        return (('raises', None) if raises else ('other', 'no return')), mem
    vals = []
    for r in rets:
        v = r.value
        if isinstance(v, ast.Constant) and isinstance(v.value, bool):
            vals.append(('const', v.value))
        elif isinstance(v, ast.Attribute) and v.attr == name and A.is_self_attr(v.value, INPUT_ATTR):
            vals.append(('forward', None))
        elif isinstance(v, ast.Call) and A.dotted(v.func) == 'all' and v.args:
            comp = v.args[0]
            if isinstance(comp, (ast.ListComp, ast.GeneratorExp)) and len(comp.generators) == 1 \
                    and A.is_self_attr(comp.generators[0].iter, INPUTS_ATTR) \
                    and not comp.generators[0].ifs \
                    and isinstance(comp.elt, ast.Attribute) and comp.elt.attr == name \
                    and isinstance(comp.generators[0].target, ast.Name) \
                    and A.is_name(comp.elt.value, comp.generators[0].target.id):
                vals.append(('all', None))
            else:
                vals.append(('other', A.short(v)))
        else:
            vals.append(('other', A.short(v)))
    if len(set(vals)) == 1:
        return vals[0], mem
    return ('other', ' | '.join(sorted({str(v) for v in vals}))), mem


def with_key_param(fn):
    """name of the with_key parameter of an __iter__ or None"""
    names = [a.arg for a in fn.args.posonlyargs + fn.args.args + fn.args.kwonlyargs]
    return 'with_key' if 'with_key' in names else None


def only_raises(fn):
    """function body (after docstring) consists of a raise / never returns a value"""
    rets = [n for n in A.walk_local(fn) if isinstance(n, ast.Return)]
    ys = A.yields_in(fn)
    return not rets and not ys and any(isinstance(n, ast.Raise) for n in A.walk_local(fn))


def isinstance_branches(fn, param):
    """For a __getitem__(self, item): classify top-level if/elif arms by the types tested
    with isinstance(item, T). Returns list of (typeset, stmts, testnode) and the else stmts.
    typeset members: 'str', 'int', 'slice', 'other:<src>'."""
    arms = []
    body = [s for s in fn.body if not (isinstance(s, ast.Expr) and isinstance(s.value, ast.Constant))]
    return body


def classify_type_test(test, param):
    """-> set of type tags the test admits for `param` if it is an isinstance test
    (possibly combined with `and`), else None"""
    t = test
    if isinstance(t, ast.BoolOp) and isinstance(t.op, ast.And):
        for v in t.values:
            r = classify_type_test(v, param)
            if r is not None:
                return r
        return None
    if isinstance(t, ast.Call) and A.dotted(t.func) == 'isinstance' and len(t.args) == 2 \
            and A.is_name(t.args[0], param):
        ty = t.args[1]
        elts = ty.elts if isinstance(ty, ast.Tuple) else [ty]
        out = set()
        for e in elts:
            d = A.dotted(e) or A.src(e)
            if d == 'str':
                out.add('str')
            elif d in ('numbers.Integral', 'int', 'np.integer', 'numpy.integer', 'Integral'):
                out.add('int')
            elif d in ('slice', 'tuple', 'list', 'np.ndarray', 'numpy.ndarray'):
                out.add('slice')
            else:
                out.add('other:' + d)
        return out
    return None


def _type_truth(test, item, assume):
    """truth of a test under the assumption that `item` is of kind `assume` ('int' | 'str' | 'slice'); None = unknown"""
    t = test
    if isinstance(t, ast.UnaryOp) and isinstance(t.op, ast.Not):
        r = _type_truth(t.operand, item, assume)
        return None if r is None else (not r)
    if isinstance(t, ast.BoolOp):
        rs = [_type_truth(v, item, assume) for v in t.values]
        if isinstance(t.op, ast.And):
            if any(r is False for r in rs):
                return False
            return True if all(r is True for r in rs) else None
        if any(r is True for r in rs):
            return True
        return False if all(r is False for r in rs) else None
    tags = classify_type_test(t, item) if isinstance(t, ast.Call) else None
    if tags is None:
        return None
    if assume in tags:
        return True
    if all(x in ('str', 'int', 'slice') or x.startswith('other:') for x in tags):
        return False
    return None


def specialise(stmts, item, assume):
    """the statements of `stmts` that run when `item` is of kind `assume`: isinstance tests on `item` are decided,
    undecidable `if`s are kept whole. Original nodes are reused (identity preserved). Stops pruning once `item` is
    rebound. Returns (statements, dead_end) where dead_end is True if a failing `assert isinstance(...)` ends the path."""
    out, dead, _rebound = _specialise(stmts, item, assume)
    return out, dead


def _specialise(stmts, item, assume):
    out = []
    for i, st in enumerate(stmts):
        if isinstance(st, ast.If):
            tr = _type_truth(st.test, item, assume)
            if tr is not None:
                arm = st.body if tr else st.orelse
                sub, dead, rebound = _specialise(arm, item, assume)
                out.extend(sub)
                if dead or (arm and _always_exits(arm)):
                    return out, dead, rebound
                if rebound:
                    out.extend(stmts[i + 1:])
                    return out, False, True
                continue
            out.append(st)
            if any(isinstance(x, ast.Assign) and any(A.is_name(t, item) for t in x.targets) for x in A.walk_stmts([st])):
                out.extend(stmts[i + 1:])
                return out, False, True
            continue
        if isinstance(st, ast.Assert):
            tr = _type_truth(st.test, item, assume)
            if tr is False:
                out.append(st)
                return out, True, False
        out.append(st)
        if isinstance(st, ast.Assign) and any(A.is_name(t, item) for t in st.targets):
            # the index is rebound (e.g. translated into a key): nothing is known about its kind afterwards
            out.extend(stmts[i + 1:])
            return out, False, True
        if isinstance(st, (ast.Return, ast.Raise)):
            return out, False, False
    return out, False, False


def _always_exits(stmts):
    from .. import flow
    return flow.always_exits(stmts)


def _has_type_test(fn, item):
    for n in A.walk_local(fn):
        if isinstance(n, ast.Call) and classify_type_test(n, item) is not None:
            return True
    return False


def getitem_arms(fn):
    """Arms of a __getitem__ by the kind of index: for 'int' and for 'str' the statements that run for such an index
    (computed by deciding the isinstance tests, so if/elif chains, guard clauses and early returns are all understood).
    Returns (index parameter name, [ {types, body, node, test, dead_end} ... ]); empty list when the function does
    not dispatch on the index type at all."""
    params = [a.arg for a in fn.args.posonlyargs + fn.args.args]
    if len(params) < 2:
        raise AnalysisError('__getitem__ without index parameter at line %s' % fn.lineno)
    item = params[1]
    if not _has_type_test(fn, item):
        return item, []
    body = [s for s in fn.body if not (isinstance(s, ast.Expr) and isinstance(s.value, ast.Constant))]
    arms = []
    first_line = {}
    for n in A.walk_local(fn):
        if isinstance(n, ast.Call):
            tags = classify_type_test(n, item)
            if tags:
                for t in tags:
                    first_line.setdefault(t, n.lineno)
    for kind in ('str', 'int'):
        stmts, dead = specialise(body, item, kind)
        node = type('ArmAnchor', (), {'lineno': first_line.get(kind, fn.lineno)})()
        arms.append({'types': {kind}, 'body': stmts, 'node': node, 'test': None, 'dead_end': dead, 'fn': fn})
    arms.sort(key=lambda a_: a_['node'].lineno)
    return item, arms


# ---------------------------------------------------------------- iteration class
def input_loops(fn, fctx):
    """for-loops (and comprehensions) of `fn` that iterate an input dataset / an iterator over one"""
    out = []
    for n in A.walk_local(fn):
        if isinstance(n, (ast.For, ast.AsyncFor)):
            k = fctx.kind(n.iter)
            if k in ('DS', 'ITER') or (k == 'SELF'):
                out.append(n)
    return out


def _same_yield_count_on_every_path(fn, loop):
    from ..cfg import CFG, loop_body_paths, node_contains, normal
    cache = fn.__dict__.setdefault('_yc_cache', {})      # lives and dies with the AST of this function
    key_ = id(loop)
    if key_ in cache:
        return cache[key_]
    _YC_CACHE = cache
    res = False
    try:
        g = cache.get('cfg') or CFG(fn)
        cache['cfg'] = g
        head = [nd for nd in g.nodes if nd.kind in ('for', 'while') and nd.ast is loop and not nd.tag]
        if head:
            ys = [y for y in A.walk_stmts(loop.body) if isinstance(y, (ast.Yield, ast.YieldFrom))]
            paths = loop_body_paths(g, head[0], edge_ok=normal)
            counts = {sum(1 for nd in p for y in ys if node_contains(nd, y)) for p in paths}
            res = bool(paths) and len(counts) == 1 and counts != {0}
    except Exception:
        res = False
    _YC_CACHE[key_] = res
    return res


def iteration_class(ctx, cls):
    """structural flags of cls.__iter__ (resolved):
    conditional  a yield inside the per-element loop is control dependent on a test
    catching     a yield / lookup inside the per-element loop sits in a try with handlers
    nested       the per-element loop contains another loop that yields (1:n)
    random       iteration reaches a random draw
    buffered     elements are collected in a local container and yielded later
    infinite     an unconditional `while True` around the input iteration
    indexdriven  loops over range(len(..)) / keys / a stored index array and looks examples up
    escapes      the input is handed to a helper (prefetch / parallel map)
    raises_only  never yields
    """
    mem = cls.resolve('__iter__')
    flags = set()
    if mem is None or not mem.is_function:
        return flags, None
    fn = mem.node
    effs = ctx.effects.closed_effects(cls, '__iter__')
    local, fctx = ctx.effects.local_effects(fn, cls, mem.owner.module)
    if any(e.etype == 'RNG_DRAW' for e in effs):
        flags.add('random')
    if any(e.etype == 'ESCAPE' and e.info[0] in ('lazy_parallel_map', 'single_thread_prefetch')
           for e in effs):
        flags.add('escapes')
    ys = A.yields_in(fn)
    if not ys and not any(isinstance(n, ast.Return) and n.value is not None for n in A.walk_local(fn)):
        flags.add('raises_only')
    loops = [n for n in A.walk_local(fn) if isinstance(n, (ast.For, ast.AsyncFor, ast.While))]
    for y in ys:
        chain = []
        for a in A.ancestors(y):
            if a is fn:
                break
            chain.append(a)
        encl_loops = [a for a in chain if isinstance(a, (ast.For, ast.AsyncFor, ast.While))]
        if not encl_loops:
            continue
        inner = encl_loops[0]
        outer = encl_loops[-1]
        # statements between the yield and its innermost loop
        upto = chain[:chain.index(inner)]
        if any(isinstance(a, ast.If) for a in upto):
            # control dependent on a test - unless every way through one iteration of the loop yields the same number of
            # times (`if with_key: yield k, v  else: yield v`)
            if not _same_yield_count_on_every_path(fn, inner):
                flags.add('conditional')
        if any(isinstance(a, ast.Try) and a.handlers for a in upto):
            flags.add('catching')
        if len(encl_loops) >= 2:
            inner_is_input = isinstance(inner, ast.For) and fctx.kind(inner.iter) in ('DS', 'ITER', 'SELF')
            outer_iter = outer.iter if isinstance(outer, ast.For) else None
            if isinstance(outer, ast.While) and A.is_const(outer.test, True):
                flags.add('infinite')
            elif outer_iter is not None and fctx.kind(outer_iter) == 'DSSEQ':
                pass    # iterating the tuple of inputs
            elif not inner_is_input or fctx.kind(outer_iter) in ('DS', 'ITER', 'SELF'):
                flags.add('nested')
    for n in A.walk_local(fn):
        if isinstance(n, ast.While) and A.is_const(n.test, True) and \
                any(isinstance(x, ast.YieldFrom) for x in A.walk_stmts(n.body)):
            if not any(isinstance(x, (ast.Break, ast.Return)) for x in A.walk_stmts(n.body)):
                flags.add('infinite')
        if isinstance(n, ast.For):
            it = n.iter
            d = A.dotted(it.func) if isinstance(it, ast.Call) else None
            if d == 'range' or (isinstance(it, ast.Call) and isinstance(it.func, ast.Attribute)
                                and it.func.attr == 'keys') or A.is_self_attr(it):
                if any(e.etype in ('GETITEM', 'SELFCALL') for e in local):
                    flags.add('indexdriven')
            if isinstance(it, ast.Attribute) and A.is_self_attr(it) and cls.resolve(it.attr) is not None \
                    and cls.resolve(it.attr).kind == 'property':
                flags.add('indexdriven')
    # local buffers: X.append(elem) in an input loop with yields of X / X.pop
    for n in A.walk_local(fn):
        if isinstance(n, ast.Call) and isinstance(n.func, ast.Attribute) and n.func.attr == 'append' \
                and isinstance(n.func.value, ast.Name):
            if any(isinstance(a, (ast.For, ast.While)) for a in A.ancestors(n)):
                flags.add('buffered')
    return flags, fn


def sibling_default(ctx, rule, method, param, expected, why):
    """sibling agreement on a signature default: every `method` of the Dataset family that has `param` gives it the
    same default (Engler-style cross-check; the base class states the contract)."""
    import ast as _ast
    from .. import astutil as _A
    rep = ctx.report
    n = 0
    for cls in [ctx.repo.dataset_base()] + list(family(ctx)):
        mem = cls.own(method)
        if mem is None or not mem.is_function:
            continue
        a = mem.node.args
        pos = a.posonlyargs + a.args
        dflt = dict(zip([x.arg for x in pos[len(pos) - len(a.defaults):]], a.defaults))
        dflt.update({k.arg: d for k, d in zip(a.kwonlyargs, a.kw_defaults) if d is not None})
        if param not in [x.arg for x in pos + a.kwonlyargs]:
            continue
        n += 1
        d = dflt.get(param)
        ok = d is not None and _A.is_const(d, expected)
        rep.ob(rule, key(cls, method, 'default(%s=%r)' % (param, expected)), ok, mem.node,
               '' if ok else '%s.%s declares %s=%s where the rest of the family declares %s=%r: %s' % (
                   cls.name, method, param, _A.short(d) if d is not None else '<required>', param, expected, why),
               nontrivial=False)
    return n


def api_wiring(ctx, rule, only=None, floor=None):
    """API wiring (sibling regularity over the combinator methods of the base class): a method `Dataset.m(self, p...)`
    that constructs a stage `X(...)` binds X's input parameter to `self`, and every parameter of X that has the same
    name as a parameter of `m` receives an expression that mentions that parameter (never the default, never another
    one). `only`: restrict to these method names."""
    import ast as _ast
    from .. import astutil as _A, flow as _flow
    from ..effects import INPUT_ATTR as _IN
    rep = ctx.report
    base = ctx.repo.dataset_base()
    fam = {c.name: c for c in ctx.repo.dataset_family()}
    n = 0
    for mname, mem in base.members.items():
        if not mem.is_function or (only is not None and mname not in only):
            continue
        fn = mem.node
        selfname = fn.args.args[0].arg if fn.args.args else 'self'
        mparams = [a.arg for a in fn.args.posonlyargs + fn.args.args + fn.args.kwonlyargs][1:]
        for c in _A.walk_local(fn):
            if not (isinstance(c, _ast.Call) and isinstance(c.func, _ast.Name) and c.func.id in fam):
                continue
            X = fam[c.func.id]
            init = X.resolve('__init__')
            if init is None or not init.is_function or init.node.args.vararg is not None:
                continue
            if any(isinstance(a, _ast.Starred) for a in c.args) or (
                    any(k.arg is None for k in c.keywords) and init.node.args.kwarg is None):
                rep.undecided(rule, key(base, mname, 'wiring->%s' % X.name), c, 'star arguments in the constructor call')
                continue
            b = _flow.bind(c, init.node)
            xparams = [a.arg for a in init.node.args.posonlyargs + init.node.args.args + init.node.args.kwonlyargs][1:]
            n += 1
            if _IN in xparams:
                e = b.args.get(_IN)
                ok = _A.is_name(e, selfname)
                rep.ob(rule, key(base, mname, 'input-of-%s-is-self' % X.name), ok, c,
                       '' if ok else '%s is constructed with %s=%s: the new stage does not read from the dataset the '
                       'method was called on' % (X.name, _IN, _A.short(e) if e is not None else '<missing>'))
            for p in xparams:
                if p not in mparams:
                    continue
                e = b.args.get(p)
                ok = e is not None and p in _A.names_in(e)
                rep.ob(rule, key(base, mname, 'passes(%s)->%s' % (p, X.name)), ok, c,
                       '' if ok else 'the %s given to Dataset.%s does not reach %s (it gets %s)' % (
                           p, mname, X.name, _A.short(e) if e is not None else 'its default'))
    if floor is not None:
        rep.floor('stage constructions in the combinator methods', n, floor)
    return n


def ctor_stores_exact(ctx, rule, only=None):
    """a constructor parameter is stored as given: `self.x = p or <default>` / `self.x = p if p else <default>` replaces
    every falsy value the caller passed on purpose (an empty tuple of exception types, 0, '') by something else. The
    signature default is the only default. Violations name the store; other transformations are not judged here."""
    import ast as _ast
    from .. import astutil as _A
    rep = ctx.report
    n = 0
    for cls in family(ctx):
        if only is not None and cls.name not in only:
            continue
        mem = cls.own('__init__')
        if mem is None or not mem.is_function:
            continue
        fn = mem.node
        params = [a.arg for a in fn.args.posonlyargs + fn.args.args + fn.args.kwonlyargs][1:]
        for st in _A.walk_local(fn):
            if not (isinstance(st, _ast.Assign) and _A.is_self_attr(st.targets[0])):
                continue
            v = st.value
            used = [p for p in params if p in _A.names_in(v)]
            if not used:
                continue
            n += 1
            bad = None
            if isinstance(v, _ast.BoolOp) and isinstance(v.op, _ast.Or) and isinstance(v.values[0], _ast.Name) and v.values[0].id in params:
                bad = v.values[0].id
            if isinstance(v, _ast.IfExp):
                t, _neg = _A.strip_not(v.test)
                if isinstance(t, _ast.Name) and t.id in params:
                    bad = t.id
            rep.ob(rule, key(cls, '__init__', 'stores-parameter-as-given(%s)' % st.targets[0].attr), bad is None, st,
                   '' if bad is None else 'self.%s = %s: a falsy %s passed by the caller (empty tuple, 0, \'\') is silently replaced'
                   % (st.targets[0].attr, _A.short(v, 50), bad), nontrivial=False)
    return n


def self_capability_stubs(ctx, rule, only=None):
    """a stage calls a capability on itself (`self.keys()`, `len(self)`, ...) that resolves, for this class, to a member
    that only raises: the path that makes the call can never succeed (e.g. items() of the stage always ends in
    NotImplementedError although the input supports it). Subclass overrides are not considered: the rule is about the
    classes of the package."""
    import ast as _ast
    from .. import astutil as _A
    rep = ctx.report
    n = 0
    for cls in family(ctx):
        if only is not None and cls.name not in only:
            continue
        for mname, mem in cls.members.items():
            if not mem.is_function or only_raises(mem.node):
                continue
            for c in _A.walk_local(mem.node):
                name = None
                if isinstance(c, _ast.Call) and _A.is_self_attr(c.func):
                    name = c.func.attr
                elif isinstance(c, _ast.Call) and _A.dotted(c.func) == 'len' and c.args and _A.is_name(c.args[0], 'self'):
                    name = '__len__'
                if name is None:
                    continue
                n += 1
                m = cls.resolve(name)
                if m is not None and m.is_function and only_raises(m.node):
                    rep.ob(rule, key(cls, mname, 'calls-own-%s-which-only-raises' % name), False, c,
                           '%s.%s calls self.%s, which %s does not implement (it resolves to the raising stub of %s): this '
                           'path always ends in that error although the stage could answer from its input' % (
                               cls.name, mname, name, cls.name, m.owner.name))
    rep.summary(rule, 'package::no-call-of-an-unimplemented-own-capability', '%d calls of own capabilities resolved' % n)
    return n
