"""C18 — sorting and grouping reorder without losing or inventing examples.

NC sort never hands examples to sort_fn        RV reverse reaches every sort_fn call
SL the result is self[order]                   GB groupby: one pass, index/value positions agree, accumulation
"""
import ast

from .. import astutil as A
from .. import flow
from ..model import AnalysisError
from . import common as K

META = {
    'id': 'C18',
    'technique': 'def-use provenance of the sequences handed to sort_fn, identity flow of the reverse parameter, '
                 'tuple-position agreement between producers and consumers of (index, value) pairs',
    'explanation': 'In Dataset.sort every sort_fn call receives `reverse=reverse`; its first argument is built from '
                   'key_fn results paired with a unique running index, or from keys(), never from examples; the index '
                   'component picked from the sorted pairs is the position the counter was put in; the result is '
                   'self[order]. In Dataset.groupby the group function is mapped once over the dataset, indices and '
                   'group ids come from one enumerate with consistent tuple positions, indices of a later run of the same '
                   'id are appended (not overwritten), and each group is self[indices]. That sorted() orders its '
                   'input is trusted.',
    'not_decided': 'that the sorted sequence is non-decreasing (contract of sorted / the user sort_fn)',
    'assumptions': ['sorted() is a stable ordering function', 'itertools.groupby groups consecutive equal keys'],
}


def run(ctx):
    rep = ctx.report
    # "keeps keys attached to their examples": sort and groupby answer with self[index list], i.e. a SliceDataset; the
    # pairing of keys and examples of that stage (C03.P) is an obligation of this property too
    from . import c03
    c03.rule_p(ctx, only={'SliceDataset'}, floor=1)
    base = ctx.repo.dataset_base()
    sm = base.own('sort')
    gm = base.own('groupby')
    if sm is None or gm is None:
        raise AnalysisError('anchor vanished: Dataset.sort / Dataset.groupby')
    fn = sm.node
    sig = flow.signature(fn)
    if 'reverse' not in sig['pos'] + sig['kwonly'] or 'sort_fn' not in sig['pos'] + sig['kwonly']:
        raise AnalysisError('anchor vanished: sort(reverse=, sort_fn=) parameters')
    calls = [n for n in A.walk_local(fn) if isinstance(n, ast.Call) and A.is_name(n.func, 'sort_fn')]
    rep.floor('sort_fn call sites', len(calls), 2)
    for c in calls:
        under_none = None
        for test0, branch in flow.guards_of(c, fn):
            test, neg = A.strip_not(test0)
            if isinstance(test, ast.Compare) and A.is_name(test.left, 'key_fn') and A.is_const(test.comparators[0], None):
                is_none = isinstance(test.ops[0], ast.Is)
                under_none = ((branch != neg) == is_none)
        bname = 'key_fn-None branch' if under_none else ('key_fn branch' if under_none is False else 'unconditional')
        rv = [kw for kw in c.keywords if kw.arg == 'reverse']
        ok = bool(rv) and A.is_name(rv[0].value, 'reverse')
        rep.ob('RV', K.key(base, 'sort', 'param-reaches-sort_fn(reverse, %s)' % bname), ok, c,
               '' if ok else 'sort_fn is called %s: sort(reverse=True) %s' % (
                   'without reverse=' if not rv else 'with reverse=' + A.short(rv[0].value),
                   'is silently ignored in the %s' % bname))
        # NC: what is sorted
        arg = c.args[0] if c.args else None
        argp = flow.copy_prop(arg, fn) if arg is not None else None
        ok_nc = False
        why = ''
        if under_none:
            # keys
            ok_nc = isinstance(argp, ast.Call) and A.dotted(argp.func) == 'self.keys'
            why = '' if ok_nc else 'without key_fn the keys of the dataset must be sorted, found %s' % A.short(argp)
        else:
            if isinstance(argp, ast.Call) and A.dotted(argp.func) in ('zip',) and len(argp.args) == 2:
                vals = flow.copy_prop(argp.args[0], fn)
                cnt = flow.copy_prop(argp.args[1], fn)
                vals_ok = isinstance(vals, (ast.ListComp, ast.GeneratorExp)) and len(vals.generators) == 1 \
                    and A.is_name(vals.generators[0].iter, 'self') and isinstance(vals.elt, ast.Call) \
                    and A.is_name(vals.elt.func, 'key_fn') and not vals.generators[0].ifs
                cnt_ok = isinstance(cnt, ast.Call) and (A.dotted(cnt.func) or '') in ('itertools.count', 'count', 'range')
                ok_nc = vals_ok and cnt_ok
                why = '' if ok_nc else 'the sorted pairs must be (key_fn(example), running index); found %s' % A.short(argp, 70)
                # index component position
                par = A.parent(c)
                pos_ok = False
                if isinstance(par, ast.comprehension) and isinstance(par.target, ast.Tuple) and len(par.target.elts) == 2:
                    comp = A.parent(par)
                    pos_ok = isinstance(par.target.elts[1], ast.Name) and A.is_name(comp.elt, par.target.elts[1].id)
                rep.ob('NC', K.key(base, 'sort', 'order-is-the-index-component'), pos_ok, c,
                       '' if pos_ok else 'the order must be the running-index component (second) of the sorted pairs')
            elif isinstance(argp, ast.Call) and A.dotted(argp.func) == 'enumerate':
                ok_nc = False
                why = 'enumerate pairs put the index first: ties/comparison fall on it instead of the sort value'
            else:
                why = 'first argument of sort_fn is %s' % A.short(argp, 60)
        rep.ob('NC', K.key(base, 'sort', 'never-compares-examples(%s)' % bname), ok_nc, c, why)
    rets = [r for r in flow.returns_of(fn) if r.value is not None]
    ok_sl = bool(rets) and all(isinstance(r.value, ast.Subscript) and A.is_name(r.value.value, 'self') for r in rets)
    if ok_sl:
        for r in rets:
            sl = r.value.slice
            # the order is computed by sort_fn: written in place or held in a local all of whose definitions are
            defs = flow.assigned_names(fn).get(sl.id, []) if isinstance(sl, ast.Name) else [sl]
            ok_sl = ok_sl and bool(defs) and all(any(isinstance(x, ast.Call) and A.is_name(x.func, 'sort_fn')
                                                      for x in ast.walk(flow.expand(d, fn))) for d in defs)
    rep.ob('SL', K.key(base, 'sort', 'returns-self[order-from-sort_fn]'), ok_sl, rets[0] if rets else fn,
           '' if ok_sl else 'sort must return self[<order computed by sort_fn>] so that keys stay attached')
    # ---------------- groupby
    g = gm.node
    enum = None
    for n in A.walk_local(g):
        if isinstance(n, ast.Call) and A.dotted(n.func) == 'enumerate' and n.args:
            enum = n
    if enum is None:
        raise AnalysisError('undecidable shape: Dataset.groupby does not enumerate the group ids')
    inner = flow.expand(enum.args[0], g)      # the mapped ids may be held in a local first
    maps = [x for x in ast.walk(inner) if isinstance(x, ast.Call) and (
        A.dotted(x.func) == 'self.map' or (isinstance(x, ast.Call) and A.is_name(x.func, 'group_fn')))]
    once = len([x for x in ast.walk(g) if isinstance(x, ast.Name) and x.id == 'group_fn'
                and isinstance(x.ctx, ast.Load)]) == 1
    ok = bool(maps) and once and len(enum.args) == 1
    rep.ob('GB', K.key(base, 'groupby', 'group_fn-applied-once-per-example-in-one-pass'), ok, enum,
           '' if ok else 'group ids must come from one pass of group_fn over the dataset, enumerated from 0')
    gb = [n for n in A.walk_local(g) if isinstance(n, ast.Call) and (A.dotted(n.func) or '').endswith('groupby')
          and A.dotted(n.func) != 'self.groupby']
    ok_pos = False
    def key_position(kf):
        """which position of the (index, id) pair the grouping key reads: lambda p: p[k], operator.itemgetter(k),
        lambda (unpacked) ...; None if unrecognised"""
        if isinstance(kf, ast.Lambda) and isinstance(kf.body, ast.Subscript) and len(kf.args.args) == 1 \
                and A.is_name(kf.body.value, kf.args.args[0].arg):
            return A.int_value(kf.body.slice)
        if isinstance(kf, ast.Call) and (A.dotted(kf.func) or '').split('.')[-1] == 'itemgetter' and len(kf.args) == 1:
            return A.int_value(kf.args[0])
        return None
    if gb and len(gb[0].args) == 2 and key_position(flow.expand(gb[0].args[1], g)) is not None:
        ok_key = key_position(flow.expand(gb[0].args[1], g)) == 1
        idx_ok = False
        for n in A.walk_local(g):
            if isinstance(n, ast.ListComp) and isinstance(n.elt, ast.Subscript) and A.int_value(n.elt.slice) == 0:
                idx_ok = True
            if isinstance(n, ast.ListComp) and isinstance(n.generators[0].target, ast.Tuple) and len(n.generators[0].target.elts) == 2 \
                    and isinstance(n.generators[0].target.elts[0], ast.Name) and A.is_name(n.elt, n.generators[0].target.elts[0].id):
                idx_ok = True      # [index for index, _ in run]
        ok_pos = ok_key and idx_ok
    elif not gb:
        raise AnalysisError('undecidable shape: Dataset.groupby does not use itertools.groupby')
    if gb and len(gb[0].args) == 2 and key_position(flow.expand(gb[0].args[1], g)) is None:
        rep.undecided('GB', K.key(base, 'groupby', 'pair-positions(index=0,group-id=1)'), gb[0],
                      'unrecognised grouping key function `%s`' % A.short(gb[0].args[1], 50))
    else:
        rep.ob('GB', K.key(base, 'groupby', 'pair-positions(index=0,group-id=1)'), ok_pos, gb[0],
               '' if ok_pos else 'enumerate yields (index, group id): the grouping key must read position 1 and the '
               'collected indices position 0')
    acc_ok = False
    for n in A.walk_local(g):
        if isinstance(n, ast.AugAssign) and isinstance(n.op, ast.Add) and isinstance(n.target, ast.Subscript):
            acc_ok = True
        if isinstance(n, ast.Call) and isinstance(n.func, ast.Attribute) and n.func.attr == 'extend' \
                and isinstance(n.func.value, ast.Subscript):
            acc_ok = True
        if isinstance(n, ast.Assign) and isinstance(n.targets[0], ast.Subscript) and isinstance(n.value, ast.BinOp) \
                and isinstance(n.value.op, ast.Add) and A.src(n.value.left) == A.src(n.targets[0]):
            acc_ok = True          # groups[k] = groups[k] + indices
    dd = any(isinstance(n, ast.Call) and (A.dotted(n.func) or '').endswith('defaultdict') and n.args
             and A.is_name(n.args[0], 'list') for n in A.walk_local(g))
    rep.ob('GB', K.key(base, 'groupby', 'runs-of-one-id-are-accumulated'), acc_ok and dd, g,
           '' if acc_ok and dd else 'indices of a later run with the same group id must be appended to the group '
           '(defaultdict(list) and +=), not overwrite it')
    rets = [r for r in flow.returns_of(g) if r.value is not None]
    ok_ret = False
    if rets and isinstance(rets[0].value, ast.DictComp):
        dc = rets[0].value
        tgt = dc.generators[0].target
        ok_ret = isinstance(tgt, ast.Tuple) and len(tgt.elts) == 2 and A.is_name(dc.key, tgt.elts[0].id) \
            and isinstance(dc.value, ast.Subscript) and A.is_name(dc.value.value, 'self') \
            and A.is_name(dc.value.slice, tgt.elts[1].id) and not dc.generators[0].ifs
    # group ids are only hashed (dict keys, equality of neighbouring runs), never ordered: arbitrary hashable ids need not
    # be comparable with each other
    ordering = [c for c in A.walk_local(g) if isinstance(c, ast.Call) and (
        (A.dotted(c.func) in ('sorted', 'min', 'max') and not any(kw.arg == 'key' for kw in c.keywords))
        or (isinstance(c.func, ast.Attribute) and c.func.attr == 'sort' and not any(kw.arg == 'key' for kw in c.keywords)))]
    rep.ob('GB', K.key(base, 'groupby', 'group-ids-are-never-ordered'), not ordering, ordering[0] if ordering else g,
           '' if not ordering else '`%s` orders values that contain the group ids: ids that are hashable but not mutually '
           'comparable (None next to a str, tuples of different shape) make groupby raise TypeError' % A.short(ordering[0], 50))
    rep.ob('GB', K.key(base, 'groupby', 'returns{id:self[indices]}-for-every-group'), ok_ret, rets[0] if rets else g,
           '' if ok_ret else 'groupby must return {group id: self[its indices]} for every group')
