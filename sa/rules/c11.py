"""C11 — disk cache is reused exactly and cleared exactly when asked.

G1 a non-empty directory is opened only under reuse; otherwise refused, before the cache is opened
G2 deleting calls exist only in the wrapper finaliser, under `clear`, after close()
P  reuse / clear / cache_dir flow unchanged from the public API to those tests
S  copies share the wrapper; lookup and iteration are inherited from the memory cache (C10.K/M/H apply)
"""
import ast

from .. import astutil as A
from .. import flow
from ..cfg import CFG, normal, node_roots
from ..model import AnalysisError
from . import common as K

META = {
    'id': 'C11',
    'technique': 'CFG guardedness of the cache opening, who-may-call analysis of deleting calls over the whole '
                 'package, identity flow of parameters through three constructor bindings',
    'explanation': 'In _DiskCacheWrapper.__init__ every path on which the directory exists and is non-empty reaches the '
                   'diskcache.Cache(...) call only through the true edge of the `reuse` test and otherwise raises; the '
                   'only deleting calls of the package (rmtree/remove/unlink/rmdir/clear) sit in _DiskCacheWrapper.__del__, '
                   'control dependent on self.clear, after cache.close(); cache_dir, reuse and clear reach those tests '
                   'from Dataset.diskcache through DiskCacheDataset.__init__ without being swapped or replaced; copies '
                   'share the wrapper so the finaliser runs when the last sharer goes; the disk cache inherits the '
                   'lookup/iteration of the memory cache, so C10.K/M/H cover its access histories. Crash consistency of '
                   'a killed writer and corruption freedom live inside diskcache/SQLite and are outside this repository.',
    'not_decided': 'crash consistency / corruption after a killed writer (inside third-party diskcache + SQLite)',
    'assumptions': ['diskcache.Cache persists completed stores atomically (SQLite transaction per set)',
                    'diskcache compares keys by their serialised form: 1 and numpy.int64(1) are different keys',
                    'an object pickled to a worker process is finalised there when the task ends (CPython)',
                    'CPython calls __del__ when the last reference to the wrapper is dropped'],
}

DELETERS = {'shutil.rmtree', 'os.remove', 'os.unlink', 'os.rmdir', 'os.removedirs', 'shutil.move', 'os.rename',
            'os.replace'}
DELETER_METHODS = {'unlink', 'rmdir', 'rmtree'}


def rule_g1(ctx):
    rep = ctx.report
    w = ctx.repo.cls('core._DiskCacheWrapper')
    init = w.own('__init__')
    if init is None:
        raise AnalysisError('anchor vanished: _DiskCacheWrapper.__init__')
    fn = init.node
    params = [a.arg for a in fn.args.args][1:]
    if params[:3] != ['cache_dir', 'reuse', 'clear']:
        rep.note('_DiskCacheWrapper.__init__ parameters are %s' % params)
    g = CFG(fn)
    opens = [nd for nd in g.stmt_nodes() if nd.kind == 'stmt' and any(
        isinstance(x, ast.Call) and (A.dotted(x.func) or '').endswith('Cache') and 'diskcache' in (A.dotted(x.func) or '')
        for r in node_roots(nd) for x in ast.walk(r))]
    if not opens:
        raise AnalysisError('undecidable shape: _DiskCacheWrapper.__init__ does not open a diskcache.Cache')
    op = opens[0]
    def test_expr(nd):
        t, _neg = A.strip_not(nd.ast.test)
        return flow.copy_prop(t, fn) if isinstance(t, ast.Name) else flow.expand(nd.ast.test, fn)
    exist_tests = [nd for nd in g.nodes if nd.kind == 'test' and 'cache_dir' in A.src(test_expr(nd)) and any(
        k in A.src(test_expr(nd)) for k in ('is_dir', 'exists', 'glob', 'listdir', 'iterdir', 'scandir'))]
    reuse_tests = [nd for nd in g.nodes if nd.kind == 'test' and A.is_name(A.strip_not(nd.ast.test)[0], 'reuse')]
    ok = bool(exist_tests) and bool(reuse_tests)
    detail = ''
    if not ok:
        detail = 'no test of "directory exists and is non-empty" and of `reuse` before the cache is opened'
    else:
        et, rt = exist_tests[0], reuse_tests[0]
        # emptiness is part of the test and has the right polarity
        kind0, ats0 = A.atoms(test_expr(et))
        nonempty = kind0 == 'and' and any(
            len(a) == 3 and ((a[2] is not None and any(k in A.src(a[0]) for k in ('glob', 'listdir', 'iterdir', 'scandir'))
                              and ((a[1] in ('>', '!=') and A.int_value(a[2]) == 0) or (a[1] == '>=' and A.int_value(a[2]) == 1)))
                             or (a[1] == 'truthy' and 'any(' in A.src(a[0]))) for a in ats0)
        # ... and it looks at EVERY entry of the directory: no filter on the listing (files only, a suffix, a pattern
        # other than '*'); anything left in the directory would be deleted with it when clear=True
        filt = None
        te = flow.expand(test_expr(et), fn)
        for x in ast.walk(te):
            if isinstance(x, (ast.GeneratorExp, ast.ListComp, ast.SetComp)) and any(
                    k in A.src(x.generators[0].iter) for k in ('glob', 'listdir', 'iterdir', 'scandir')):
                g0 = x.generators[0]
                plain = isinstance(g0.target, ast.Name) and (A.is_name(x.elt, g0.target.id) or isinstance(x.elt, ast.Constant)) and not g0.ifs
                if not plain:
                    filt = x
            if isinstance(x, ast.Call) and isinstance(x.func, ast.Attribute) and x.func.attr in ('glob', 'rglob') and x.args \
                    and isinstance(x.args[0], ast.Constant) and x.args[0].value not in ('*', '**/*'):
                filt = x
        rep.ob('G1', K.key(w, '__init__', 'emptiness-test-considers-every-entry'), filt is None, et.ast,
               '' if filt is None else 'the non-emptiness test only counts some entries (`%s`): a directory holding anything '
               'else is taken for empty, opened without reuse=True and removed with clear=True' % A.short(filt, 60))
        t_succ = [y for (y, k) in g.succ[et.id] if k == 'true']
        # from the true edge, the open is reachable only through the reuse test
        p = None
        for y in t_succ:
            if y == rt.id:
                continue
            p = p or g.path_avoiding(y, lambda nd: nd.id == op.id, lambda nd: nd.id == rt.id, edge_ok=normal) \
                or (g.nodes[y] if y == op.id else None)
        neg = A.strip_not(rt.ast.test)[1]
        refuse_edge = 'true' if neg else 'false'
        r_succ = [y for (y, k) in g.succ[rt.id] if k == refuse_edge]
        reach_open = any(y == op.id or g.path_avoiding(y, lambda nd: nd.id == op.id, None, edge_ok=normal) for y in r_succ)
        raises = any(isinstance(x, ast.Raise) for x in A.walk_stmts(rt.ast.body if neg else rt.ast.orelse))
        ok = nonempty and p is None and not reach_open and raises
        detail = '' if ok else ('the existing-directory test does not check non-emptiness' if not nonempty else
                                'a non-empty directory can be opened without reuse=True' if (p is not None or reach_open)
                                else 'reuse=False on a non-empty directory does not raise')
    rep.ob('G1', K.key(w, '__init__', 'non-empty-dir-opened-only-under-reuse-else-refused'), ok, fn, detail)
    # eviction disabled
    call = [x for r in node_roots(op) for x in ast.walk(r) if isinstance(x, ast.Call) and 'diskcache' in (A.dotted(x.func) or '')][0]
    ok = any(kw.arg == 'eviction_policy' and isinstance(kw.value, ast.Constant) and kw.value.value == 'none'
             for kw in call.keywords) and call.args and A.is_name(call.args[0], 'cache_dir')
    rep.ob('G1', K.key(w, '__init__', 'opens-cache_dir-without-eviction'), ok, call,
           '' if ok else 'the cache must be opened on cache_dir with eviction_policy=\'none\' (default evicts above 1 GB: '
           'stored examples silently disappear and are recomputed)')


def _const_key(e):
    return e.value if isinstance(e, ast.Constant) and isinstance(e.value, str) else None


def rule_g2(ctx):
    rep = ctx.report
    w = ctx.repo.cls('core._DiskCacheWrapper')
    dl = w.own('__del__')
    sites = []
    for mod in ctx.repo.modules.values():
        if mod.name == 'database_cli':
            continue
        for n in ast.walk(mod.tree):
            if isinstance(n, ast.Call):
                d = A.dotted(n.func)
                full = mod.resolve_name(d) if d else None
                if full in DELETERS or (isinstance(n.func, ast.Attribute) and n.func.attr in DELETER_METHODS) or (
                        isinstance(n.func, ast.Attribute) and n.func.attr == 'clear' and 'cache' in A.src(n.func.value).lower()):
                    sites.append((mod, n, full or A.src(n.func)))
    inside = [s for s in sites if dl is not None and any(a is dl.node for a in A.ancestors(s[1]))]
    outside = [s for s in sites if s not in inside]
    for mod, n, name in outside:
        f = A.enclosing_function(n)
        rep.ob('G2', K.key(ctx.repo.qualname_of(f) if f else mod.name, None, 'deletes-outside-the-finaliser(%s)' % name),
               False, n, 'a deleting call outside _DiskCacheWrapper.__del__: cache content can vanish while datasets '
               'still share it, or regardless of clear')
    rep.summary('G2', 'package::no-deleting-call-outside-the-finaliser', '%d deleting call(s), all in __del__' % len(sites))
    if dl is None:
        rep.ob('G2', K.key(w, '__del__', 'defined'), False, w.node, 'the wrapper has no finaliser: clear=True never removes the directory')
        return
    rep.floor('deleting calls in the finaliser', len(inside), 1)
    fn = dl.node
    closes = [n for n in A.walk_local(fn) if isinstance(n, ast.Call) and isinstance(n.func, ast.Attribute)
              and n.func.attr == 'close' and 'cache' in A.src(n.func.value)]
    for mod, n, name in inside:
        under_clear = False
        extra = None
        for test, branch in flow.guards_of(n, fn):
            t, neg = A.strip_not(test)
            if A.is_self_attr(t, 'clear') and branch != neg:
                under_clear = True
            elif A.is_self_attr(t, 'clear') and branch == neg:
                under_clear = False
                break
            elif any(A.is_self_attr(x, 'clear') for x in ast.walk(test)):
                # clear combined with something else: removal no longer happens exactly when clear is set
                kind_, ats_ = A.atoms(test, negated=not branch)
                if kind_ == 'and' and any(len(a) == 3 and a[1] == 'truthy' and A.is_self_attr(a[0], 'clear') for a in ats_):
                    under_clear = True
                    others = [a for a in ats_ if not (len(a) == 3 and A.is_self_attr(a[0], 'clear'))]
                    others = [a for a in others if not ('exists' in A.src(a[0]) or 'directory' in A.src(a[0]))]
                    if others:
                        extra = others[0]
        after_close = bool(closes) and closes[0].lineno < n.lineno and not [
            t for t, b in flow.guards_of(closes[0], fn) if 'clear' in A.src(t)]
        target_ok = n.args and 'directory' in A.src(n.args[0])
        ok = under_clear and after_close and target_ok and extra is None
        rep.ob('G2', K.key(w, '__del__', 'removes-directory-iff-clear-after-close(%s)' % name), ok, n,
               '' if ok else ('the directory is removed although clear is false' if not under_clear else
                              'with clear=True the directory is removed only if additionally `%s` holds: a cache opened on '
                              'an existing directory with clear=True is left behind' % A.short(extra[0]) if extra is not None else
                              'the directory is removed before the cache is closed' if not after_close else
                              'something else than the cache directory is removed'))
    ok = bool(closes)
    rep.ob('G2', K.key(w, '__del__', 'closes-the-cache'), ok, fn, '')
    # the wrapper travels to worker processes with the dataset (prefetch / parallel map with a process backend pickle the
    # pipeline): the copy that is unpickled there is finalised when the task ends, so its finaliser must not remove the
    # directory the parent is still using. The class has to say how it is pickled: a __getstate__ / __reduce__ that
    # switches the removal off in the copy (or refuses pickling).
    guards = {x.attr for mod, n, name in inside for t_, _b in flow.guards_of(n, fn) for x in ast.walk(t_) if A.is_self_attr(x)}
    pick = [w.own(m_) for m_ in ('__getstate__', '__reduce__', '__reduce_ex__', '__setstate__') if w.own(m_) is not None]
    safe = False
    for pm in pick:
        if not pm.is_function:
            continue
        if K.only_raises(pm.node):
            safe = True          # not picklable at all
        for x in A.walk_local(pm.node):
            # state['clear'] = False / self.clear = False / dict(..., clear=False)
            if isinstance(x, ast.Assign) and A.is_const(x.value, False) and any(
                    (isinstance(t_, ast.Subscript) and _const_key(t_.slice) in guards) or (isinstance(t_, ast.Attribute) and t_.attr in guards)
                    for t_ in x.targets):
                safe = True
            if isinstance(x, ast.keyword) and x.arg in guards and A.is_const(x.value, False):
                safe = True
            if isinstance(x, ast.Dict) and any(_const_key(k_) in guards and A.is_const(v_, False) for k_, v_ in zip(x.keys, x.values) if k_ is not None):
                safe = True
    rep.ob('G2', K.key(w, None, 'copy-in-another-process-does-not-remove-the-directory'), safe, w.node,
           '' if safe else 'the wrapper defines a finaliser that removes the directory (under self.%s) but not how it is pickled: '
           'with a process backend (`.prefetch(2, 4, backend=\'dill_mp\')`, parallel map) every worker unpickles a copy with the '
           'same flag and removes the directory when its task ends - while the datasets in the parent still share the cache'
           % '/'.join(sorted(guards) or ['clear']))


def rule_p(ctx):
    rep = ctx.report
    base = ctx.repo.dataset_base()
    dc = ctx.repo.cls('core.DiskCacheDataset')
    w = ctx.repo.cls('core._DiskCacheWrapper')
    f0 = base.own('diskcache').node
    f1 = dc.own('__init__').node
    f2 = w.own('__init__').node
    hops = 0
    for caller, callee_cls, callee in ((f0, 'DiskCacheDataset', f1), (f1, '_DiskCacheWrapper', f2)):
        calls = [n for n in A.walk_local(caller) if isinstance(n, ast.Call) and A.dotted(n.func) == callee_cls]
        if len(calls) != 1:
            raise AnalysisError('undecidable shape: expected one %s(...) call in %s' % (callee_cls, caller.name))
        b = flow.bind(calls[0], callee)
        for p in ('cache_dir', 'reuse', 'clear'):
            hops += 1
            e = b.args.get(p)
            ok = A.is_name(e, p)
            rep.ob('P', K.key(ctx.repo.qualname_of(caller), None, 'passes(%s)->%s' % (p, callee_cls)), ok, calls[0],
                   '' if ok else 'parameter %r of %s receives %s' % (p, callee_cls, A.short(e) if e is not None else
                                                                      'its default (%s)' % A.short(b.sig['defaults'].get(p))))
    # stored unchanged
    for p in ('reuse', 'clear'):
        ok = any(isinstance(n, ast.Assign) and A.is_self_attr(n.targets[0], p) and A.is_name(n.value, p)
                 for n in A.walk_local(f2))
        wrong = [n for n in A.walk_local(f2) if isinstance(n, ast.Assign) and A.is_self_attr(n.targets[0], p)
                 and not A.is_name(n.value, p)]
        rep.ob('P', K.key(w, '__init__', 'stores(%s)' % p), ok and not wrong, f2,
               '' if ok and not wrong else 'self.%s is not the %s argument' % (p, p))
    rep.floor('parameter hops', hops, 6)
    # documented defaults of the public API
    d = flow.signature(f0)['defaults']
    ok = A.is_const(d.get('reuse'), False) and A.is_const(d.get('clear'), True)
    rep.ob('P', K.key(base, 'diskcache', 'defaults(reuse=False,clear=True)'), ok, f0, '')


def rule_s(ctx):
    rep = ctx.report
    dc = ctx.repo.cls('core.DiskCacheDataset')
    cp = dc.own('copy')
    ok = cp is not None and any(isinstance(n, ast.Assign) and isinstance(n.targets[0], ast.Attribute)
                                and n.targets[0].attr == '_cache' and A.is_self_attr(n.value, '_cache')
                                for n in A.walk_local(cp.node)) and not any(
        isinstance(n, ast.Call) and A.dotted(n.func) in ('_DiskCacheWrapper', 'self.__class__', 'DiskCacheDataset')
        for n in A.walk_local(cp.node))
    rep.ob('S', K.key(dc, 'copy', 'shares-the-wrapper'), ok, cp.node if cp else dc.node,
           '' if ok else 'a copy must share the wrapper: a second wrapper on the same directory is refused or, with '
           'clear, deletes the directory under the first')
    ok = dc.own('__getitem__') is None and dc.own('__iter__') is None
    rep.ob('S', K.key(dc, None, 'lookup-inherited-from-the-memory-cache'), ok, dc.node, '')
    w = ctx.repo.cls('core._DiskCacheWrapper')
    dl = w.own('__del__')
    ok = dl is not None and any(isinstance(n, ast.If) and 'hasattr' in A.src(n.test) for n in dl.node.body)
    rep.ob('S', K.key(w, '__del__', 'tolerates-refused-construction'), ok, dl.node if dl else w.node,
           '' if ok else 'when __init__ refused the directory the finaliser must not touch (or delete) anything')
    # check(): raises rather than silently skipping when the disk is nearly full; otherwise True
    ck = dc.own('check')
    ok = ck is not None and isinstance(ck.node.body[-1], ast.Return) and A.is_const(ck.node.body[-1].value, True)
    rep.ob('S', K.key(dc, 'check', 'stores-unless-it-raises'), ok, ck.node if ck else dc.node, '')


def run(ctx):
    rule_g1(ctx)
    rule_g2(ctx)
    rule_p(ctx)
    rule_s(ctx)
    # "equal the pipeline values for every access history ... never a misplaced example": the disk cache inherits the
    # lookup of the memory cache (rule S), so the lookup rules of C10 (canonical key K, one key for load / upstream /
    # store M, hit and iteration through the lookup H) are obligations of this property as well
    from . import c10
    c10.rule_kmh(ctx)
