"""C14 — exception-based filtering drops exactly the failing examples.

T1 per-element try inside the loop, around the lookup      T2 one handler, type = the configured selection
T3 handler neither exits nor emits                         T4 full range; value and key branch are twins
T5 no broader handler around the loop                      FP filter polarity agrees (lazy / lookup / eager)
IN _ItemsNotDefined cannot be caught by catch(Exception)   DF default selection agrees across entry points
"""
import ast
import copy as _copy

from .. import astutil as A
from .. import flow
from ..effects import INPUT_ATTR
from ..model import AnalysisError
from . import common as K

META = {
    'id': 'C14',
    'technique': 'AST/CFG shape rules on the catch loop (try placement, handler type provenance, handler effects), '
                 'branch-twin comparison of value and key iteration, boolean-polarity normalisation of the three '
                 'filter implementations',
    'explanation': 'In CatchExceptionDataset.__iter__ both the value and the key branch loop over the whole frozen '
                   'input, wrap exactly the per-element lookup in a try whose single handler catches exactly the '
                   'stored `exceptions` selection, the handler neither yields nor leaves the loop nor re-raises, no '
                   'broader handler surrounds the loop (foreign exceptions propagate at the failing position), and the '
                   'two branches are identical up to the key component. Lazy filter (both branches), key lookup on a '
                   'filter and eager filter keep an example iff the predicate is true. The internal items signal '
                   'derives from BaseException, so no catch(Exception) can swallow it.',
    'not_decided': '',
    'assumptions': ['Python except-clause matching (isinstance against the selection)'],
}


def _catch_loops(fn):
    out = []
    for n in A.walk_local(fn):
        if isinstance(n, ast.For):
            it = n.iter
            if isinstance(it, ast.Call) and (A.dotted(it.func) == 'range' or (
                    isinstance(it.func, ast.Attribute) and it.func.attr == 'keys')):
                out.append(n)
    return out


class _Erase(ast.NodeTransformer):
    def __init__(self, loopvar):
        self.loopvar = loopvar

    def visit_Name(self, n):
        if n.id == self.loopvar:
            return ast.Name(id='_V', ctx=n.ctx)
        return n

    def visit_Yield(self, n):
        self.generic_visit(n)
        if isinstance(n.value, ast.Tuple) and len(n.value.elts) == 2:
            return ast.Yield(value=n.value.elts[1])
        return n


def _twin(loop):
    var = loop.target.id if isinstance(loop.target, ast.Name) else '?'
    body = [_Erase(var).visit(_copy.deepcopy(s)) for s in loop.body]
    return '\n'.join(ast.dump(s) for s in body)


def rule_catch(ctx):
    rep = ctx.report
    cls = ctx.repo.cls('core.CatchExceptionDataset')
    mem = cls.own('__iter__')
    if mem is None:
        raise AnalysisError('anchor vanished: CatchExceptionDataset.__iter__')
    fn = mem.node
    # which attribute stores the `exceptions` parameter?
    pa = flow.param_attrs(cls)
    exc_attrs = pa.get('exceptions', set())
    if not exc_attrs:
        rep.ob('T2', K.key(cls, '__init__', 'selection-stored'), False, cls.node,
               'the `exceptions` constructor parameter is not stored on the stage')
        return
    loops = _catch_loops(fn)
    rep.floor('catch loops (value + key branch)', len(loops), 2)
    frozen = None
    for n in A.walk_local(fn):
        if isinstance(n, ast.Assign) and isinstance(n.value, ast.Call) and isinstance(n.value.func, ast.Attribute) \
                and n.value.func.attr == 'copy' and isinstance(n.targets[0], ast.Name):
            frozen = n.targets[0].id
    for loop in loops:
        it = loop.iter
        branch = 'key' if (isinstance(it.func, ast.Attribute) and it.func.attr == 'keys') else 'value'
        tries = [s for s in A.walk_stmts(loop.body) if isinstance(s, ast.Try)]
        lookups = [s for s in A.walk_stmts(loop.body) if isinstance(s, ast.Subscript)
                   and isinstance(s.ctx, ast.Load) and isinstance(s.value, ast.Name)
                   and s.value.id in (frozen, 'input_dataset') and isinstance(loop.target, ast.Name)
                   and A.is_name(s.slice, loop.target.id)]
        ok1 = len(tries) == 1 and bool(lookups) and all(
            any(x is lk for s in tries[0].body for x in ast.walk(s)) for lk in lookups)
        rep.ob('T1', K.key(cls, '__iter__', '%s-branch:try-inside-loop-around-lookup' % branch), ok1, loop,
               '' if ok1 else 'the per-element lookup is not wrapped by a try inside the loop: one failing example '
               'ends the iteration or escapes the handler')
        if not tries:
            continue
        t = tries[0]
        ok2 = len(t.handlers) == 1 and t.handlers[0].type is not None and any(
            A.is_self_attr(t.handlers[0].type, a) for a in exc_attrs)
        rep.ob('T2', K.key(cls, '__iter__', '%s-branch:handler-type-is-the-selection' % branch), ok2,
               t.handlers[0] if t.handlers else t,
               '' if ok2 else 'the handler catches %s instead of exactly self.%s' % (
                   'everything' if (t.handlers and t.handlers[0].type is None) else
                   (A.short(t.handlers[0].type) if t.handlers else 'nothing'), '/'.join(sorted(exc_attrs))))
        bad3 = []
        for h in t.handlers:
            for x in A.walk_stmts(h.body):
                if isinstance(x, (ast.Yield, ast.YieldFrom, ast.Return, ast.Break, ast.Raise)):
                    bad3.append(x)
        for x in A.walk_stmts(t.finalbody):
            if isinstance(x, (ast.Return, ast.Break, ast.Continue)):
                bad3.append(x)
        rep.ob('T3', K.key(cls, '__iter__', '%s-branch:handler-continues-silently' % branch), not bad3,
               bad3[0] if bad3 else t, '' if not bad3 else 'the handler %s: a dropped example ends / alters the stream'
               % A.short(bad3[0]))
        # T4: full range
        if branch == 'value':
            ok4 = len(it.args) == 1 and isinstance(it.args[0], ast.Call) and A.dotted(it.args[0].func) == 'len' \
                and A.is_name(it.args[0].args[0], frozen or '')
            detail = 'loop must cover range(len(<frozen copy>))'
        else:
            ok4 = A.is_name(it.func.value, frozen or '') and not it.args
            detail = 'loop must cover <frozen copy>.keys()'
        rep.ob('T4', K.key(cls, '__iter__', '%s-branch:covers-whole-input' % branch), ok4, loop,
               '' if ok4 else detail + ', found ' + A.short(it))
        # the yield is inside the try body or right after it with the looked up value
        ys = [x for x in A.walk_stmts(loop.body) if isinstance(x, ast.Yield)]
        ok5 = len(ys) == 1
        rep.ob('T4', K.key(cls, '__iter__', '%s-branch:one-yield-per-element' % branch), ok5, loop,
               '' if ok5 else '%d yields in the catch loop body' % len(ys))
    if len(loops) == 2:
        same = _twin(loops[0]) == _twin(loops[1])
        rep.ob('T4', K.key(cls, '__iter__', 'value-and-key-branch-are-twins'), same, loops[1],
               '' if same else 'value iteration and items() iteration of catch differ in more than the key component')
    # T5 no other handler in the function
    other = [n for n in A.walk_local(fn) if isinstance(n, ast.Try) and n.handlers and not any(
        n is t for lp in loops for t in A.walk_stmts(lp.body))]
    rep.ob('T5', K.key(cls, '__iter__', 'no-handler-around-the-loop'), not other, other[0] if other else fn,
           '' if not other else 'a handler outside the per-element try can swallow foreign exceptions')


def _pred_polarity(test, pred_matches):
    """test is `P(...)` or `not P(...)`: returns True (positive), False (negated) or None"""
    t, neg = A.strip_not(test)
    if isinstance(t, ast.Call) and pred_matches(t.func):
        return not neg
    if isinstance(t, ast.Compare) and isinstance(t.left, ast.Call) and pred_matches(t.left.func):
        return 'narrow'     # `pred(x) is False`, `pred(x) == True` ...: not the truthiness the other sites use
    return None


def rule_fp(ctx):
    rep = ctx.report
    cls = ctx.repo.cls('core.FilterDataset')
    pa = flow.param_attrs(cls)
    fattrs = pa.get('filter_function', set())
    if not fattrs:
        raise AnalysisError('anchor vanished: FilterDataset stores no filter_function')
    is_pred = lambda f: any(A.is_self_attr(f, a) for a in fattrs)
    sites = 0
    it = cls.own('__iter__').node
    for n in A.walk_local(it):
        if isinstance(n, ast.If):
            pol = _pred_polarity(n.test, is_pred)
            if pol is None:
                continue
            sites += 1
            if pol == 'narrow':
                rep.ob('FP', K.key(cls, '__iter__', 'keeps-iff-predicate-true'), False, n,
                       'iteration compares the predicate result with a constant (`%s`) instead of using its truthiness' % A.short(n.test))
                continue
            y_body = any(isinstance(x, ast.Yield) for x in A.walk_stmts(n.body))
            y_else = any(isinstance(x, ast.Yield) for x in A.walk_stmts(n.orelse))
            skip_body = any(isinstance(x, ast.Continue) for x in A.walk_stmts(n.body))
            if y_body and not y_else:
                keep = pol
            elif y_else and not y_body:
                keep = not pol
            elif skip_body:
                keep = not pol
            else:
                keep = None
            # the yielded example is the tested one
            arg = A.strip_not(n.test)[0].args[0] if A.strip_not(n.test)[0].args else None
            same_ex = True
            for x in A.walk_stmts(n.body + n.orelse):
                if isinstance(x, ast.Yield):
                    v = x.value.elts[1] if isinstance(x.value, ast.Tuple) and len(x.value.elts) == 2 else x.value
                    same_ex = same_ex and A.same(v, arg)
            rep.ob('FP', K.key(cls, '__iter__', 'keeps-iff-predicate-true'), keep is True and same_ex, n,
                   '' if keep is True and same_ex else
                   ('lazy filter keeps an example iff the predicate is %s' % keep if keep is not True else
                    'the yielded example is not the one the predicate was applied to'))
    g = cls.own('__getitem__').node
    for n in A.walk_local(g):
        if isinstance(n, ast.If):
            pol = _pred_polarity(n.test, is_pred)
            if pol is None:
                continue
            sites += 1
            if pol == 'narrow':
                rep.ob('FP', K.key(cls, '__getitem__', 'keeps-iff-predicate-true'), False, n,
                       'the key lookup compares the predicate result with a constant (`%s`) while iteration uses its '
                       'truthiness: for predicates returning 0 / None / numpy.bool_ the lookup answers for filtered-out keys'
                       % A.short(n.test))
                continue
            raises = any(isinstance(x, ast.Raise) for x in A.walk_stmts(n.body))
            ret = any(isinstance(x, ast.Return) for x in A.walk_stmts(n.body))
            if raises and not ret:
                keep = not pol
            elif ret:
                keep = pol
            else:
                keep = None
            rep.ob('FP', K.key(cls, '__getitem__', 'keeps-iff-predicate-true'), keep is True, n,
                   '' if keep is True else 'key lookup on a filtered dataset keeps the example iff the predicate is %s' % keep)
    base = ctx.repo.dataset_base()
    ff = base.own('filter').node
    eager_ok = None
    for n in A.walk_local(ff):
        if isinstance(n, ast.ListComp) and len(n.generators) == 1:
            gen = n.generators[0]
            if isinstance(gen.iter, ast.Call) and A.dotted(gen.iter.func) == 'enumerate' \
                    and A.is_name(gen.iter.args[0], 'self') and len(gen.iter.args) == 1:
                sites += 1
                tgt = gen.target
                ok = isinstance(tgt, ast.Tuple) and len(tgt.elts) == 2 and len(gen.ifs) == 1
                if ok:
                    pol = _pred_polarity(gen.ifs[0], lambda f: A.is_name(f, 'filter_fn'))
                    call = A.strip_not(gen.ifs[0])[0]
                    ok = pol is True and A.is_name(n.elt, tgt.elts[0].id) and call.args \
                        and A.is_name(call.args[0], tgt.elts[1].id)
                eager_ok = ok
                rep.ob('FP', K.key(base, 'filter', 'eager:index-kept-iff-predicate(example)-true'), bool(ok), n,
                       '' if ok else 'eager filter must keep index i iff filter_fn(example_i), with i and example_i '
                       'from one enumerate(self)')
    if eager_ok is None:
        raise AnalysisError('undecidable shape: eager branch of Dataset.filter is not an enumerate comprehension')
    rep.floor('predicate test sites', sites, 4)


def rule_in(ctx):
    rep = ctx.report
    core = ctx.repo.module('core')
    c = core.classes.get('_ItemsNotDefined')
    if c is None:
        raise AnalysisError('anchor vanished: core._ItemsNotDefined')
    ok = 'BaseException' in c.base_names and 'Exception' not in c.base_names
    rep.ob('IN', K.key(c, None, 'derives-from-BaseException-only'), ok, c.node,
           '' if ok else 'the internal items signal derives from %s: ds.catch(Exception).items() swallows it and '
           'yields nothing instead of refusing' % c.base_names)
    fe = core.classes.get('FilterException')
    ok = fe is not None and 'Exception' in fe.base_names
    rep.ob('IN', 'core.FilterException::derives-from-Exception', ok, fe.node if fe else None, '')
    # default selection agrees: Dataset.catch, CatchExceptionDataset.__init__, prefetch True -> FilterException
    base = ctx.repo.dataset_base()
    d1 = flow.signature(base.own('catch').node)['defaults'].get('exceptions')
    d2 = flow.signature(ctx.repo.cls('core.CatchExceptionDataset').own('__init__').node)['defaults'].get('exceptions')
    ok = d1 is not None and d2 is not None and A.src(d1) == A.src(d2) == 'FilterException'
    rep.ob('DF', 'core::default-selection-is-FilterException', ok, base.own('catch').node,
           '' if ok else 'defaults differ: catch(%s) vs CatchExceptionDataset(%s)' % (
               A.src(d1) if d1 else None, A.src(d2) if d2 else None))
    pre = ctx.repo.cls('core.PrefetchDataset')
    n_true = 0
    for mname in ('__iter__', '_single_thread_prefetch'):
        mem = pre.own(mname)
        if mem is None:
            raise AnalysisError('anchor vanished: PrefetchDataset.%s' % mname)
        for n in A.walk_local(mem.node):
            t, neg = (A.strip_not(n.test) if isinstance(n, ast.If) else (None, False))
            if isinstance(n, ast.If) and isinstance(t, ast.Compare) and isinstance(t.ops[0], (ast.Is, ast.IsNot)) \
                    and A.is_const(t.comparators[0], True) and A.is_self_attr(t.left, 'catch_filter_exception'):
                n_true += 1
                if isinstance(t.ops[0], ast.IsNot):
                    neg = not neg
                when_true, otherwise = (n.orelse, n.body) if neg else (n.body, n.orelse)
                ok = any(isinstance(s, ast.Assign) and A.src(s.value) == 'FilterException' for s in when_true) and \
                    any(isinstance(s, ast.Assign) and A.is_self_attr(s.value, 'catch_filter_exception') for s in otherwise)
                rep.ob('DF', K.key(pre, mname, 'True-means-FilterException-else-the-given-selection'), ok, n,
                       '' if ok else 'catch_filter_exception=True must select FilterException and any other value '
                       'must be used as given')
        # the same selection written as a conditional expression
        for n in A.walk_local(mem.node):
            if isinstance(n, ast.IfExp):
                t, neg = A.strip_not(n.test)
                if isinstance(t, ast.Compare) and isinstance(t.ops[0], (ast.Is, ast.IsNot)) and A.is_const(t.comparators[0], True) \
                        and A.is_self_attr(t.left, 'catch_filter_exception'):
                    n_true += 1
                    if isinstance(t.ops[0], ast.IsNot):
                        neg = not neg
                    when_true, otherwise = (n.orelse, n.body) if neg else (n.body, n.orelse)
                    ok = A.src(when_true) == 'FilterException' and A.is_self_attr(otherwise, 'catch_filter_exception')
                    rep.ob('DF', K.key(pre, mname, 'True-means-FilterException-else-the-given-selection'), ok, n,
                           '' if ok else 'catch_filter_exception=True must select FilterException and any other value '
                           'must be used as given')
    rep.floor('prefetch selection sites', n_true, 2)


T6_TABLE = {
    ('BatchDataset', '__getitem__'): 'IndexError marks the end of the input inside the last batch window '
                                     '(re-raised for the first element and under drop_last; C02.BL checks the shape)',
    ('CatchExceptionDataset', '__iter__'): 'the catch stage itself (rules T1-T5)',
    ('ProfilingDataset', '__iter__'): 'counts and re-raises (C20.CN)',
    ('ProfilingDataset', '__getitem__'): 'counts and re-raises (C20.CN)',
    ('ItemsDataset', '__iter__'): 'converts the internal items signal into ItemsNotDefined (raises)',
}


# the exception types each tabled handler may name (a broader handler also catches what a user function raises)
T6_TYPES = {
    ('BatchDataset', '__getitem__'): {'IndexError'},
    ('CatchExceptionDataset', '__iter__'): {'self.exceptions'},
    ('ProfilingDataset', '__iter__'): {'StopIteration', 'Exception'},
    ('ProfilingDataset', '__getitem__'): {'Exception'},
    ('ItemsDataset', '__iter__'): {'_ItemsNotDefined'},
}


def rule_t6(ctx):
    """exceptions raised by upstream examples propagate unchanged through every other stage: no try around an
    upstream lookup / iteration has a handler that can complete normally"""
    rep = ctx.report
    n = 0
    for cls in K.family(ctx):
        for mname in ('__getitem__', '__iter__'):
            mem = cls.own(mname)
            if mem is None or not mem.is_function:
                continue
            fn = mem.node
            _l, fctx = ctx.effects.local_effects(fn, cls, cls.module)
            for t in [x for x in A.walk_local(fn) if isinstance(x, ast.Try) and x.handlers]:
                touches = [x for s in t.body for x in ast.walk(s) if (
                    isinstance(x, ast.Subscript) and fctx.kind(x.value) in ('DS',)) or (
                    isinstance(x, ast.Call) and A.dotted(x.func) == 'next') or (
                    isinstance(x, (ast.For, ast.YieldFrom)) and fctx.kind(x.iter if isinstance(x, ast.For) else x.value) in ('DS', 'ITER'))]
                if not touches:
                    continue
                n += 1
                swallowing = [h for h in t.handlers if not (h.body and isinstance(h.body[-1], ast.Raise))]
                if (cls.name, mname) in T6_TABLE:
                    rep.ob('T6', K.key(cls, mname, 'handler-around-upstream-lookup-tabled'), True, t,
                           T6_TABLE[(cls.name, mname)], nontrivial=False)
                    named = set()
                    for h in t.handlers:
                        if h.type is None:
                            named.add('<bare except>')
                        elif isinstance(h.type, ast.Tuple):
                            named.update(A.src(e) for e in h.type.elts)
                        else:
                            named.add(A.src(h.type))
                    extra = sorted(named - T6_TYPES[(cls.name, mname)])
                    rep.ob('T6', K.key(cls, mname, 'tabled-handler-names-only-its-own-types'), not extra, t,
                           '' if not extra else 'the handler around `%s` also names %s: an exception of that type raised while an '
                           'upstream example is evaluated (user map function, deeper stage) is taken for the stage\'s own signal '
                           'and swallowed / converted instead of propagating unchanged' % (A.short(touches[0], 40), extra))
                    continue
                rep.ob('T6', K.key(cls, mname, 'upstream-exceptions-propagate'), not swallowing, swallowing[0] if swallowing else t,
                       '' if not swallowing else 'a handler for %s around the upstream lookup `%s` completes normally: an '
                       'exception of that type raised while evaluating an example (user map function, deeper stage) is '
                       'swallowed or answered with another example instead of reaching catch()/the caller at its position' % (
                           A.short(swallowing[0].type) if swallowing[0].type is not None else 'everything', A.short(touches[0], 40)))
    rep.floor('try blocks around upstream lookups', n, 3)


def rule_wr(ctx):
    """ds.catch(E) / ds.filter(f): the exception selection and the predicate reach the stage that applies them"""
    K.api_wiring(ctx, 'WR', only=('catch', 'filter'), floor=2)


def rule_sb(ctx):
    """SB: the end-of-stream summary of the catching stages names the caught types with `X.__name__` unless X is a
    collection of types. A *tuple* of types is the collection form that `except` accepts, so every such type test must
    cover tuple - otherwise iteration ends with an AttributeError instead of StopIteration once something was dropped.
    Sibling sites (catch stage, prefetch with catch) must test for the same collection types."""
    rep = ctx.report
    sites = []
    for cls in K.family(ctx):
        for mname, mem in cls.members.items():
            if not mem.is_function:
                continue
            for n in A.walk_local(mem.node):
                if isinstance(n, ast.Call) and A.dotted(n.func) == 'isinstance' and len(n.args) == 2:
                    subj = A.src(n.args[0])
                    if 'exception' not in subj:
                        continue
                    holder = n
                    for a in A.ancestors(n):
                        if isinstance(a, (ast.IfExp, ast.If)):
                            holder = a
                            break
                    if not any(isinstance(x, ast.Attribute) and x.attr == '__name__' for x in ast.walk(holder)):
                        continue
                    t = n.args[1]
                    types = sorted(A.src(e) for e in (t.elts if isinstance(t, ast.Tuple) else [t]))
                    sites.append((cls, mname, n, types))
    for cls, mname, n, types in sites:
        # the object whose __name__ is taken is the one that was tested (the resolved selection, not the raw option
        # that may still be `True`)
        subj = A.src(n.args[0])
        holder = n
        for a_ in A.ancestors(n):
            if isinstance(a_, (ast.IfExp, ast.If)):
                holder = a_
                break
        comp_vars = {t_ for c_ in ast.walk(holder) if isinstance(c_, ast.comprehension) for t_ in A.name_targets(c_.target)}
        other = [x for x in ast.walk(holder) if isinstance(x, ast.Attribute) and x.attr == '__name__'
                 and not (isinstance(x.value, ast.Name) and x.value.id in comp_vars)
                 and A.src(x.value) != subj and 'exception' in A.src(x.value)]
        rep.ob('SB', K.key(cls, mname, 'name-taken-of-the-tested-selection'), not other, other[0] if other else n,
               '' if not other else '`%s.__name__` is taken although `%s` is what was tested: the raw option may still be '
               '`True` (short for FilterException), which has no __name__' % (A.short(other[0].value, 40), subj))
        ok = 'tuple' in types
        rep.ob('SB', K.key(cls, mname, 'type-names-of-a-tuple-selection'), ok, n,
               '' if ok else 'the summary takes `.__name__` of the selection unless it is one of %s: a tuple of exception '
               'types (the multi-type form `except` accepts) has no __name__, so the iteration ends with AttributeError '
               'after the last example whenever something was dropped' % types)
    kinds = {tuple(t) for _c, _m, _n, t in sites}
    if sites:
        rep.ob('SB', 'core::summary-sites-agree-on-collection-types', len(kinds) == 1, sites[0][2],
               '' if len(kinds) == 1 else 'sibling summary sites test for different collection types: %s' % sorted(kinds),
               nontrivial=False)
    rep.floor('summary sites naming the caught types', len(sites), 2)


def rule_st(ctx):
    """catch(E): the stage catches exactly E (an empty selection catches nothing)"""
    n = K.ctor_stores_exact(ctx, 'ST', only=('CatchExceptionDataset', 'FilterDataset', 'PrefetchDataset'))
    ctx.report.floor('parameter stores of the catching / filtering stages', n, 5)


def run(ctx):
    rule_wr(ctx)
    rule_st(ctx)
    rule_sb(ctx)
    rule_t6(ctx)
    rule_catch(ctx)
    rule_fp(ctx)
    rule_in(ctx)
