"""C12 — every shuffle is a permutation, for every iterator in flight.

II in-flight isolation: no generator keeps reading state that another iteration mutates in place
PP permutation provenance: index arrays are arange(len) and only ever permuted
FR freezing a reshuffle yields a slice by one drawn permutation
LS local shuffle: one append per element, emission only from a full buffer, final flush, local buffer
TL tile / random_choice
"""
import ast

from .. import astutil as A
from .. import flow
from ..cfg import CFG, normal, node_contains, loop_body_max
from ..effects import INPUT_ATTR
from ..model import AnalysisError
from . import common as K

META = {
    'id': 'C12',
    'technique': 'write-effect x generator-liveness analysis (attributes mutated in place on the path into __iter__ '
                 'versus values a suspended generator keeps reading), def-use provenance of index arrays, CFG path '
                 'rules on the shuffle buffer',
    'explanation': 'For every stage: no generator frame keeps iterating / subscripting an alias of an attribute that '
                   'the start of another iteration mutates in place; every shuffling index array is created as '
                   'np.arange(len(dataset)) and between creation and use is only touched by rng.shuffle (an in-place '
                   'permutation); copy(freeze=True) of a reshuffle is the input sliced by one drawn permutation; '
                   'sampling forwards size and replace (default False) to choice(len(self)); the local shuffle appends '
                   'each element exactly once to a per-iterator buffer, emits only popped elements and only when the '
                   'buffer has reached buffer_size, and finally yields every remaining element. Uniformity and the '
                   'numeric displacement bound beyond the emission guard are not decided.',
    'not_decided': 'distribution of the orders; the displacement bound as a number',
    'assumptions': ['numpy rng.shuffle(x) permutes x in place; rng.choice(n, replace=False) returns distinct values',
                    'list.pop(i) removes and returns exactly one element'],
}


def _inplace_attrs(ctx, cls):
    """attributes mutated in place by code reachable from the start of __iter__"""
    out = {}
    for e in ctx.effects.closed_effects(cls, '__iter__'):
        if e.etype == 'WRITE_SELF' and e.info[1] != 'rebind':
            out.setdefault(e.info[0], e)
    return out


def _alias_attr(expr, cls, depth=0):
    """attribute of self that `expr` aliases (self.a, or self.p with property p returning self.a), else None"""
    if not A.is_self_attr(expr):
        return None
    mem = cls.resolve(expr.attr)
    if mem is None or not mem.is_function:
        return expr.attr
    if mem.kind == 'property' and depth < 3:
        rets = [r for r in flow.returns_of(mem.node) if r.value is not None]
        al = {_alias_attr(r.value, cls, depth + 1) if A.is_self_attr(r.value) else None for r in rets}
        if len(al) == 1:
            return al.pop()
    return None


def rule_ii(ctx):
    rep = ctx.report
    n = 0
    for cls in K.family(ctx, floor=20):
        mem = cls.own('__iter__')
        if mem is None or not mem.is_function or not mem.is_generator:
            continue
        n += 1
        M = _inplace_attrs(ctx, cls)
        # counters / caches of other properties are shared on purpose and never iterated lazily
        fn = mem.node
        hits = []
        for node in A.walk_local(fn):
            it = None
            if isinstance(node, ast.For):
                it = node.iter
            elif isinstance(node, ast.YieldFrom):
                it = node.value
            if it is None:
                continue
            a = _alias_attr(it, cls)
            if a is not None and a in M:
                hits.append((node, a))
        # names bound to such an alias and iterated / subscripted later
        for node in A.walk_local(fn):
            if isinstance(node, ast.Assign) and isinstance(node.targets[0], ast.Name):
                a = _alias_attr(node.value, cls)
                if a is not None and a in M:
                    nm = node.targets[0].id
                    for u in A.walk_local(fn):
                        if isinstance(u, ast.For) and A.is_name(u.iter, nm):
                            hits.append((u, a))
                        if isinstance(u, ast.Subscript) and A.is_name(u.value, nm) and any(
                                isinstance(x, (ast.For, ast.While)) for x in A.ancestors(u)):
                            hits.append((u, a))
        seen = set()
        for node, a in hits:
            if a in seen:
                continue
            seen.add(a)
            rep.ob('II', K.key(cls, '__iter__', 'shared-inplace(%s)' % a), False, node,
                   'the generator keeps reading self.%s lazily while every new iteration mutates that same object in '
                   'place (%s): two iterators in flight (zip(ds, ds), nested loops, prefetch + main thread) see each '
                   'other\'s order, so one pass can repeat and miss examples' % (a, A.short(M[a].node, 50)))
        if not hits:
            rep.ob('II', K.key(cls, '__iter__', 'no-shared-inplace-state'), True, fn,
                   'in-place mutated attributes on the way into __iter__: %s' % (sorted(M) or 'none'),
                   nontrivial=bool(M))
    rep.floor('generator __iter__ methods', n, 20)


def _only_permuted(fn, var, create_stmt, use_node, is_attr=False):
    """between creation and use, `var` may only appear as argument of <rng>.shuffle(var); returns list of bad uses"""
    bad = []
    for n in A.walk_local(fn):
        match = (A.is_self_attr(n, var) if is_attr else A.is_name(n, var)) and isinstance(getattr(n, 'ctx', None), ast.Load)
        if not match or n is use_node:
            continue
        p = A.parent(n)
        if isinstance(p, ast.Call) and isinstance(p.func, ast.Attribute) and p.func.attr == 'shuffle' and p.args \
                and p.args[0] is n and len(p.args) == 1 and isinstance(A.parent(p), ast.Expr):
            continue
        if isinstance(p, ast.Return) and is_attr:
            continue
        bad.append(n)
    return bad


def _is_arange_len(expr, of_src):
    return isinstance(expr, ast.Call) and (A.dotted(expr.func) or '').split('.')[-1] == 'arange' \
        and len(expr.args) == 1 and not expr.keywords and isinstance(expr.args[0], ast.Call) \
        and A.dotted(expr.args[0].func) == 'len' and A.src(expr.args[0].args[0]) == of_src


def rule_pp(ctx):
    rep = ctx.report
    base = ctx.repo.dataset_base()
    sh = base.own('shuffle')
    if sh is None:
        raise AnalysisError('anchor vanished: Dataset.shuffle')
    fn = sh.node
    # one-time branch: return self[perm]
    rets = [r for r in flow.returns_of(fn) if isinstance(r.value, ast.Subscript) and A.is_name(r.value.value, 'self')]
    if len(rets) != 1 or not isinstance(rets[0].value.slice, ast.Name):
        raise AnalysisError('undecidable shape: one-time branch of Dataset.shuffle does not return self[<name>]')
    var = rets[0].value.slice.id
    defs = [n for n in A.walk_local(fn) if isinstance(n, ast.Assign) and A.is_name(n.targets[0], var)]
    ok = len(defs) == 1 and _is_arange_len(defs[0].value, 'self')
    rep.ob('PP', K.key(base, 'shuffle', 'index=arange(len(self))'), ok, defs[0] if defs else fn,
           '' if ok else 'the one-time permutation must start as np.arange(len(self)); found %s' % (
               A.short(defs[0].value) if defs else 'no definition'))
    bad = _only_permuted(fn, var, defs[0] if defs else None, rets[0].value.slice)
    shuffles = [n for n in A.walk_local(fn) if isinstance(n, ast.Call) and isinstance(n.func, ast.Attribute)
                and n.func.attr == 'shuffle' and n.args and A.is_name(n.args[0], var)]
    ok = not bad and len(shuffles) == 1 and A.is_name(shuffles[0].func.value, 'rng')
    rep.ob('PP', K.key(base, 'shuffle', 'index-only-permuted-by-rng.shuffle'), ok, bad[0] if bad else fn,
           '' if ok else 'between creation and use the index array must only be passed to rng.shuffle(...) once; '
           'other use: %s' % (A.short(A.parent(bad[0])) if bad else '%d shuffle calls' % len(shuffles)))
    # ReShuffleDataset
    rs = ctx.repo.cls('core.ReShuffleDataset')
    init = rs.own('__init__').node
    pdefs = [n for n in ast.walk(rs.node) if isinstance(n, (ast.Assign, ast.AugAssign)) and any(
        A.is_self_attr(t, '_permutation') for t in (n.targets if isinstance(n, ast.Assign) else [n.target]))]
    attr = '_permutation'
    if not pdefs:
        # a repaired stage may draw a fresh permutation per iteration instead of keeping an array
        perm = rs.resolve('permutation')
        ok = perm is not None and any(isinstance(x, ast.Call) and isinstance(x.func, ast.Attribute)
                                      and x.func.attr == 'permutation' and x.args and 'len(' in A.src(x.args[0])
                                      for x in ast.walk(perm.node))
        rep.ob('PP', K.key(rs, None, 'index=rng.permutation(len(input))'), ok, rs.node,
               '' if ok else 'no permutation source found in ReShuffleDataset')
    else:
        ok = len(pdefs) == 1 and any(a is init for a in A.ancestors(pdefs[0])) and _is_arange_len(pdefs[0].value, 'input_dataset')
        rep.ob('PP', K.key(rs, '__init__', 'index=arange(len(input))'), ok, pdefs[0],
               '' if ok else 'the reshuffle index array must be written once, in __init__, as np.arange(len(input_dataset))')
        for name, mem in rs.members.items():
            if not mem.is_function or name == '__init__':
                continue
            bad = _only_permuted(mem.node, attr, None, None, is_attr=True)
            # copies (self._permutation.copy()) are reads that do not disturb the array
            bad = [b for b in bad if not (isinstance(A.parent(b), ast.Attribute) and A.parent(b).attr == 'copy')]
            if any(A.is_self_attr(x, attr) for x in ast.walk(mem.node)):
                rep.ob('PP', K.key(rs, name, 'index-only-permuted-by-rng.shuffle'), not bad, bad[0] if bad else mem.node,
                       '' if not bad else 'self.%s is used other than as argument of rng.shuffle / return value: %s' % (
                           attr, A.short(A.parent(bad[0]))))
    # iteration of the reshuffle covers the permutation and looks up by its entries
    it = rs.own('__iter__').node
    loops = [l for l in A.walk_local(it) if isinstance(l, ast.For)]
    ok = bool(loops) and all(A.is_self_attr(flow.copy_prop(l.iter, it), 'permutation') or
                             (isinstance(flow.copy_prop(l.iter, it), ast.Call) and 'permutation' in A.src(flow.copy_prop(l.iter, it)))
                             for l in loops)
    rep.ob('PP', K.key(rs, '__iter__', 'iterates-the-whole-permutation'), ok, it, '')
    for l in loops:
        ys = [y for y in A.walk_stmts(l.body) if isinstance(y, ast.Yield)]
        okl = len(ys) == 1 and not any(isinstance(x, (ast.If, ast.Break, ast.Continue)) for x in A.walk_stmts(l.body)) and \
            all(A.is_name(s.slice, l.target.id) for y in ys for s in ast.walk(y)
                if isinstance(s, ast.Subscript) and A.is_self_attr(s.value, INPUT_ATTR))
        rep.ob('PP', K.key(rs, '__iter__', 'one-lookup-per-permutation-entry'), okl, l,
               '' if okl else 'each permutation entry must be looked up and yielded exactly once, unconditionally')


def rule_fr(ctx):
    rep = ctx.report
    rs = ctx.repo.cls('core.ReShuffleDataset')
    cp = rs.own('copy').node
    ok = False
    for r in flow.returns_of(cp):
        if any(A.is_name(A.strip_not(t)[0], 'freeze') and (b != A.strip_not(t)[1]) for t, b in flow.guards_of(r, cp)):
            v = r.value
            if isinstance(v, ast.Subscript) and isinstance(v.value, ast.Call) and isinstance(v.value.func, ast.Attribute) \
                    and v.value.func.attr == 'copy' and A.is_self_attr(v.value.func.value, INPUT_ATTR):
                s = flow.copy_prop(v.slice, cp)
                ok = A.is_self_attr(s, 'permutation') or (isinstance(s, ast.Call) and 'permutation' in A.src(s))
    rep.ob('FR', K.key(rs, 'copy', 'frozen=input.copy(freeze)[one permutation]'), ok, cp,
           '' if ok else 'copy(freeze=True) of a reshuffle must be the (frozen) input sliced by one drawn permutation')
    # SliceDataset re-indexes: np.arange(n)[perm,] is a new array (trusted numpy fact) -> independent of later shuffles
    sl = ctx.repo.cls('core.SliceDataset').own('__init__').node
    ok = any(A.is_self_attr(n.targets[0], 'slice') and (A.dotted(n.value.value.func) or '').endswith('arange')
             for n in A.walk_local(sl) if isinstance(n, ast.Assign)
             and isinstance(n.value, ast.Subscript) and isinstance(n.value.value, ast.Call))
    aliasing = [n for n in A.walk_local(sl) if isinstance(n, ast.Assign) and any(A.is_self_attr(t, 'slice') for t in n.targets)
                and flow.aliases_caller_object(n.value, sl)]
    ok = ok and not aliasing
    rep.ob('FR', 'core.SliceDataset.__init__::reindexes-into-a-new-array', ok, sl,
           '' if ok else 'the slice must be re-derived through np.arange(len)[selection] so that it does not alias the '
           'caller\'s (later reshuffled) permutation array')


def rule_ls(ctx):
    rep = ctx.report
    ls = ctx.repo.cls('core.LocalShuffleDataset')
    mem = ls.own('__iter__')
    if mem is None:
        raise AnalysisError('anchor vanished: LocalShuffleDataset.__iter__')
    fn = mem.node
    _l, fctx = ctx.effects.local_effects(fn, ls, ls.module)
    loops = [l for l in fn.body if isinstance(l, ast.For)]
    src_loops = [l for l in loops if fctx.kind(l.iter) in ('DS', 'ITER')]
    if len(src_loops) != 1:
        raise AnalysisError('undecidable shape: LocalShuffleDataset.__iter__ has %d loops over the input' % len(src_loops))
    loop = src_loops[0]
    elem = loop.target.id if isinstance(loop.target, ast.Name) else None
    apps = [c for c in A.walk_stmts(loop.body) if isinstance(c, ast.Call) and isinstance(c.func, ast.Attribute)
            and c.func.attr in ('append', 'insert', 'extend', 'add') and isinstance(c.func.value, ast.Name)]
    ok = len(apps) == 1 and apps[0].func.attr == 'append' and A.is_name(apps[0].args[0], elem or '\0') \
        and not flow.guards_of(apps[0], loop)
    rep.ob('LS', K.key(ls, '__iter__', 'one-unconditional-append-per-element'), ok, loop,
           '' if ok else 'every source element must be appended to the buffer exactly once')
    buf = apps[0].func.value.id if apps else None
    # buffer is a fresh local per iterator
    bdefs = [n for n in A.walk_local(fn) if isinstance(n, ast.Assign) and A.is_name(n.targets[0], buf or '\0')]
    ok = len(bdefs) == 1 and ((isinstance(bdefs[0].value, ast.Call) and A.dotted(bdefs[0].value.func) == 'list'
                               and not bdefs[0].value.args) or (isinstance(bdefs[0].value, ast.List) and not bdefs[0].value.elts)) \
        and not any(A.is_self_attr(x) and x.attr == buf for x in ast.walk(fn))
    rep.ob('LS', K.key(ls, '__iter__', 'buffer-is-a-fresh-local-list'), ok, bdefs[0] if bdefs else fn,
           '' if ok else 'the shuffle buffer must be a new empty list local to each iterator')
    # emission inside the loop
    ys = [y for y in A.walk_stmts(loop.body) if isinstance(y, ast.Yield)]
    ok_guard = ok_pop = False
    if len(ys) == 1:
        y = ys[0]
        v = y.value
        ok_pop = isinstance(v, ast.Call) and isinstance(v.func, ast.Attribute) and v.func.attr == 'pop' \
            and A.is_name(v.func.value, buf or '\0')
        for test, branch in flow.guards_of(y, loop):
            kind, ats = A.atoms(test, negated=not branch)
            for a in ats:
                if len(a) == 3 and a[2] is not None:
                    r = A.norm_cmp(a[0], a[1], a[2], lambda e: isinstance(e, ast.Call) and A.dotted(e.func) == 'len'
                                   and e.args and A.is_name(e.args[0], buf or '\0'))
                    if r and r[0] in ('>=', '==') and A.is_self_attr(r[1], 'buffer_size') and kind == 'and':
                        ok_guard = True
        # index drawn within the buffer
        idx_ok = False
        if ok_pop and v.args:
            idx = v.args[0]
            for c in ast.walk(idx):
                if isinstance(c, ast.Call) and isinstance(c.func, ast.Attribute) and c.func.attr in ('choice', 'randint', 'integers') \
                        and c.args and (A.is_self_attr(c.args[0], 'buffer_size') or 'len(%s)' % buf in A.src(c.args[0])):
                    idx_ok = True
        rep.ob('LS', K.key(ls, '__iter__', 'popped-index-drawn-within-the-buffer'), idx_ok, y,
               '' if idx_ok else 'the popped position must be drawn from range(buffer_size) / range(len(buffer))')
    rep.ob('LS', K.key(ls, '__iter__', 'emits-only-from-a-full-buffer(len>=buffer_size)'), ok_guard and len(ys) == 1,
           ys[0] if ys else loop,
           '' if ok_guard else 'inside the loop an element may be emitted only when len(buffer) >= self.buffer_size '
           '(otherwise elements leave earlier than buffer_size-1 positions before their source position)')
    rep.ob('LS', K.key(ls, '__iter__', 'emitted-element-is-popped'), ok_pop, ys[0] if ys else loop,
           '' if ok_pop else 'the emitted element must be removed from the buffer by the same pop (else it is emitted twice)')
    # nothing else removes from / rebinds the buffer
    removers = [c for c in A.walk_local(fn) if isinstance(c, ast.Call) and isinstance(c.func, ast.Attribute)
                and c.func.attr in ('pop', 'remove', 'clear', 'popleft') and A.is_name(c.func.value, buf or '\0')]
    dels = [n for n in A.walk_local(fn) if isinstance(n, ast.Delete) and buf and buf in A.src(n)]
    ok = len(removers) == (1 if ok_pop else 0) and not dels
    rep.ob('LS', K.key(ls, '__iter__', 'single-removal-site'), ok, removers[-1] if removers else fn,
           '' if ok else 'elements leave the buffer at more than one place')
    # final flush: after the loop every remaining element is yielded
    after = fn.body[fn.body.index(loop) + 1:]
    flush = [l for l in after if isinstance(l, ast.For) and A.is_name(l.iter, buf or '\0')]
    ok = len(flush) == 1 and isinstance(flush[0].target, ast.Name) and len(flush[0].body) == 1 and \
        isinstance(flush[0].body[0], ast.Expr) and isinstance(flush[0].body[0].value, ast.Yield) and \
        A.is_name(flush[0].body[0].value.value, flush[0].target.id)
    if not ok:
        ok = any(isinstance(s, ast.Expr) and isinstance(s.value, ast.YieldFrom) and A.is_name(s.value.value, buf or '\0')
                 for s in after)
    rep.ob('LS', K.key(ls, '__iter__', 'final-flush-yields-every-remaining-element'), ok, flush[0] if flush else fn,
           '' if ok else 'after the source is exhausted every element still in the buffer must be yielded, unconditionally')
    # between loop and flush only a shuffle of the buffer
    mid_ok = all(isinstance(s, ast.Expr) and isinstance(s.value, ast.Call) and isinstance(s.value.func, ast.Attribute)
                 and s.value.func.attr == 'shuffle' for s in after if not isinstance(s, ast.For) and not (
                     isinstance(s, ast.Expr) and isinstance(s.value, ast.YieldFrom)))
    rep.ob('LS', K.key(ls, '__iter__', 'remaining-buffer-only-permuted'), mid_ok, fn, '')
    # paired / plain iterator chosen by with_key (checked in C03.W2); length forwarded
    ln = ls.own('__len__')
    ok = ln is not None and any(isinstance(r.value, ast.Call) and A.dotted(r.value.func) == 'len'
                                and A.is_self_attr(r.value.args[0], INPUT_ATTR) for r in flow.returns_of(ln.node))
    rep.ob('LS', K.key(ls, '__len__', 'forwards-len(input)'), ok, ln.node if ln else ls.node, '')
    base = ctx.repo.dataset_base()
    for c in [n for n in A.walk_local(base.own('shuffle').node) if isinstance(n, ast.Call) and A.dotted(n.func) == 'LocalShuffleDataset']:
        b = flow.bind(c, ls.own('__init__').node)
        e = b.args.get('buffer_size')
        ok = A.is_name(e, 'buffer_size')
        rep.ob('LS', K.key(base, 'shuffle', 'passes(buffer_size)->LocalShuffleDataset'), ok, c,
               '' if ok else 'the requested buffer_size does not reach the stage (%s): elements can leave far earlier than '
               'buffer_size - 1 positions before their source position' % ('default %s' % A.short(b.sig['defaults'].get('buffer_size'))
                                                                              if e is None else A.short(e)))
    init = ls.own('__init__').node
    ok = any(isinstance(n, ast.Assign) and A.is_self_attr(n.targets[0], 'buffer_size') and A.is_name(n.value, 'buffer_size')
             for n in A.walk_local(init))
    rep.ob('LS', K.key(ls, '__init__', 'stores(buffer_size)-unchanged'), ok, init, '')


def rule_tl(ctx):
    rep = ctx.report
    base = ctx.repo.dataset_base()
    rc = base.own('random_choice')
    if rc is None:
        raise AnalysisError('anchor vanished: Dataset.random_choice')
    fn = rc.node
    calls = [n for n in A.walk_local(fn) if isinstance(n, ast.Call) and isinstance(n.func, ast.Attribute) and n.func.attr == 'choice']
    ok = len(calls) == 1 and calls[0].args and A.src(calls[0].args[0]) == 'len(self)' and \
        any(kw.arg == 'replace' and A.is_name(kw.value, 'replace') for kw in calls[0].keywords) and \
        any(kw.arg == 'size' and A.is_name(kw.value, 'size') for kw in calls[0].keywords) and \
        A.is_name(calls[0].func.value, 'rng_state')
    rep.ob('TL', K.key(base, 'random_choice', 'choice(len(self),size=size,replace=replace)-on-the-given-rng'), ok, fn,
           '' if ok else 'sampling must draw indices with rng_state.choice(len(self), size=size, replace=replace)')
    # the names handed to choice() still hold what the caller passed: no parameter is rebound on the way
    params = [x.arg for x in fn.args.args + fn.args.kwonlyargs][1:]
    rebound = sorted({t for n in A.walk_local(fn) for t in (
        [x for tg in n.targets for x in A.name_targets(tg)] if isinstance(n, ast.Assign) else
        [n.target.id] if isinstance(n, (ast.AugAssign, ast.AnnAssign)) and isinstance(n.target, ast.Name) else []) if t in params})
    rep.ob('TL', K.key(base, 'random_choice', 'parameters-reach-choice()-unchanged'), not rebound, fn,
           '' if not rebound else 'parameter(s) %s are overwritten before the draw: e.g. a request without replacement is '
           'answered with replacement (an example is chosen twice)' % rebound)
    d = flow.signature(fn)['defaults'].get('replace')
    ok = A.is_const(d, False)
    rep.ob('TL', K.key(base, 'random_choice', 'default-without-replacement'), ok, fn, '')
    rets = flow.returns_of(fn)
    ok = len(rets) == 1 and isinstance(rets[0].value, ast.Subscript) and A.is_name(rets[0].value.value, 'self') and \
        isinstance(flow.copy_prop(rets[0].value.slice, fn), ast.Call) and flow.copy_prop(rets[0].value.slice, fn) is calls[0]
    rep.ob('TL', K.key(base, 'random_choice', 'returns-self[drawn-indices]'), ok, fn, '')
    tl = base.own('tile')
    fn = tl.node
    reps = [n for n in A.walk_local(fn) if isinstance(n, ast.BinOp) and isinstance(n.op, ast.Mult)
            and {A.src(n.left), A.src(n.right)} == {'[self]', 'reps'}]
    ok = len(reps) == 1
    rep.ob('TL', K.key(base, 'tile', 'reps-copies-of-self'), ok, fn, '' if ok else 'tile must concatenate exactly `reps` times self')
    shuf = [n for n in A.walk_local(fn) if isinstance(n, ast.ListComp) and isinstance(n.elt, ast.Call)
            and isinstance(n.elt.func, ast.Attribute) and n.elt.func.attr == 'shuffle' and not n.generators[0].ifs]
    ok = len(shuf) == 1 and any(A.is_name(A.strip_not(t)[0], 'shuffle') and b != A.strip_not(t)[1]
                                for t, b in flow.guards_of(shuf[0], fn))
    rep.ob('TL', K.key(base, 'tile', 'each-repetition-shuffled-separately-iff-shuffle'), ok, fn,
           '' if ok else 'with shuffle=True every repetition must be a (whole) shuffled copy, none dropped')
    rets = flow.returns_of(fn)
    ok = len(rets) == 1 and isinstance(rets[0].value, ast.Call) and A.src(rets[0].value.func).endswith('concatenate') and \
        len(rets[0].value.args) == 1 and isinstance(rets[0].value.args[0], ast.Starred)
    rep.ob('TL', K.key(base, 'tile', 'concatenates-all-repetitions'), ok, fn, '')


def run(ctx):
    rule_ii(ctx)
    rule_pp(ctx)
    rule_fr(ctx)
    rule_ls(ctx)
    rule_tl(ctx)
