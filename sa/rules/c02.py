"""C02 — length and integer indexing agree with iteration.

K0 member kinds of the capability members          K1 indexable => len + int lookup
K2 count-changing stages do not forward len        N  index arithmetic only after normalisation
NW part walk guarded by the in-range test          BL batch length / tail / drop_last agree
OT order-table writer and readers agree            SX one index array behind len/iter/getitem/keys
"""
import ast

from .. import astutil as A
from .. import flow
from ..cfg import CFG, normal
from ..effects import INPUT_ATTR, INPUTS_ATTR
from ..model import AnalysisError
from . import common as K

META = {
    'id': 'C02',
    'technique': 'capability table derived per class by abstract evaluation of indexable/__len__/__getitem__; '
                 'CFG guard analysis of index translation (negative-index idiom, in-range part walk); '
                 'writer/reader agreement of stored index tables',
    'explanation': 'Derives for every stage the capability table (indexable, __len__, int branch of __getitem__, '
                   'iteration class) from the code and checks its consistency: an override keeps the member kind; '
                   'a stage that may be indexable has a non-raising __len__ and an int branch that returns; a stage '
                   'that drops, multiplies or catches examples does not forward len(input); every __getitem__ that '
                   'does arithmetic on the integer index first normalises negatives against len(self) and raises '
                   'IndexError when still out of range; a part walk returns part[i] only under i < len(part); batch '
                   'length, tail emission and drop_last agree; the (position, part, index) table of intersperse is read '
                   'with the component positions it was written with; len/iter/getitem/keys of a slice use one index '
                   'array. ds[i] == list(ds)[i] as values is not decided.',
    'not_decided': 'equality of ds[i] with the i-th iterated value',
    'assumptions': ['tuple/list/ndarray subscripting raises IndexError outside [-n, n)'],
}

K1_TABLE = {'CycleDataset': 'infinite: the property speaks of finite datasets'}
K2_TABLE = {
    'LocalShuffleDataset': 'emits from a bounded buffer and flushes the rest: count preserved (C12.LS checks it)',
    'BatchDataset': 'own arithmetic, checked by BL',
}


def _len_class(cls, repo):
    mem = cls.resolve('__len__')
    if mem is None or mem.owner is repo.dataset_base():
        return 'absent', mem
    fn = mem.node
    rets = [r for r in flow.returns_of(fn) if r.value is not None]
    raises = [n for n in A.walk_local(fn) if isinstance(n, ast.Raise)]
    if not rets:
        return 'raises', mem
    fwd = [r for r in rets if isinstance(r.value, ast.Call) and A.dotted(r.value.func) == 'len'
           and r.value.args and A.is_self_attr(r.value.args[0], INPUT_ATTR)]
    if len(fwd) == len(rets):
        return ('conditional-forward' if raises else 'forward'), mem
    return ('conditional-own' if raises else 'own'), mem


def _int_arm(cls):
    """('returns'|'raises'|'absent', arm, member): what ds[<int>] does, decided on the statements that run for an int"""
    mem = cls.resolve('__getitem__')
    if mem is None or not mem.is_function:
        return 'absent', None, None
    fn = mem.node
    if K.only_raises(fn):
        return 'absent', None, mem
    item, arms = K.getitem_arms(fn)
    if not arms:
        # no dispatch on the index type at all: a wrapper that forwards the index unchanged to its input
        for n in A.walk_local(fn):
            if isinstance(n, ast.Return) and isinstance(n.value, ast.Subscript) and A.is_name(n.value.slice, item) \
                    and A.is_self_attr(n.value.value, INPUT_ATTR):
                return 'returns', None, mem
        return 'absent', None, mem
    arm = [a for a in arms if 'int' in a['types']][0]
    body = arm['body']

    def is_super_getitem(v):
        return isinstance(v, ast.Call) and isinstance(v.func, ast.Attribute) and isinstance(v.func.value, ast.Call) \
            and A.dotted(v.func.value.func) == 'super'
    rets = [n for n in A.walk_stmts(body) if isinstance(n, ast.Return) and n.value is not None]
    real = [r for r in rets if not is_super_getitem(r.value)]
    has_raise = any(isinstance(n, ast.Raise) for n in A.walk_stmts(body)) or arm['dead_end']
    if real:
        return 'returns', arm, mem
    if has_raise and not rets:
        return 'raises', arm, mem
    return 'absent', arm, mem


def rule_k0(ctx):
    rep = ctx.report
    base = ctx.repo.dataset_base()
    n = 0
    for cls in K.family(ctx, floor=20):
        for name in ('indexable', 'ordered', '__len__', 'keys', '__iter__', '__getitem__', 'copy', 'items'):
            own = cls.own(name)
            bm = base.own(name)
            if own is None or bm is None:
                continue
            n += 1
            ok = own.kind == bm.kind
            rep.ob('K0', K.key(cls, name, 'member-kind'), ok, own.node,
                   '' if ok else '%s overrides a %s of the base class with a %s: `ds.%s` is then %s'
                   % (name, bm.kind, own.kind, name,
                      'a bound method (always truthy)' if bm.kind == 'property' else 'not callable'))
    rep.floor('protocol member overrides', n, 100)


def rule_k1(ctx):
    rep = ctx.report
    n = 0
    for cls in K.family(ctx):
        val, mem = K.abstract_bool_property(cls, 'indexable', ctx.repo)
        if mem is None or mem.owner is ctx.repo.dataset_base():
            rep.ob('K1', K.key(cls, 'indexable', 'defined'), False, cls.node, 'stage does not define `indexable`')
            continue
        if mem.kind != 'property':
            continue   # reported by K0
        n += 1
        lc, lmem = _len_class(cls, ctx.repo)
        ia, arm, gmem = _int_arm(cls)
        if val == ('const', False):
            ok = ia in ('absent', 'raises')
            rep.ob('K1', K.key(cls, None, 'not-indexable=>no-int-lookup'), ok, (gmem.node if gmem else cls.node),
                   '' if ok else 'indexable is False but ds[int] returns a value (%s)' % ia)
        else:
            if cls.name in K1_TABLE:
                rep.ob('K1', K.key(cls, None, 'tabled'), True, cls.node, K1_TABLE[cls.name], nontrivial=False)
                continue
            ok_len = lc in ('forward', 'own', 'conditional-own', 'conditional-forward')
            rep.ob('K1', K.key(cls, None, 'indexable=>len'), ok_len, (lmem.node if lmem else cls.node),
                   '' if ok_len else 'may report indexable=True (%s) but __len__ is %s' % (val, lc))
            ok_get = ia in ('returns',)
            rep.ob('K1', K.key(cls, None, 'indexable=>int-lookup'), ok_get, (gmem.node if gmem else cls.node),
                   '' if ok_get else 'may report indexable=True (%s) but the integer branch of __getitem__ is %s'
                   % (val, ia))
            if val[0] == 'other':
                # SliceDataset: `assert input.indexable; return True`
                rep.note('indexable of %s evaluated as %s' % (cls.name, val))
    rep.floor('indexable properties', n, 20)


def rule_k2(ctx):
    rep = ctx.report
    n = 0
    for cls in K.family(ctx):
        flags, fn = K.iteration_class(ctx, cls)
        lc, lmem = _len_class(cls, ctx.repo)
        changing = flags & {'conditional', 'catching', 'nested'}
        if not changing:
            continue
        n += 1
        if cls.name in K2_TABLE and lc in ('forward', 'own'):
            rep.ob('K2', K.key(cls, '__len__', 'tabled'), True, lmem.node, K2_TABLE[cls.name], nontrivial=False)
            continue
        if lc == 'conditional-forward':
            # PrefetchDataset: the length is forwarded only on paths where no catch selection is configured
            fnl = lmem.node

            def catch_cond(node):
                """truthiness of the catch selection on the path to node: True / False / None (not tested) /
                'narrow' (tested with is True etc.)"""
                res = None
                for t0, truth in flow.guards_of(node, fnl):
                    t, neg = A.strip_not(t0)
                    if A.is_self_attr(t) and 'catch' in t.attr:
                        res = (truth != neg)
                    elif any(A.is_self_attr(x) and 'catch' in x.attr for x in ast.walk(t0)):
                        return 'narrow'
                return res
            rets_ = [r for r in flow.returns_of(fnl) if r.value is not None]
            raises_ = [r for r in A.walk_local(fnl) if isinstance(r, ast.Raise)]
            ok = bool(rets_) and all(catch_cond(r) is False for r in rets_) and any(catch_cond(r) is True for r in raises_)
            rep.ob('K2', K.key(cls, '__len__', 'raises-when-catching'), ok, fnl,
                   '' if ok else 'length is forwarded although examples may be dropped by catch_filter_exception')
            continue
        ok = lc in ('absent', 'raises', 'own', 'conditional-own')
        rep.ob('K2', K.key(cls, '__len__', 'count-changing-stage-has-no-forwarded-len'), ok,
               lmem.node if lmem else cls.node,
               '' if ok else 'iteration is %s, yet __len__ forwards len(input): the reported length is not the '
               'number of yielded examples' % '/'.join(sorted(changing)))
    rep.floor('count-changing stages', n, 5)


def _item_arith(arm_body, item):
    """BinOp / AugAssign nodes in which the index takes part (not %)"""
    out = []
    for n in A.walk_stmts(arm_body):
        if isinstance(n, ast.BinOp) and not isinstance(n.op, ast.Mod) and (
                A.is_name(n.left, item) or A.is_name(n.right, item)):
            out.append(n)
        elif isinstance(n, ast.AugAssign) and A.is_name(n.target, item) and not isinstance(n.op, ast.Mod):
            out.append(n)
    return out


def _neg_norm(fn, body, item):
    """find the idiom  if item < 0: item = item + len(self) [...] if item < 0: raise IndexError
    returns (has_add, has_raise, test_node)"""
    for n in A.walk_stmts(body):
        if not isinstance(n, ast.If):
            continue
        kind, ats = A.atoms(n.test)
        neg_test = False
        for a in ats:
            if len(a) == 3 and a[2] is not None:
                r = A.norm_cmp(a[0], a[1], a[2], lambda e: A.is_name(e, item))
                if r and r[0] == '<' and A.int_value(r[1]) == 0:
                    neg_test = True
        if not neg_test:
            continue
        has_add = False
        has_raise = False
        len_args = []
        for m in A.walk_stmts(n.body):
            if isinstance(m, ast.Assign) and len(m.targets) == 1 and A.is_name(m.targets[0], item) \
                    and isinstance(m.value, ast.BinOp) and isinstance(m.value.op, ast.Add):
                sides = [m.value.left, m.value.right]
                if any(A.is_name(s, item) for s in sides) and any(
                        isinstance(s, ast.Call) and A.dotted(s.func) == 'len' for s in sides):
                    has_add = True
                    len_args.extend(s.args[0] for s in sides if isinstance(s, ast.Call) and A.dotted(s.func) == 'len' and s.args)
            if isinstance(m, ast.AugAssign) and A.is_name(m.target, item) and isinstance(m.op, ast.Add) \
                    and isinstance(m.value, ast.Call) and A.dotted(m.value.func) == 'len':
                has_add = True
                len_args.extend(m.value.args[:1])
            if isinstance(m, ast.If):
                k2, ats2 = A.atoms(m.test)
                for a in ats2:
                    if len(a) == 3 and a[2] is not None:
                        r = A.norm_cmp(a[0], a[1], a[2], lambda e: A.is_name(e, item))
                        if r and r[0] == '<' and A.int_value(r[1]) == 0 and any(
                                isinstance(x, ast.Raise) and x.exc is not None and
                                'IndexError' in A.src(x.exc) for x in A.walk_stmts(m.body)):
                            has_raise = True
        if has_add:
            _neg_norm.len_args = len_args
            return has_add, has_raise, n
    _neg_norm.len_args = []
    return False, False, None


def own_length(cls, fn, len_args):
    """the length a negative index is normalised against is the length of the dataset itself: len(self), or len(E)
    where the class's __len__ is `return len(E)`. Returns the offending expression or None."""
    lm = cls.resolve('__len__') if cls is not None else None
    own = set()
    if lm is not None and lm.is_function:
        for r in flow.returns_of(lm.node):
            if isinstance(r.value, ast.Call) and A.dotted(r.value.func) == 'len' and r.value.args:
                own.add(A.src(r.value.args[0]))
    selfname = fn.args.args[0].arg if fn.args.args else 'self'
    for e in len_args:
        e2 = flow.expand(e, fn)
        if A.is_name(e2, selfname) or A.src(e2) in own:
            continue
        return e
    return None


def rule_n(ctx):
    rep = ctx.report
    n_arith = 0
    for cls in ctx.repo.classes.values():
        mem = cls.own('__getitem__')
        if mem is None or not mem.is_function or K.only_raises(mem.node):
            continue
        fn = mem.node
        params = [a.arg for a in fn.args.posonlyargs + fn.args.args]
        item = params[1]
        fam = ctx.repo.dataset_base() in cls.mro
        if fam:
            _i, arms = K.getitem_arms(fn)
            bodies = [a['body'] for a in arms if a['types'] and 'int' in a['types']]
        else:
            bodies = [fn.body]
        for body in bodies:
            arith = _item_arith(body, item)
            mods = [x for x in A.walk_stmts(body) if (isinstance(x, ast.BinOp) and isinstance(x.op, ast.Mod) and A.is_name(x.left, item))
                    or (isinstance(x, ast.AugAssign) and isinstance(x.op, ast.Mod) and A.is_name(x.target, item))]
            if mods:
                # wrapping with % is total - legitimate only for a stage of infinite length (its __len__ only raises)
                lm = cls.resolve('__len__')
                finite = lm is not None and lm.is_function and not K.only_raises(lm.node)
                if finite:
                    rep.ob('N', K.key(cls, '__getitem__', 'index-not-wrapped-with-modulo'), False, mods[0],
                           'the integer index is wrapped with %% (`%s`) although the stage has a finite length: an index below '
                           '-len(self) wraps around again instead of raising IndexError' % A.short(mods[0], 40))
            if not arith:
                continue
            n_arith += 1
            # modulo translation is total - legitimate only for a stage of infinite length (its __len__ only raises);
            # a finite stage that wraps with % answers ds[-len-1] instead of raising IndexError
            if any(isinstance(x, ast.BinOp) and isinstance(x.op, ast.Mod) and A.is_name(x.left, item)
                   for x in A.walk_stmts(body)) and not any(
                    not isinstance(x.op if isinstance(x, ast.BinOp) else x.op, ast.Mod) for x in arith):
                continue
            has_add, has_raise, test = _neg_norm(fn, body, item)
            ok = has_add and has_raise
            # normalisation must come before the first arithmetic use
            if ok and test is not None:
                ok = all(getattr(x, 'lineno', 0) > test.lineno or any(
                    t is test for t in A.ancestors(x)) for x in arith)
            wrong = own_length(cls, fn, _neg_norm.len_args) if has_add else None
            if wrong is not None:
                rep.ob('N', K.key(cls, '__getitem__', 'index-normalised-against-own-length'), False, wrong,
                       'negative indices are normalised against len(%s), which is not the length of this dataset: '
                       'ds[-1] is translated to another position' % A.short(wrong, 40))
            rep.ob('N', K.key(cls, '__getitem__', 'index-arith-normalised'), ok, arith[0],
                   '' if ok else 'the integer index enters arithmetic (%s) %s: negative or out-of-range indices are '
                   'mistranslated instead of wrapping / raising IndexError' % (
                       A.short(arith[0], 40),
                       'without the `if i < 0: i += len(self)` normalisation' if not has_add else
                       'and a still-negative index is not rejected with IndexError'))
    rep.floor('__getitem__ with index arithmetic', n_arith, 3)


def rule_nw(ctx):
    """part walk: `return part[i]` only under i < len(part); otherwise i -= len(part); IndexError after the walk"""
    rep = ctx.report
    sites = 0
    for cls in K.family(ctx):
        mem = cls.own('__getitem__')
        if mem is None or not mem.is_function:
            continue
        fn = mem.node
        item, arms = K.getitem_arms(fn)
        _l, fctx = ctx.effects.local_effects(fn, cls, cls.module)
        for arm in arms:
            if not (arm['types'] and 'int' in arm['types']):
                continue
            for loop in A.walk_stmts(arm['body']):
                if not (isinstance(loop, ast.For) and fctx.kind(loop.iter) == 'DSSEQ'
                        and isinstance(loop.target, ast.Name)):
                    continue
                part = loop.target.id
                rets = [r for r in A.walk_stmts(loop.body) if isinstance(r, ast.Return)
                        and isinstance(r.value, ast.Subscript) and A.is_name(r.value.value, part)
                        and A.is_name(r.value.slice, item)]
                subs = [s for s in A.walk_stmts(loop.body) if (
                    isinstance(s, ast.AugAssign) and A.is_name(s.target, item) and isinstance(s.op, ast.Sub))
                    or (isinstance(s, ast.Assign) and A.is_name(s.targets[0], item)
                        and isinstance(s.value, ast.BinOp) and isinstance(s.value.op, ast.Sub)
                        and A.is_name(s.value.left, item))]
                if not rets or not subs:
                    continue
                sites += 1

                def implied(node, want_op):
                    """is (item want_op len(part)) implied by the guards around node?"""
                    for test, branch in flow.guards_of(node, loop):
                        kind, ats = A.atoms(test, negated=not branch)
                        if kind == 'or' and len(ats) > 1:
                            continue
                        for a in ats:
                            if len(a) == 3 and a[2] is not None:
                                r = A.norm_cmp(a[0], a[1], a[2], lambda e: A.is_name(e, item))
                                if r and isinstance(r[1], ast.Call) and A.dotted(r[1].func) == 'len' \
                                        and r[1].args and A.is_name(r[1].args[0], part) and r[0] == want_op:
                                    return True
                    return False

                r0 = rets[0]
                ok_r = implied(r0, '<')
                if not ok_r:
                    # early-continue form: `if item >= len(part): item -= len(part); continue` before the return
                    for st in loop.body:
                        if st is r0 or any(x is r0 for x in ast.walk(st)):
                            break
                        if isinstance(st, ast.If) and any(isinstance(x, ast.Continue) for x in A.walk_stmts(st.body)):
                            kind, ats = A.atoms(st.test)
                            for a in ats:
                                if len(a) == 3 and a[2] is not None:
                                    r = A.norm_cmp(a[0], a[1], a[2], lambda e: A.is_name(e, item))
                                    if r and r[0] == '>=' and isinstance(r[1], ast.Call) \
                                            and A.dotted(r[1].func) == 'len':
                                        ok_r = True
                rep.ob('NW', K.key(cls, '__getitem__', 'part-lookup-guarded-by(i<len(part))'), ok_r, r0,
                       '' if ok_r else '`%s` is not guarded by exactly `%s < len(%s)`: the boundary index goes to the '
                       'wrong part or raises' % (A.short(r0), item, part))
                s0 = subs[0]
                ok_s = implied(s0, '>=')
                amount = s0.value if isinstance(s0, ast.AugAssign) else s0.value.right
                ok_amt = isinstance(amount, ast.Call) and A.dotted(amount.func) == 'len' and amount.args \
                    and A.is_name(amount.args[0], part)
                rep.ob('NW', K.key(cls, '__getitem__', 'skip-subtracts-len(part)'), ok_s and ok_amt, s0,
                       '' if ok_s and ok_amt else 'when the index lies beyond a part the walk must subtract exactly '
                       'len(%s) under `%s >= len(%s)`' % (part, item, part))
                # after the loop: raise IndexError
                idx = None
                body = arm['body']
                after_raise = False
                for i, st in enumerate(body):
                    if st is loop:
                        after_raise = any(isinstance(x, ast.Raise) and 'IndexError' in A.src(x)
                                          for x in body[i + 1:i + 2])
                rep.ob('NW', K.key(cls, '__getitem__', 'exhausted-walk-raises-IndexError'), after_raise, loop,
                       '' if after_raise else 'an index beyond the last part must raise IndexError right after the walk')
    rep.floor('part walks', sites, 1)


def rule_bl(ctx):
    """BatchDataset: __len__, in-loop emission, tail emission and __getitem__ agree on drop_last"""
    rep = ctx.report
    cls = ctx.repo.cls('core.BatchDataset')
    # ---- __len__
    lm = cls.own('__len__')
    im = cls.own('__iter__')
    gm = cls.own('__getitem__')
    if not (lm and im and gm):
        raise AnalysisError('anchor vanished: BatchDataset.__len__/__iter__/__getitem__')
    fn = lm.node

    def rounding(expr):
        """'floor' | 'ceil' | None for the outermost rounding of a length expression"""
        e = flow.copy_prop(expr, fn)
        s = A.src(e)
        if isinstance(e, ast.BinOp) and isinstance(e.op, ast.FloorDiv):
            # -(-n // b) is ceil
            return 'floor'
        if isinstance(e, ast.UnaryOp) and isinstance(e.op, ast.USub) and isinstance(e.operand, ast.BinOp) \
                and isinstance(e.operand.op, ast.FloorDiv):
            return 'ceil'
        if isinstance(e, ast.Call):
            d = A.dotted(e.func) or ''
            if d.endswith('ceil'):
                return 'ceil'
            if d.endswith('floor'):
                return 'floor'
            if d == 'int' and e.args:
                inner = rounding(e.args[0])
                return inner or 'floor'
        return None

    def mentions_division(expr):
        e = flow.copy_prop(expr, fn)
        for n in ast.walk(e):
            if isinstance(n, ast.Name):
                e2 = flow.copy_prop(n, fn)
                if e2 is not n and mentions_division(e2):
                    return True
            if isinstance(n, ast.BinOp) and isinstance(n.op, (ast.Div, ast.FloorDiv)):
                num, den = n.left, n.right
                if 'len(self.input_dataset)' in A.src(num) and A.is_self_attr(den, 'batch_size'):
                    return True
        return False

    rets = flow.returns_of(fn)
    seen = {}
    for r in rets:
        guards = flow.guards_of(r, fn)
        under_drop = None
        for test, branch in guards:
            t, neg = A.strip_not(test)
            if A.is_self_attr(t, 'drop_last'):
                under_drop = (branch != neg)
        if under_drop is None:
            # fall-through return after `if self.drop_last: return ...`
            prior = [s for s in fn.body if isinstance(s, ast.If) and A.is_self_attr(A.strip_not(s.test)[0], 'drop_last')
                     and s.lineno < r.lineno and any(isinstance(x, ast.Return) for x in s.body) and not s.orelse]
            if prior:
                under_drop = A.strip_not(prior[0].test)[1]   # body handled drop_last==True unless negated
        seen[under_drop] = (rounding(r.value), mentions_division(r.value), r)
    ok_len = (True in seen and seen[True][0] == 'floor' and seen[True][1]
              and False in seen and seen[False][0] == 'ceil' and seen[False][1])
    if not ok_len:
        # path view: evaluate __len__ once with drop_last true and once with it false
        sym = {}
        for val in (True, False):
            def decide(test, val=val):
                t, neg = A.strip_not(test)
                if A.is_self_attr(t, 'drop_last'):
                    return val != neg
                return None
            stmts, ret = flow.run_under(fn, decide)
            if stmts is None or ret is None or ret.value is None:
                sym = None
                break
            e = flow.symbolic_value(stmts[:-1], ret.value)
            div = any(isinstance(n, ast.BinOp) and isinstance(n.op, (ast.Div, ast.FloorDiv))
                      and 'len(self.input_dataset)' in A.src(n.left) and A.is_self_attr(n.right, 'batch_size') for n in ast.walk(e))

            def rnd(e):
                if isinstance(e, ast.BinOp) and isinstance(e.op, ast.FloorDiv):
                    return 'floor'
                if isinstance(e, ast.UnaryOp) and isinstance(e.op, ast.USub) and isinstance(e.operand, ast.BinOp) \
                        and isinstance(e.operand.op, ast.FloorDiv):
                    return 'ceil'
                if isinstance(e, ast.Call):
                    d = A.dotted(e.func) or ''
                    if d.endswith('ceil'):
                        return 'ceil'
                    if d.endswith('floor'):
                        return 'floor'
                    if d == 'int' and e.args:
                        return rnd(e.args[0]) or 'floor'
                return None
            sym[val] = (rnd(e), div)
        if sym is not None:
            seen = {k: (v[0], v[1], fn) for k, v in sym.items()}
            ok_len = seen[True] [:2] == ('floor', True) and seen[False][:2] == ('ceil', True)
    rep.ob('BL', K.key(cls, '__len__', 'floor-if-drop_last-else-ceil(len/batch_size)'), ok_len, fn,
           '' if ok_len else 'len must be floor(len(input)/batch_size) under drop_last and ceil otherwise; found %s'
           % {k: (v[0], v[1]) for k, v in seen.items()})
    # ---- __iter__
    it = im.node
    buf = None
    for n in A.walk_local(it):
        if isinstance(n, ast.For) and A.is_self_attr(n.iter, INPUT_ATTR):
            loop = n
            break
    else:
        raise AnalysisError('BatchDataset.__iter__: loop over the input not found')
    appends = [c for c in A.walk_stmts(loop.body) if isinstance(c, ast.Call) and isinstance(c.func, ast.Attribute)
               and c.func.attr == 'append' and isinstance(c.func.value, ast.Name)
               and c.args and A.is_name(c.args[0], loop.target.id if isinstance(loop.target, ast.Name) else '')]
    ok_app = len(appends) == 1 and not flow.guards_of(appends[0], loop)
    rep.ob('BL', K.key(cls, '__iter__', 'one-unconditional-append-per-element'), ok_app, loop,
           '' if ok_app else 'every input element must be appended to the current batch exactly once')
    if appends:
        buf = appends[0].func.value.id
        app_stmt = [s for s in loop.body if any(x is appends[0] for x in ast.walk(s))]
        tests_ = [s for s in loop.body if isinstance(s, ast.If) and any(isinstance(x, ast.Yield) for x in A.walk_stmts(s.body + s.orelse))]
        ok_ord = bool(app_stmt) and bool(tests_) and loop.body.index(app_stmt[0]) < loop.body.index(tests_[0])
        rep.ob('BL', K.key(cls, '__iter__', 'append-precedes-the-fullness-test'), ok_ord, loop,
               '' if ok_ord else 'the element must be appended before the batch is tested for being full: otherwise a full '
               'batch is only emitted when the next element arrives, and with drop_last a full last batch is discarded')
    emit_ok = False
    reset_ok = False
    for n in A.walk_stmts(loop.body):
        if isinstance(n, ast.If):
            kind, ats = A.atoms(n.test)
            for a in ats:
                if len(a) == 3 and a[2] is not None:
                    r = A.norm_cmp(a[0], a[1], a[2], lambda e: isinstance(e, ast.Call) and A.dotted(e.func) == 'len'
                                   and e.args and A.is_name(e.args[0], buf))
                    if r and r[0] in ('>=', '==') and A.is_self_attr(r[1], 'batch_size'):
                        ys = [i for i, s in enumerate(n.body) if isinstance(s, ast.Expr) and isinstance(s.value, ast.Yield)
                              and A.is_name(s.value.value, buf)]
                        if ys:
                            emit_ok = True
                            nxt = n.body[ys[0] + 1:ys[0] + 2]
                            if nxt and isinstance(nxt[0], ast.Assign) and A.is_name(nxt[0].targets[0], buf):
                                v = nxt[0].value
                                if (isinstance(v, ast.Call) and A.dotted(v.func) == 'list' and not v.args) or (
                                        isinstance(v, ast.List) and not v.elts):
                                    reset_ok = True
    rep.ob('BL', K.key(cls, '__iter__', 'emit-when-len(batch)>=batch_size'), emit_ok, loop,
           '' if emit_ok else 'a full batch must be yielded as soon as len(batch) reaches self.batch_size')
    rep.ob('BL', K.key(cls, '__iter__', 'fresh-list-after-emission'), reset_ok, loop,
           '' if reset_ok else 'after yielding a batch the buffer must be rebound to a new empty list (clearing in '
           'place would empty the batch the consumer holds)')
    # tail
    tail_ok = False
    body = it.body
    for st in body:
        if isinstance(st, ast.If) and st.lineno > loop.lineno:
            kind, ats = A.atoms(st.test)
            has_nonempty = any(len(a) == 3 and a[2] is not None and (
                (lambda r: r and ((r[0] == '>' and A.int_value(r[1]) == 0) or (r[0] == '>=' and A.int_value(r[1]) == 1)
                                  or (r[0] == '!=' and A.int_value(r[1]) == 0)))(
                    A.norm_cmp(a[0], a[1], a[2], lambda e: isinstance(e, ast.Call) and A.dotted(e.func) == 'len'
                               and e.args and A.is_name(e.args[0], buf)))) for a in ats) or any(
                a[1] == 'truthy' and A.is_name(a[0], buf) for a in ats if len(a) == 3)
            has_notdrop = any(len(a) == 3 and a[1] == 'falsy' and A.is_self_attr(a[0], 'drop_last') for a in ats)
            yields_buf = any(isinstance(x, ast.Yield) and A.is_name(x.value, buf) for x in A.walk_stmts(st.body))
            if kind == 'and' and has_nonempty and has_notdrop and yields_buf:
                tail_ok = True
    rep.ob('BL', K.key(cls, '__iter__', 'tail-emitted-iff-nonempty-and-not-drop_last'), tail_ok, it,
           '' if tail_ok else 'the incomplete last batch must be yielded exactly when it is non-empty and drop_last is off')
    # ---- __getitem__: first lookup failure propagates, later ones only without drop_last
    g = gm.node
    ok_exc = False
    for n in A.walk_local(g):
        if isinstance(n, ast.ExceptHandler) and n.type is not None and 'IndexError' in A.src(n.type):
            for m in A.walk_stmts(n.body):
                if isinstance(m, ast.If):
                    in_body = any(isinstance(x, ast.Raise) and x.exc is None for x in m.body)
                    in_else = any(isinstance(x, ast.Raise) and x.exc is None for x in m.orelse)
                    if in_body == in_else:
                        continue
                    # condition under which the bare raise happens
                    kind, ats = A.atoms(m.test, negated=in_else)
                    z = any(len(a) == 3 and a[2] is not None and a[1] == '==' and 0 in (A.int_value(a[0]), A.int_value(a[2]))
                            for a in ats)
                    d = any(len(a) == 3 and a[1] == 'truthy' and A.is_self_attr(a[0], 'drop_last') for a in ats)
                    if kind == 'or' and z and d:
                        ok_exc = True
    rep.ob('BL', K.key(cls, '__getitem__', 'short-batch-only-without-drop_last'), ok_exc, g,
           '' if ok_exc else 'an IndexError inside the batch window must propagate for the first element and '
           'under drop_last, and only then')
    # window start and size
    ok_win = False
    # the index: the parameter, or a local that starts as a copy of it (and is then normalised in place)
    idx_names = {g.args.args[1].arg}
    grew = True
    while grew:
        grew = False
        for n in A.walk_local(g):
            if isinstance(n, ast.Assign) and len(n.targets) == 1 and isinstance(n.targets[0], ast.Name) \
                    and isinstance(n.value, ast.Name) and n.value.id in idx_names and n.targets[0].id not in idx_names:
                idx_names.add(n.targets[0].id)
                grew = True
    for n in A.walk_local(g):
        if isinstance(n, ast.For) and isinstance(n.iter, ast.Call) and A.dotted(n.iter.func) == 'range' \
                and len(n.iter.args) == 1 and A.is_self_attr(n.iter.args[0], 'batch_size') \
                and isinstance(n.target, ast.Name):
            iv = n.target.id
            for s in A.walk_stmts(n.body):
                if isinstance(s, ast.Subscript) and A.is_self_attr(s.value, INPUT_ATTR):
                    e = s.slice
                    if isinstance(e, ast.BinOp) and isinstance(e.op, ast.Add):
                        sides = [flow.copy_prop(e.left, g), flow.copy_prop(e.right, g)]
                        has_i = any(A.is_name(x, iv) for x in [e.left, e.right])
                        has_start = any(isinstance(x, ast.BinOp) and isinstance(x.op, ast.Mult) and
                                        ((isinstance(x.left, ast.Name) and x.left.id in idx_names and A.is_self_attr(x.right, 'batch_size'))
                                         or (isinstance(x.right, ast.Name) and x.right.id in idx_names and A.is_self_attr(x.left, 'batch_size')))
                                        for x in sides)
                        ok_win = has_i and has_start
    rep.ob('BL', K.key(cls, '__getitem__', 'window=item*batch_size+range(batch_size)'), ok_win, g,
           '' if ok_win else 'batch i must consist of input[i*batch_size + k] for k in range(batch_size)')


def rule_ot(ctx):
    """IntersperseDataset.order: tuple component positions agree between writer and readers"""
    rep = ctx.report
    cls = ctx.repo.cls('core.IntersperseDataset')
    init = cls.own('__init__')
    if init is None:
        raise AnalysisError('anchor vanished: IntersperseDataset.__init__')
    writer = None
    for n in A.walk_local(init.node):
        if isinstance(n, ast.Assign) and any(A.is_self_attr(t, 'order') for t in n.targets):
            writer = n
    if writer is None:
        raise AnalysisError('anchor vanished: IntersperseDataset.order is not written in __init__')
    comp = None
    for n in ast.walk(writer.value):
        if isinstance(n, (ast.ListComp, ast.GeneratorExp)) and isinstance(n.elt, ast.Tuple):
            comp = n
    if comp is None:
        raise AnalysisError('undecidable shape: IntersperseDataset.order is not built from a tuple comprehension')
    ds_var = ex_var = None
    for g in comp.generators:
        if isinstance(g.iter, ast.Call) and A.dotted(g.iter.func) == 'enumerate' and isinstance(g.target, ast.Tuple):
            ds_var = g.target.elts[0].id if isinstance(g.target.elts[0], ast.Name) else None
        if isinstance(g.iter, ast.Call) and A.dotted(g.iter.func) == 'range' and isinstance(g.target, ast.Name):
            ex_var = g.target.id
    elts = comp.elt.elts
    pos_ds = [i for i, e in enumerate(elts) if A.is_name(e, ds_var)]
    pos_ex = [i for i, e in enumerate(elts) if A.is_name(e, ex_var)]
    if len(pos_ds) != 1 or len(pos_ex) != 1:
        raise AnalysisError('undecidable shape: cannot locate part/example positions in the order tuple')
    pos_ds, pos_ex = pos_ds[0], pos_ex[0]
    # the first component decides the merge order: it must be the only one before them
    first_ok = pos_ds > 0 and pos_ex > pos_ds
    rep.ob('OT', K.key(cls, '__init__', 'order-tuple(position,part,index)'), first_ok, writer,
           '' if first_ok else 'the sort key tuple must be (relative position, part index, example index) so that '
           'ties are broken by part and then by example order')
    readers = 0
    for name in ('__getitem__', '__iter__', 'keys'):
        mem = cls.own(name)
        if mem is None:
            continue
        fn = mem.node
        for n in A.walk_local(fn):
            tgt = None
            if isinstance(n, (ast.For, ast.comprehension)) and A.is_self_attr(n.iter, 'order'):
                tgt = n.target
            elif isinstance(n, ast.Assign) and isinstance(n.value, ast.Subscript) \
                    and A.is_self_attr(n.value.value, 'order'):
                tgt = n.targets[0]
            if not isinstance(tgt, ast.Tuple) or len(tgt.elts) != len(elts):
                if tgt is not None:
                    rep.ob('OT', K.key(cls, name, 'order-entry-unpacked-whole'), False, n,
                           'an entry of self.order is not unpacked into its %d components' % len(elts))
                continue
            readers += 1
            dn = tgt.elts[pos_ds].id if isinstance(tgt.elts[pos_ds], ast.Name) else None
            en = tgt.elts[pos_ex].id if isinstance(tgt.elts[pos_ex], ast.Name) else None
            ok = True
            why = ''
            scope = fn
            for s in A.walk_local(scope):
                if isinstance(s, ast.Subscript) and isinstance(s.slice, ast.Name):
                    inner = s.value
                    if isinstance(inner, ast.Subscript) and isinstance(inner.slice, ast.Name):
                        # X[a][b]
                        if inner.slice.id in (dn, en) or s.slice.id in (dn, en):
                            if not (inner.slice.id == dn and s.slice.id == en):
                                ok = False
                                why = '%s reads %s: part index and example index are swapped or misplaced' % (
                                    name, A.short(s))
                    elif s.slice.id == en and not isinstance(A.parent(s), ast.Subscript) \
                            and isinstance(A.parent(s), (ast.Call, ast.Return, ast.Yield, ast.Expr)):
                        # X[example_idx] used to pick a part/iterator
                        if A.src(inner) in ('self.input_datasets', 'iterators'):
                            ok = False
                            why = '%s selects the part with the example index' % name
                    elif s.slice.id == dn and isinstance(A.parent(s), ast.Subscript) is False:
                        pass
            rep.ob('OT', K.key(cls, name, 'order-entry-read-as-written'), ok, n, why)
    rep.floor('readers of the intersperse order table', readers, 3)


def rule_sx(ctx):
    """SliceDataset: len / iter / getitem / keys all go through the one stored index array,
    which is np.arange(len(input))[selection]; Zip/KeyZip len and keys use the same input"""
    rep = ctx.report
    cls = ctx.repo.cls('core.SliceDataset')
    init = cls.own('__init__').node
    idx_attr = None
    for n in A.walk_local(init):
        if isinstance(n, ast.Assign) and len(n.targets) == 1 and A.is_self_attr(n.targets[0]) \
                and isinstance(n.value, ast.Subscript):
            base = n.value.value
            if isinstance(base, ast.Call) and (A.dotted(base.func) or '').endswith('arange') and base.args \
                    and isinstance(base.args[0], ast.Call) and A.dotted(base.args[0].func) == 'len' \
                    and A.is_name(base.args[0].args[0], 'input_dataset'):
                idx_attr = n.targets[0].attr
    ok = idx_attr is not None
    rep.ob('SX', K.key(cls, '__init__', 'index-array=arange(len(input))[selection]'), ok, init,
           '' if ok else 'the stored index array is no longer derived as np.arange(len(input_dataset))[selection] '
           '(which is what normalises negative indices, steps and bounds)')
    if not ok:
        return
    for n in A.walk_local(init):
        if isinstance(n, ast.Assign) and any(A.is_self_attr(t, idx_attr) for t in n.targets):
            v = n.value
            alias = flow.aliases_caller_object(v, init)
            rep.ob('SX', K.key(cls, '__init__', 'index-array-is-always-a-private-re-derivation'), not alias, n,
                   '' if not alias else 'self.%s = %s keeps the caller\'s index object: an array that is later '
                   'modified in place (a reshuffled permutation) changes this slice, and bounds/negatives are not normalised' % (
                       idx_attr, A.short(v)))
    for name, pred in (
            ('__len__', lambda fn: any(isinstance(r.value, ast.Call) and A.dotted(r.value.func) == 'len'
                                       and A.is_self_attr(r.value.args[0], idx_attr) for r in flow.returns_of(fn))),
            ('__iter__', lambda fn: all(A.is_self_attr(l.iter, idx_attr) for l in A.walk_local(fn)
                                        if isinstance(l, ast.For)) and any(isinstance(l, ast.For) for l in A.walk_local(fn))),
            ('__getitem__', lambda fn: any(isinstance(s, ast.Subscript) and A.is_self_attr(s.value, INPUT_ATTR)
                                           and isinstance(s.slice, ast.Subscript) and A.is_self_attr(s.slice.value, idx_attr)
                                           and A.is_name(s.slice.slice, 'item') for s in A.walk_local(fn))),
            ('keys', lambda fn: any(A.is_self_attr(x, idx_attr) for x in A.walk_local(fn))),
    ):
        mem = cls.own(name)
        if mem is None:
            raise AnalysisError('anchor vanished: SliceDataset.%s' % name)
        ok = pred(mem.node)
        rep.ob('SX', K.key(cls, name, 'uses-the-index-array(self.%s)' % idx_attr), ok, mem.node,
               '' if ok else '%s does not go through self.%s: length, iteration, lookup and keys can disagree'
               % (name, idx_attr))
    # loops in __iter__ yield input[idx] with idx the loop variable
    it = cls.own('__iter__').node
    iterating = [n for n in A.walk_local(it) if (isinstance(n, ast.YieldFrom)) or (
        isinstance(n, ast.Call) and any(A.is_self_attr(a, INPUT_ATTR) for a in n.args) and (A.dotted(n.func) or '').split('.')[-1] in (
            'iter', 'islice', 'enumerate', 'zip', 'map', 'list')) or (isinstance(n, ast.For) and A.is_self_attr(n.iter, INPUT_ATTR))]
    rep.ob('SX', K.key(cls, '__iter__', 'selection-reaches-the-input-by-lookup-only'), not iterating,
           iterating[0] if iterating else it,
           '' if not iterating else 'a selecting stage iterates its input (%s): examples outside the selection are evaluated' % A.short(iterating[0], 60))
    for l in A.walk_local(it):
        if isinstance(l, ast.For) and isinstance(l.target, ast.Name):
            for y in A.walk_stmts(l.body):
                if isinstance(y, ast.Yield):
                    subs = [s for s in ast.walk(y) if isinstance(s, ast.Subscript)]
                    ok = subs and all(A.is_name(s.slice, l.target.id) for s in subs)
                    rep.ob('SX', K.key(cls, '__iter__', 'yields-input[idx]'), bool(ok), y,
                           '' if ok else 'iteration does not look up exactly the loop index: ' + A.short(y))
    # Zip / KeyZip: equal lengths asserted / same input for len and keys
    z = ctx.repo.cls('core.ZipDataset')
    zi = z.own('__init__').node
    ok = any(isinstance(n, ast.Assert) and 'set(' in A.src(n.test) and '== 1' in A.src(n.test) for n in A.walk_local(zi))
    rep.ob('SX', K.key(z, '__init__', 'equal-lengths-asserted'), ok, zi,
           '' if ok else 'ZipDataset no longer rejects inputs of different lengths: len() (first input) and '
           'iteration (shortest input) can disagree')
    kz = ctx.repo.cls('core.KeyZipDataset')
    lk = kz.own('__len__').node
    kk = kz.own('keys').node

    def first_input_index(fn):
        out = set()
        for s in A.walk_local(fn):
            if isinstance(s, ast.Subscript) and A.is_self_attr(s.value, INPUTS_ATTR):
                out.add(A.src(s.slice))
        return out
    ok = first_input_index(lk) == first_input_index(kk) and len(first_input_index(lk)) == 1
    rep.ob('SX', K.key(kz, None, 'len-and-keys-from-the-same-input'), ok, lk,
           '' if ok else 'len() uses input %s but keys()/iteration use input %s' % (
               first_input_index(lk), first_input_index(kk)))


def rule_na(ctx):
    rep = ctx.report
    cls = ctx.repo.cls('core.NumpySerializedList')
    init = cls.own('__init__').node
    g = cls.own('__getitem__').node
    idx = g.args.args[1].arg
    # writer: _addr = cumsum(lengths of the serialised elements), _lst = concatenation in the same order
    src_init = [A.src(n) for n in A.walk_local(init) if isinstance(n, ast.Assign)]
    lens = [c for c in ast.walk(init) if isinstance(c, ast.ListComp) and isinstance(c.elt, ast.Call) and A.dotted(c.elt.func) == 'len'
            and isinstance(c.generators[0].target, ast.Name) and A.is_name(c.elt.args[0], c.generators[0].target.id)
            and not c.generators[0].ifs]
    w_ok = any('cumsum' in s for s in src_init) and bool(lens) and any('concatenate' in s for s in src_init)
    rep.ob('NA', K.key(cls, '__init__', 'offsets=cumsum(len(serialised))'), w_ok, init,
           '' if w_ok else 'the offset table must be the cumulative sum of the lengths of the serialised elements, in order')
    offs = None
    for n in A.walk_local(init):
        if isinstance(n, ast.Assign) and A.is_self_attr(n.targets[0]) and 'cumsum' in A.src(n.value):
            offs = n.targets[0].attr
    if offs is None:
        raise AnalysisError('undecidable shape: NumpySerializedList offset table not found')
    defs = flow.assigned_names(g)
    sl = [n for n in A.walk_local(g) if isinstance(n, ast.Subscript) and isinstance(n.slice, ast.Slice) and A.is_self_attr(n.value)]
    ok = False
    why = 'no slice of the serialised buffer'
    if len(sl) == 1 and sl[0].slice.lower is not None and sl[0].slice.upper is not None and sl[0].slice.step is None:
        lo = flow.copy_prop(sl[0].slice.lower, g)
        hi = flow.copy_prop(sl[0].slice.upper, g)

        def strip_item(e):
            while isinstance(e, ast.Call) and isinstance(e.func, ast.Attribute) and e.func.attr in ('item', '__int__') and not e.args:
                e = e.func.value
            if isinstance(e, ast.Call) and A.dotted(e.func) == 'int' and len(e.args) == 1:
                e = e.args[0]
            return e
        hi = strip_item(hi)
        hi_ok = isinstance(hi, ast.Subscript) and A.is_self_attr(hi.value, offs) and A.is_name(hi.slice, idx)

        def zero_test(test):
            """-> True if test means idx == 0, False if it means idx != 0, else None"""
            t, neg = A.strip_not(test)
            if isinstance(t, ast.Compare) and len(t.ops) == 1 and A.is_name(t.left, idx) and A.int_value(t.comparators[0]) == 0:
                if isinstance(t.ops[0], ast.Eq):
                    return not neg
                if isinstance(t.ops[0], ast.NotEq):
                    return neg
            return None

        def is_prev(e):
            o = strip_item(e)
            return isinstance(o, ast.Subscript) and A.is_self_attr(o.value, offs) and isinstance(o.slice, ast.BinOp) \
                and isinstance(o.slice.op, ast.Sub) and A.is_name(o.slice.left, idx) and A.int_value(o.slice.right) == 1
        lo_ok = False
        if isinstance(lo, ast.IfExp):
            z = zero_test(lo.test)
            if z is not None:
                zero_arm, other = (lo.body, lo.orelse) if z else (lo.orelse, lo.body)
                lo_ok = A.int_value(zero_arm) == 0 and is_prev(other)
        elif isinstance(lo, ast.Name):
            # if idx == 0: start = 0  else: start = offsets[idx-1]
            seen0 = seenp = False
            n_defs = 0
            for n in A.walk_local(g):
                if isinstance(n, ast.Assign) and A.is_name(n.targets[0], lo.id):
                    n_defs += 1
                    z = None
                    for t0, truth in flow.guards_of(n, g):
                        zt = zero_test(t0)
                        if zt is not None:
                            z = (zt == truth)
                    if z is True and A.int_value(n.value) == 0:
                        seen0 = True
                    if z is False and is_prev(n.value):
                        seenp = True
            lo_ok = seen0 and seenp and n_defs == 2
        ok = hi_ok and lo_ok
        why = '' if ok else 'element i must be buffer[(0 if i == 0 else offsets[i-1]) : offsets[i]]; found [%s : %s]' % (
            A.short(lo, 50), A.short(hi, 30))
    rep.ob('NA', K.key(cls, '__getitem__', 'element=buffer[offsets[i-1]:offsets[i]]'), ok, g, why)
    ln = cls.own('__len__').node
    ok = any(isinstance(r.value, ast.Call) and A.dotted(r.value.func) == 'len' and A.is_self_attr(r.value.args[0], offs)
             for r in flow.returns_of(ln))
    rep.ob('NA', K.key(cls, '__len__', 'len=len(offsets)'), ok, ln, '')


def rule_it(ctx):
    """IT (sibling agreement): integer indices are recognised with numbers.Integral everywhere. Index arrays (slices,
    shuffles, sorts, shards) hand numpy integers to the stage below them; a stage that tests `isinstance(i, int)`
    answers those with its fallback (NotImplementedError / a slice) although ds[int(i)] works."""
    rep = ctx.report
    n = 0
    for cls in [ctx.repo.dataset_base()] + list(K.family(ctx)):
        mem = cls.own('__getitem__')
        if mem is None or not mem.is_function:
            continue
        params = [a.arg for a in mem.node.args.posonlyargs + mem.node.args.args]
        if len(params) < 2:
            continue
        item = params[1]
        for c in A.walk_local(mem.node):
            if isinstance(c, ast.Call) and A.dotted(c.func) == 'isinstance' and len(c.args) == 2 and A.is_name(c.args[0], item):
                types = [A.src(e) for e in (c.args[1].elts if isinstance(c.args[1], ast.Tuple) else [c.args[1]])]
                if any(t in ('int', 'numbers.Integral', 'Integral', 'np.integer', 'numpy.integer') for t in types):
                    n += 1
                    ok = any(t in ('numbers.Integral', 'Integral') for t in types)
                    nonscalar = [t for t in types if t.split('.')[-1] in ('ndarray', 'list', 'tuple', 'slice', 'Sequence', 'Iterable')]
                    if nonscalar:
                        rep.ob('IT', K.key(cls, '__getitem__', 'scalar-path-for-scalar-indices-only'), False, c,
                               'the branch for integer indices is also taken for %s: an index array / list is used like one '
                               'position (e.g. `self.slice[array]` on a tuple of positions raises, or selects by fancy indexing '
                               'what must become a nested selection)' % nonscalar)
                    rep.ob('IT', K.key(cls, '__getitem__', 'integer-indices-by-numbers.Integral'), ok, c,
                           '' if ok else 'integer indices are recognised with %s only: numpy integers (what every index array of '
                           'a slice / shuffle / sort / shard contains) fall through to the fallback branch' % types,
                           nontrivial=False)
    rep.floor('integer type tests in __getitem__', n, 10)


def run(ctx):
    rule_it(ctx)
    rule_na(ctx)
    rule_k0(ctx)
    rule_k1(ctx)
    rule_k2(ctx)
    rule_n(ctx)
    rule_nw(ctx)
    rule_bl(ctx)
    rule_ot(ctx)
    rule_sx(ctx)
