"""C08 — evaluation is demand-driven: nothing runs early, nothing runs twice.

L1 lazy combinators / constructors touch no example and call no user function
L2 metadata members are example-free
L3 __iter__ streams: no materialisation of an input; input loops yield inside the loop
L4 at most one user-function call and one input lookup per element (per path)
L5 int/str lookup is point-wise
"""
import ast

from .. import astutil as A
from .. import flow
from ..cfg import CFG, normal, node_contains, loop_body_max, function_max
from ..effects import INPUT_ATTR, INPUTS_ATTR
from ..model import AnalysisError
from . import common as K

META = {
    'id': 'C08',
    'technique': 'interprocedural effect analysis (iterate / lookup / call-user-function / materialise effects on '
                 'dataset-kinded expressions) over factories, constructors, metadata members, __iter__ and '
                 '__getitem__; per-path maximum of user-function calls on the loop-body CFG',
    'explanation': 'Modular over the stage protocol, hence valid for pipelines of any depth by induction on the '
                   'stage below: (L1) every lazy combinator and every constructor it reaches only uses the metadata '
                   'protocol of its inputs; (L2) __len__/keys/indexable/ordered/__str__ and the non-freezing copy of '
                   'every stage use only the metadata protocol; (L3) no __iter__ materialises an input and every loop '
                   'over an input yields inside the loop; (L4) on every path through one element of an __iter__ loop, '
                   'and on every path of an int/str lookup, each user function is applied at most once and the input '
                   'is looked up at most once per part; (L5) int/str lookups never iterate an input. The look-ahead '
                   'numbers (one batch / buffer) are decided under C07, C12 and C17, not here.',
    'not_decided': 'the numeric look-ahead bounds',
    'assumptions': ['map()/zip()/enumerate()/iter() are lazy', 'metadata members of user-defined source datasets are example-free'],
}

# lazy combinators of Dataset: name -> (eager guard parameter, value that selects the lazy branch) or None
LAZY = {
    'map': None, 'batch_map': None, 'prefetch': None, 'catch': None, 'concatenate': None,
    'intersperse': None, 'zip': None, 'key_zip': None, 'tile': None, 'cycle': None, 'batch': None,
    'batch_dynamic_bucket': None, 'batch_dynamic_time_series_bucket': None, 'unbatch': None,
    'diskcache': None, 'items': None, 'copy': None, '__getitem__': None, 'shuffle': None,
    'filter': ('lazy', True), 'apply': ('lazy', True), 'cache': ('lazy', True),
}
EAGER = {
    'sort': 'documented: computes the sort keys of all examples',
    'groupby': 'documented: evaluates group_fn on every example',
    'split': 'only len() is used (reported)', 'shard': 'split(k)[i]',
    'random_choice': 'only len() is used; a scalar draw looks one example up',
    '__call__': 'starts an iteration by definition',
    '__contains__': 'raises', 'keys': 'raises', '__len__': 'raises', '__iter__': 'raises',
    '__str__': 'metadata', '__repr__': 'metadata',
}
MODULE_FACTORIES = ['concatenate', 'intersperse', '_zip', 'key_zip']
TOUCH = ('ITERATE', 'MATERIALISE', 'CALL_USERFN')


def _under_branch(node, fn, param, value):
    """is `node` inside the branch of `if <param>` that is taken when param == value? None if not under one"""
    res = None
    for test, branch in flow.guards_of(node, fn):
        t, neg = A.strip_not(test)
        if A.is_name(t, param):
            res = ((branch != neg) == value)
    return res


def _is_slice_index(expr, fn):
    """does the index expression denote a selection (array / list / slice), not a scalar?"""
    e = flow.copy_prop(expr, fn)
    if isinstance(e, (ast.Slice, ast.List, ast.ListComp, ast.Tuple)):
        return True
    if isinstance(e, ast.Call):
        d = A.dotted(e.func) or ''
        if d.split('.')[-1] in ('arange', 'array', 'asarray', 'argsort', 'permutation', 'sorted', 'list',
                                'sort_fn', 'array_split', 'nonzero', 'where'):
            return True
    if isinstance(e, ast.Name):
        # loop variable over np.array_split(...) etc.
        return False
    return False


def _ctor_effects(ctx, cls):
    """effects of constructing cls: every __init__ of its constructor chain"""
    out = []
    for owner, fn, _env in flow.init_chain(cls):
        local, _c = ctx.effects.local_effects(fn, cls, owner.module)
        for e in local:
            out.append(e)
            if e.etype == 'SELFCALL':
                out.extend(ctx.effects.closed_effects(cls, e.info))
    return out


def rule_l1(ctx):
    rep = ctx.report
    base = ctx.repo.dataset_base()
    core = ctx.repo.module('core')
    public = [n for n, m in base.members.items() if m.is_function and m.kind == 'method']
    branches = 0
    for name in public:
        if name in EAGER:
            rep.ob('L1', K.key(base, name, 'eager-by-contract'), True, base.members[name].node, EAGER[name],
                   nontrivial=False)
            continue
        if name not in LAZY:
            rep.note('public Dataset method %r is neither in the lazy nor in the eager table (unclassified)' % name)
            continue
        fn = base.members[name].node
        sel = LAZY[name]
        local, fctx = ctx.effects.local_effects(fn, base, core)
        effs = []
        for e in local:
            if sel is not None:
                ub = _under_branch(e.node, fn, sel[0], sel[1])
                if ub is False:
                    continue
            effs.append(e)
        branches += 1
        bad = []
        constructed = []
        for e in effs:
            if e.etype in TOUCH:
                bad.append(e)
            elif e.etype == 'GETITEM':
                if not _is_slice_index(e.info, fn):
                    bad.append(e)
                else:
                    constructed.append('SliceDataset')
            elif e.etype == 'ESCAPE':
                cname = e.info[0]
                if cname in core.classes:
                    constructed.append(cname)
                elif cname in ('concatenate',):
                    constructed.append('ConcatenateDataset')
                elif cname in core.functions or cname in ('ValueError', 'TypeError', 'RuntimeError',
                                                          'NotImplementedError', 'isinstance', 'apply_fn'):
                    if cname == 'apply_fn':
                        bad.append(e)
                elif cname[:1].islower():
                    bad.append(e)
            elif e.etype == 'SELFCALL':
                if e.info in EAGER and e.info not in ('__len__', 'keys', '__str__', '__repr__'):
                    bad.append(e)
        ok = not bad
        rep.ob('L1', K.key(base, name, 'lazy-branch-touches-no-example'), ok, bad[0].node if bad else fn,
               '' if ok else 'building the stage already %s: %s' % (
                   {'ITERATE': 'iterates the dataset', 'MATERIALISE': 'materialises the dataset',
                    'CALL_USERFN': 'calls a user function', 'GETITEM': 'looks an example up',
                    'ESCAPE': 'hands the dataset to eager code', 'SELFCALL': 'runs an eager operation'}[bad[0].etype],
                   A.short(bad[0].node, 60)))
        for cname in sorted(set(constructed)):
            c = core.classes[cname]
            ce = _ctor_effects(ctx, c)
            cbad = [e for e in ce if e.etype in TOUCH or e.etype == 'GETITEM' or e.etype == 'PASS_USERFN'
                    and e.info[1] in ('map', 'filter', 'sorted', 'lazy_parallel_map')]
            okc = not cbad
            rep.ob('L1', K.key(c, '__init__', 'constructor-uses-metadata-only(via %s)' % name), okc,
                   cbad[0].node if cbad else c.node,
                   '' if okc else 'the constructor reads examples / runs user code: %s' % A.short(cbad[0].node, 60))
    # constructors of all stages (also those only reachable through module functions)
    for cls in K.family(ctx):
        ce = _ctor_effects(ctx, cls)
        cbad = [e for e in ce if e.etype in TOUCH or e.etype == 'GETITEM']
        okc = not cbad
        rep.ob('L1', K.key(cls, '__init__', 'constructor-uses-metadata-only'), okc,
               cbad[0].node if cbad else cls.node,
               '' if okc else 'constructing the stage %s: %s' % (cbad[0].etype, A.short(cbad[0].node, 60)))
    for fname in MODULE_FACTORIES:
        if fname not in core.functions:
            raise AnalysisError('anchor vanished: core.%s' % fname)
        fn = core.functions[fname]
        local, _c = ctx.effects.local_effects(fn, None, core)
        bad = [e for e in local if e.etype in TOUCH or e.etype == 'GETITEM' and False]
        rep.ob('L1', K.key('core.' + fname, None, 'factory-touches-no-example'), not bad, bad[0].node if bad else fn,
               '' if not bad else A.short(bad[0].node, 60))
        branches += 1
    rep.floor('lazy factory branches', branches, 24)


META_MEMBERS = ('__len__', 'keys', 'indexable', 'ordered', '__str__')


def rule_l2(ctx):
    rep = ctx.report
    n = 0
    for cls in K.family(ctx, floor=20):
        for name in META_MEMBERS + ('copy',):
            mem = cls.resolve(name)
            if mem is None or not mem.is_function or mem.owner is ctx.repo.dataset_base():
                continue
            n += 1
            effs = ctx.effects.closed_effects(cls, name)
            if name == 'copy':
                fn = mem.node
                effs = [e for e in effs if not any(
                    A.is_name(A.strip_not(t)[0], 'freeze') and (b != A.strip_not(t)[1])
                    for t, b in flow.guards_of(e.node, fn))]
                # effects pulled in from getters reached only under freeze are attributed to their own node;
                # drop those whose SELFPROP/SELFCALL origin site is under freeze
                under = set()
                for e in ctx.effects.closed_effects(cls, name):
                    if e.etype in ('SELFPROP', 'SELFCALL') and any(
                            A.is_name(A.strip_not(t)[0], 'freeze') and (b != A.strip_not(t)[1])
                            for t, b in flow.guards_of(e.node, fn)):
                        tm = cls.resolve(e.info)
                        if tm is not None and tm.is_function:
                            under.add(id(tm.node))
                effs = [e for e in effs if not any(id(a) in under for a in A.ancestors(e.node))]
            bad = [e for e in effs if e.etype in TOUCH or e.etype == 'GETITEM' or e.etype == 'RNG_DRAW'
                   or (e.etype == 'PASS_USERFN' and e.info[1] in ('map', 'filter', 'sorted', 'lazy_parallel_map'))
                   or (e.etype == 'ESCAPE' and e.info[0] in ('lazy_parallel_map', 'single_thread_prefetch', 'new',
                                                             'from_dataset', 'list', 'tuple'))]
            ok = not bad
            rep.ob('L2', K.key(cls, name, 'metadata-only'), ok, bad[0].node if bad else mem.node,
                   '' if ok else '%s %s (%s): asking for metadata evaluates the pipeline' % (
                       name, {'ITERATE': 'iterates an input', 'MATERIALISE': 'materialises an input',
                              'CALL_USERFN': 'calls a user function', 'GETITEM': 'looks examples up',
                              'RNG_DRAW': 'draws random numbers', 'PASS_USERFN': 'maps a user function',
                              'ESCAPE': 'hands the input to eager code'}[bad[0].etype], A.short(bad[0].node, 50)))
    rep.floor('metadata members analysed', n, 90)


L3_TABLE = {
    'ApplyDataset': 'apply_function is applied to the input *dataset* once at the start of each iteration '
                    '(documented contract: "applied before each iteration")',
}


def rule_l3(ctx):
    rep = ctx.report
    n = 0
    for cls in K.family(ctx):
        mem = cls.resolve('__iter__')
        if mem is None or not mem.is_function or mem.owner is ctx.repo.dataset_base():
            continue
        n += 1
        effs = ctx.effects.closed_effects(cls, '__iter__')
        mats = [e for e in effs if e.etype == 'MATERIALISE']
        rep.ob('L3', K.key(cls, '__iter__', 'no-materialisation'), not mats, mats[0].node if mats else mem.node,
               '' if not mats else 'iteration materialises an input (%s): the whole upstream is evaluated before the '
               'first example is delivered' % A.short(mats[0].node, 60))
        fn = mem.node
        if mem.owner is not cls:
            continue
        _l, fctx = ctx.effects.local_effects(fn, cls, cls.module)
        if not mem.is_generator:
            continue
        for loop in A.walk_local(fn):
            if isinstance(loop, (ast.For, ast.While)) and (
                    isinstance(loop, ast.For) and fctx.kind(loop.iter) in ('DS', 'ITER', 'SELF')):
                has_yield = any(isinstance(x, (ast.Yield, ast.YieldFrom)) for x in A.walk_stmts(loop.body))
                rep.ob('L3', K.key(cls, '__iter__', 'input-loop-yields-inside'), has_yield, loop,
                       '' if has_yield else 'the loop over the input only accumulates and yields afterwards: a '
                       'materialisation in disguise')
    rep.floor('__iter__ resolutions', n, 22)


def rule_l4(ctx):
    rep = ctx.report
    loops = 0
    for cls in K.family(ctx):
        userfn = ctx.effects.userfn_attrs(cls)
        for mname in ('__iter__', '__getitem__'):
            mem = cls.own(mname)
            if mem is None or not mem.is_function:
                continue
            fn = mem.node
            local, fctx = ctx.effects.local_effects(fn, cls, cls.module)
            calls = [e for e in local if e.etype == 'CALL_USERFN']
            passes = [e for e in local if e.etype == 'PASS_USERFN' and e.info[1] in ('map', 'filter', 'starmap')]
            lookups = [e for e in local if e.etype == 'GETITEM' and not any(
                isinstance(a, (ast.ListComp, ast.GeneratorExp)) for a in A.ancestors(e.node))]
            g = CFG(fn)

            def w_calls(attr):
                def w(node):
                    return sum(1 for e in calls if e.info == attr and node_contains(node, e.node))
                return w

            def w_lookups(node):
                return sum(1 for e in lookups if node_contains(node, e.node))

            if mname == '__iter__':
                for ln in g.nodes:
                    if ln.kind != 'for' or ln.tag:
                        continue
                    it = ln.ast.iter
                    kind = fctx.kind(it)
                    per_element = kind in ('DS', 'ITER', 'SELF') or (
                        isinstance(it, ast.Call) and (A.dotted(it.func) in ('range', 'enumerate') or (
                            isinstance(it.func, ast.Attribute) and it.func.attr == 'keys'))) or \
                        A.is_self_attr(it)
                    if not per_element:
                        continue
                    loops += 1
                    for attr in sorted(userfn):
                        mx, path = loop_body_max(g, ln, w_calls(attr))
                        extra = sum(1 for p in passes if p.info[0] == attr and any(
                            x is ln.ast for x in A.ancestors(p.node)))
                        ok = mx + extra <= 1
                        rep.ob('L4', K.key(cls, mname, 'once-per-element(%s)' % attr), ok, ln.ast,
                               '' if ok else 'a path through one element applies self.%s %d times' % (attr, mx + extra),
                               path=[repr(p) for p in path if p.ast is not None] if not ok else None)
                    mx, path = loop_body_max(g, ln, w_lookups)
                    ok = mx <= 1
                    rep.ob('L4', K.key(cls, mname, 'one-input-lookup-per-element'), ok, ln.ast,
                           '' if ok else 'a path through one element looks the input up %d times: upstream functions '
                           'run more than once per example' % mx,
                           path=[repr(p) for p in path if p.ast is not None] if not ok else None)
                # map(self.f, ds) together with an explicit call in the same branch
                for attr in sorted(userfn):
                    tot = [p for p in passes if p.info[0] == attr]
                    for p in tot:
                        stmt = p.node
                        sib_calls = [c for c in calls if c.info == attr and flow.guards_of(c.node, fn) ==
                                     flow.guards_of(stmt, fn)]
                        rep.ob('L4', K.key(cls, mname, 'map-applies-once(%s)' % attr), not sib_calls, stmt,
                               '' if not sib_calls else 'self.%s is mapped over the input and also called explicitly' % attr)
            else:
                for attr in sorted(userfn):
                    mx, path = function_max(g, w_calls(attr))
                    ok = mx <= 1
                    rep.ob('L4', K.key(cls, mname, 'once-per-lookup(%s)' % attr), ok, fn,
                           '' if ok else 'a lookup path applies self.%s %d times' % (attr, mx),
                           path=[repr(p) for p in path if p.ast is not None] if not ok else None)
                if lookups:
                    # lookups inside `for i in range(config)` windows are one per window slot
                    def w_l(node):
                        return sum(1 for e in lookups if node_contains(node, e.node))
                    mx, path = function_max(g, w_l)
                    ok = mx <= 1
                    rep.ob('L4', K.key(cls, mname, 'one-input-lookup-per-path'), ok, fn,
                           '' if ok else 'a lookup path reads the input %d times' % mx,
                           path=[repr(p) for p in path if p.ast is not None] if not ok else None)
    rep.floor('per-element loops analysed', loops, 15)


def rule_l5(ctx):
    rep = ctx.report
    n = 0
    for cls in K.family(ctx):
        mem = cls.own('__getitem__')
        if mem is None or not mem.is_function or K.only_raises(mem.node):
            continue
        fn = mem.node
        item, arms = K.getitem_arms(fn)
        _l, fctx = ctx.effects.local_effects(fn, cls, cls.module)
        scalar_arms = [a for a in arms if a['types'] and a['types'] & {'int', 'str'}]
        if not scalar_arms:
            # lookups without isinstance dispatch: whole body
            scalar_arms = [{'body': fn.body, 'types': {'*'}}]
        for arm in scalar_arms:
            n += 1
            effs, _c = ctx.effects.local_effects(fn, cls, cls.module, stmts=arm['body'])
            closed = list(effs)
            for e in effs:
                if e.etype in ('SELFCALL', 'SELFPROP') and e.info not in ('__getitem__', '__iter__'):
                    closed.extend(ctx.effects.closed_effects(cls, e.info))
            bad = [e for e in closed if e.etype in ('ITERATE', 'MATERIALISE')]
            # self[...] recursion with a non scalar is fine; `for x in self` is not
            ok = not bad
            rep.ob('L5', K.key(cls, '__getitem__', 'pointwise(%s)' % '/'.join(sorted(arm['types']))), ok,
                   bad[0].node if bad else fn,
                   '' if ok else 'a scalar lookup iterates an input (%s): ds[i] evaluates neighbours' % A.short(bad[0].node, 60))
            for loop in A.walk_stmts(arm['body']):
                if isinstance(loop, ast.For):
                    k = fctx.kind(loop.iter)
                    it = loop.iter
                    cfg_int = isinstance(it, ast.Call) and A.dotted(it.func) == 'range' and all(
                        A.is_self_attr(a) or A.int_value(a) is not None for a in it.args)
                    okl = k == 'DSSEQ' or cfg_int
                    rep.ob('L5', K.key(cls, '__getitem__', 'loop-over-parts-or-config-only'), okl, loop,
                           '' if okl else 'a scalar lookup loops over %s' % A.short(it, 50))
    rep.floor('scalar lookup arms', n, 18)


def rule_l6(ctx):
    """a stage that selects examples by a stored index array reaches its input only through point lookups:
    iterating the input would evaluate examples that are not selected"""
    rep = ctx.report
    n = 0
    for cls in K.family(ctx):
        init = cls.own('__init__')
        if init is None or not init.is_function:
            continue
        selects = any(isinstance(x, ast.Subscript) and isinstance(x.value, ast.Call) and (A.dotted(x.value.func) or '').endswith('arange')
                      for x in ast.walk(init.node)) and cls.own('__iter__') is not None
        if not selects or cls.name == 'ReShuffleDataset':
            continue
        n += 1
        for mname in ('__iter__', '__getitem__'):
            mem = cls.own(mname)
            if mem is None:
                continue
            effs = ctx.effects.closed_effects(cls, mname)
            bad = [e for e in effs if e.etype in ('ITERATE', 'MATERIALISE')]
            rep.ob('L6', K.key(cls, mname, 'selection-by-lookup-only'), not bad, bad[0].node if bad else mem.node,
                   '' if not bad else 'the selecting stage iterates its input (%s): user functions run on examples that '
                   'belong to no result (e.g. everything before the start of a slice)' % A.short(bad[0].node, 60))
    rep.floor('selecting stages', n, 1)


def rule_l7(ctx):
    """the eager operations evaluate the pipeline once: the dataset is iterated at most once per path
    (a handler that falls back after a refused items() counts on its own)"""
    rep = ctx.report
    core = ctx.repo.module('core')
    base = ctx.repo.dataset_base()
    targets = [('core.from_dataset', core.functions.get('from_dataset'), None, 'examples')]
    for m in ('sort', 'groupby', 'filter'):
        mem = base.own(m)
        if mem is not None:
            targets.append(('core.Dataset.' + m, mem.node, base, 'self'))
    n = 0
    for qual, fn, cls, who in targets:
        if fn is None:
            raise AnalysisError('anchor vanished: %s' % qual)
        n += 1

        def touches(node):
            c = 0
            for x in ast.walk(node):
                if isinstance(x, ast.Call):
                    d = A.dotted(x.func) or ''
                    args = [a.value if isinstance(a, ast.Starred) else a for a in x.args]
                    if d in ('list', 'tuple', 'sorted', 'enumerate', 'iter', 'set', 'dict') and args:
                        a0 = args[0]
                        if A.is_name(a0, who) or (isinstance(a0, ast.Call) and isinstance(a0.func, ast.Attribute)
                                                   and A.is_name(a0.func.value, who) and a0.func.attr in ('items', 'map', '__iter__')):
                            c += 1
                elif isinstance(x, ast.comprehension) and A.is_name(x.iter, who):
                    c += 1
                elif isinstance(x, ast.For) and A.is_name(x.iter, who):
                    c += 1
            return c
        worst = 0
        regions = []
        tries = [t for t in A.walk_local(fn) if isinstance(t, ast.Try)]
        if tries:
            t = tries[0]
            main = sum(touches(s) for s in t.body + t.orelse)
            outside = sum(touches(s) for s in fn.body if s is not t and not any(s is x for x in ast.walk(t)))
            regions.append(('try/else path', main + outside))
            for h in t.handlers:
                regions.append(('handler %s' % (A.short(h.type) if h.type is not None else ''), sum(touches(s) for s in h.body) + outside))
        else:
            # branches of one if/else are alternatives
            def count(stmts):
                tot = 0
                for s in stmts:
                    if isinstance(s, ast.If):
                        tot += max(count(s.body), count(s.orelse)) + touches(s.test)
                    else:
                        tot += touches(s)
                return tot
            regions.append(('body', count(fn.body)))
        worst = max(r[1] for r in regions)
        rep.ob('L7', K.key(qual, None, 'input-evaluated-at-most-once'), worst <= 1, fn,
               'iterations of the input per path: %s' % regions if worst <= 1 else
               'the eager operation iterates its input %d times on one path (%s): every user function of the pipeline runs '
               'more than once per example' % (worst, regions))
    rep.floor('eager materialisers', n, 4)


def rule_l8(ctx):
    """the look-ahead of the prefetching / parallel stages is the configured buffer: every hand-over to the two
    helpers passes self.buffer_size (the bound itself is C07)"""
    rep = ctx.report
    pu = ctx.repo.module('parallel_utils')
    n = 0
    for cname in ('core.ParMapDataset', 'core.PrefetchDataset'):
        cls = ctx.repo.cls(cname)
        for mname, mem in cls.members.items():
            if not mem.is_function:
                continue
            for c in A.walk_local(mem.node):
                if isinstance(c, ast.Call) and A.dotted(c.func) in ('lazy_parallel_map', 'single_thread_prefetch'):
                    n += 1
                    b = flow.bind(c, pu.functions[A.dotted(c.func)], skip_self=False)
                    e = b.args.get('buffer_size')
                    ok = A.is_self_attr(e, 'buffer_size')
                    rep.ob('L8', K.key(cls, mname, 'read-ahead-is-the-configured-buffer(%s)' % A.dotted(c.func)), ok, c,
                           '' if ok else 'the helper is started with buffer_size=%s instead of self.buffer_size: user functions '
                           'run further ahead of the consumer than the configured prefetch buffer' % (
                               A.short(e) if e is not None else 'its own default'))
    rep.floor('helper hand-over sites', n, 3)


def run(ctx):
    rule_l8(ctx)
    rule_l7(ctx)
    rule_l6(ctx)
    rule_l1(ctx)
    rule_l2(ctx)
    rule_l3(ctx)
    rule_l4(ctx)
    rule_l5(ctx)
    # "upstream stages are evaluated once per example behind a cache": iteration of the cache goes through the cached
    # lookup (C10.H); "read-ahead is the configured buffer": the buffer size reaches every parallel stage (C07.B4)
    from . import c10, c07
    c10.rule_h_iter(ctx)
    c07.rule_b4(ctx)
