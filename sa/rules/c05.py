"""C05 — stopping a prefetching iteration anywhere terminates cleanly.

W1 a shutdown-flag test between any two worker puts; sentinel put guarded by the negated flag
W2 consumer finally: flag := True -> non-blocking drain until Empty -> thread.join()
W3 one flag cell shared by both scopes; exc slot nonlocal        W4 hand-over capacity >= 1
P1 GeneratorExit -> terminate(executor, q) -> bare raise, inside the executor context
P2 every backend has a terminate; futures-based ones cancel every queued future without blocking
"""
import ast
import symtable

from .. import astutil as A
from .. import flow
from ..cfg import CFG, normal, node_roots, node_contains
from ..model import AnalysisError
from . import common as K
from .par import LPM, STP

META = {
    'id': 'C05',
    'technique': 'CFG must-pass-through rules on the worker (flag test between blocking puts), statement-order / '
                 'dominance rules on the consumer\'s finally block, symtable scope classification of the shared flag, '
                 'handler-shape rules for GeneratorExit, sibling agreement of the terminate adapters',
    'explanation': 'Decides that the shutdown protocol has the shape whose violation re-creates the deadlocks the code '
                   'comments document: in the worker every path from one blocking put on the hand-over queue to the next '
                   'passes a test of the shutdown flag, and the end-sentinel put is control dependent on the flag being '
                   'unset; the consumer\'s delivery loop is enclosed by try/finally whose finally block sets the flag, '
                   'then drains the queue with non-blocking gets until queue.Empty, then joins the thread, in this order; '
                   'the flag is one closure cell (free in the worker, never rebound there); every yield of '
                   'lazy_parallel_map is covered by an `except GeneratorExit` handler that calls terminate(executor, q) '
                   'and re-raises, inside the executor context manager; every backend binds a terminate and the '
                   'futures-based ones cancel each queued future using non-blocking gets. Absence of deadlock over all '
                   'schedules is not decided (that would be model checking).',
    'not_decided': 'liveness over all schedules (model checking, a different technique family)',
    'assumptions': ['queue.Queue(maxsize>=1).put of a single element succeeds once the consumer has drained the queue',
                    'executor context managers wait for running tasks only'],
}

TERMINATE_TABLE = {
    'multiprocessing': 'Pool.__exit__ calls terminate(): nothing to cancel (documented in the source)',
    'False': 'serial pseudo backend: nothing runs in the background',
}


def rule_w(ctx):
    rep = ctx.report
    S = STP(ctx)
    g = S.wcfg
    item_puts, sent_puts = S.worker_puts()
    tests = S.flag_tests()
    tids = {t.id for t in tests}
    rep.floor('worker puts on the hand-over queue', len(item_puts) + len(sent_puts), 2)
    rep.floor('shutdown-flag tests in the worker', len(tests), 2)
    allputs = {p.id for p in item_puts + sent_puts}
    for p in item_puts + sent_puts:
        path = g.path_avoiding(p.id, lambda nd: nd.id in allputs, lambda nd: nd.id in tids, edge_ok=None)
        ok = path is None
        rep.ob('W1', 'parallel_utils.single_thread_prefetch.worker::flag-tested-between-puts(from L-put %s)' % (
            'sentinel' if p in sent_puts else 'item'), ok, p.ast,
            '' if ok else 'the worker can go from one blocking put to the next (%s) without looking at the shutdown flag: '
            'after the consumer drained the queue and left, the second put blocks forever and join() never returns' % (
                A.short(path[-1].ast, 50)),
            path=[repr(x) for x in path if x.ast is not None] if path else None)
    # every flag test exits on its true side without a further put
    for t in tests:
        tt, neg = A.strip_not(t.ast.test)
        if not A.is_name(tt, S.flag):
            continue
        if neg:
            # `if not shutdown: put(sentinel)` — the guarded region
            continue
        succ = [y for (y, k) in g.succ[t.id] if k == 'true']
        bad = None
        for y in succ:
            bad = bad or g.path_avoiding(y, lambda nd: nd.id in allputs, lambda nd: nd.id in tids, edge_ok=None) \
                or (g.nodes[y] if y in allputs else None)
        rep.ob('W1', 'parallel_utils.single_thread_prefetch.worker::shutdown-branch-never-puts', bad is None, t.ast,
               '' if bad is None else 'after seeing the shutdown flag the worker still puts into the queue')
    # sentinel guarded by negated flag
    for sp in sent_puts:
        guarded = False
        call_stmt = sp.ast
        for test, branch in flow.guards_of(call_stmt, S.worker):
            tt, neg = A.strip_not(test)
            if A.is_name(tt, S.flag) and (branch == neg):
                guarded = True
        rep.ob('W1', 'parallel_utils.single_thread_prefetch.worker::sentinel-put-only-when-not-shutting-down', guarded, call_stmt,
               '' if guarded else 'the end sentinel is put although the consumer is shutting down: with a full queue of '
               'capacity 1 this put blocks forever (documented deadlock)')
    if not sent_puts:
        rep.ob('W1', 'parallel_utils.single_thread_prefetch.worker::sentinel-put-exists', False, S.worker,
               'the worker never signals the end of the source: the consumer blocks in get() forever')
    else:
        # the sentinel is put on every normal/exceptional end of production: it sits in a finally block
        in_finally = any(isinstance(a, ast.Try) and any(x is sent_puts[0].ast for s in a.finalbody for x in ast.walk(s))
                         for a in A.ancestors(sent_puts[0].ast))
        rep.ob('W1', 'parallel_utils.single_thread_prefetch.worker::sentinel-put-in-finally', in_finally, sent_puts[0].ast,
               '' if in_finally else 'the sentinel must be put in a finally block so that it is sent after normal '
               'exhaustion and after a failure alike')
    # blocking puts (a non-blocking put would drop elements; C07.B2 checks the bound)
    # ---------------- W2 consumer
    t = S.consumer_try
    fb = t.finalbody
    i_flag = [i for i, s in enumerate(fb) if isinstance(s, ast.Assign) and A.is_name(s.targets[0], S.flag)
              and A.is_const(s.value, True)]
    i_join = [i for i, s in enumerate(fb) if any(isinstance(x, ast.Call) and isinstance(x.func, ast.Attribute)
                                                  and x.func.attr == 'join' for x in ast.walk(s))]
    i_drain = []
    for i, s in enumerate(fb):
        gets = [x for x in ast.walk(s) if isinstance(x, ast.Call) and isinstance(x.func, ast.Attribute)
                and A.is_name(x.func.value, S.q) and (x.func.attr == 'get_nowait' or (
                    x.func.attr == 'get' and any(kw.arg == 'block' and A.is_const(kw.value, False) for kw in x.keywords)
                    or (x.func.attr == 'get' and x.args and A.is_const(x.args[0], False))))]
        if gets:
            looped = any(isinstance(a, ast.While) and A.is_const(a.test, True) for g_ in gets for a in A.ancestors(g_)
                         if any(a is y for y in ast.walk(s)))
            handled = isinstance(s, ast.Try) and any(h.type is not None and A.src(h.type).endswith('Empty') for h in s.handlers) \
                or any(isinstance(y, ast.Try) and any(h.type is not None and A.src(h.type).endswith('Empty') for h in y.handlers)
                       for y in ast.walk(s))
            if looped and handled:
                i_drain.append(i)
    ok = bool(i_flag) and bool(i_drain) and bool(i_join) and i_flag[0] < i_drain[0] < i_join[0]
    rep.ob('W2', 'parallel_utils.single_thread_prefetch::finally:(flag:=True,drain-until-Empty,join)-in-order', ok, t,
           '' if ok else 'the consumer\'s finally block must set the flag, then drain the queue with non-blocking gets until '
           'queue.Empty, then join the thread (found flag@%s drain@%s join@%s): otherwise a worker blocked in put() is '
           'never released or the consumer returns while user code still runs' % (i_flag, i_drain, i_join))
    blocking_in_finally = [x for s in fb for x in ast.walk(s) if isinstance(x, ast.Call) and isinstance(x.func, ast.Attribute)
                           and A.is_name(x.func.value, S.q) and x.func.attr == 'get' and not x.args and not x.keywords]
    rep.ob('W2', 'parallel_utils.single_thread_prefetch::no-blocking-get-during-shutdown', not blocking_in_finally,
           blocking_in_finally[0] if blocking_in_finally else t,
           '' if not blocking_in_finally else 'a blocking get() in the shutdown path can wait forever for a worker that already left')
    # delivery (all yields) inside the try body
    ys = A.yields_in(S.fn)
    inside = all(any(y is x for s in t.body for x in ast.walk(s)) for y in ys)
    started_before = all(c.lineno < t.lineno for c in S.thread_calls)
    rep.ob('W2', 'parallel_utils.single_thread_prefetch::every-yield-covered-by-the-finally', inside and started_before and bool(ys), t,
           '' if inside else 'a yield outside the try/finally: closing the generator there skips the shutdown')
    # join has no timeout
    joins = [x for s in fb for x in ast.walk(s) if isinstance(x, ast.Call) and isinstance(x.func, ast.Attribute) and x.func.attr == 'join']
    ok = bool(joins) and not joins[0].args and not joins[0].keywords
    rep.ob('W2', 'parallel_utils.single_thread_prefetch::join-waits-for-the-worker', ok, joins[0] if joins else t,
           '' if ok else 'join with a timeout returns while the worker may still run user code')
    daemon = [kw for c in S.thread_calls for kw in c.keywords if kw.arg == 'daemon']
    # ---------------- W3 scopes
    assigned_in_worker = [n for n in A.walk_local(S.worker) if isinstance(n, (ast.Assign, ast.AugAssign)) and any(
        A.is_name(tg, S.flag) for tg in (n.targets if isinstance(n, ast.Assign) else [n.target]))]
    rep.ob('W3', 'parallel_utils.single_thread_prefetch.worker::flag-is-the-shared-cell', not assigned_in_worker,
           assigned_in_worker[0] if assigned_in_worker else S.worker,
           '' if not assigned_in_worker else 'the worker assigns the flag name: it becomes a local and the consumer\'s '
           'shutdown request is never seen')
    nl = {n for s in A.walk_local(S.worker) if isinstance(s, ast.Nonlocal) for n in s.names}
    ok = all(e in nl for e in S.exc_names)
    rep.ob('W3', 'parallel_utils.single_thread_prefetch.worker::error-slot-is-nonlocal', ok, S.worker,
           '' if ok else 'the stored exception is assigned without `nonlocal`: the consumer never sees it')
    # symtable cross-check (independent of the AST visitor)
    try:
        st = symtable.symtable(S.mod.source, S.mod.path, 'exec')
        f = [c for c in st.get_children() if c.get_name() == 'single_thread_prefetch'][0]
        wt = [c for c in f.get_children() if c.get_name() == S.worker.name][0]
        sym = wt.lookup(S.flag)
        ok = sym.is_free() and not sym.is_local()
        rep.ob('W3', 'parallel_utils.single_thread_prefetch.worker::symtable:flag-is-free-variable', ok, S.worker,
               '' if ok else 'symtable classifies %r in the worker as local=%s free=%s' % (S.flag, sym.is_local(), sym.is_free()))
        psym = f.lookup(S.flag)
        rep.ob('W3', 'parallel_utils.single_thread_prefetch::symtable:flag-is-a-cell-of-the-consumer', psym.is_local(), S.fn, '')
    except (IndexError, KeyError) as e:
        raise AnalysisError('symtable cross-check failed: %s' % e)
    # W4 capacity >= 1 (shared with C07.B3): maxsize is the buffer_size parameter
    qa = S.q_assign.value
    arg = qa.args[0] if qa.args else next((kw.value for kw in qa.keywords if kw.arg == 'maxsize'), None)
    ok = A.is_name(arg, 'buffer_size')
    rep.ob('W4', 'parallel_utils.single_thread_prefetch::capacity-is-buffer_size(>=1 by C07.B3)', ok, S.q_assign,
           '' if ok else 'hand-over queue capacity is %s' % (A.short(arg) if arg is not None else 'unbounded'))


def rule_p(ctx):
    rep = ctx.report
    L = LPM(ctx)
    fn = L.fn
    ys = A.yields_in(fn)
    tries = [n for n in A.walk_stmts(L.with_.body) if isinstance(n, ast.Try)]
    cover = None
    for t in tries:
        if all(any(y is x for s in t.body for x in ast.walk(s)) for y in ys):
            cover = t
    ok = cover is not None
    handler = None
    if ok:
        hs = [h for h in cover.handlers if h.type is not None and A.src(h.type) == 'GeneratorExit']
        handler = hs[0] if hs else None
        # GeneratorExit must not be shadowed by an earlier broader handler
        if handler is not None:
            idx = cover.handlers.index(handler)
            for h in cover.handlers[:idx]:
                if h.type is None or A.src(h.type) in ('BaseException',):
                    handler = None
    ok = handler is not None
    rep.ob('P1', 'parallel_utils.lazy_parallel_map::every-yield-inside-try-with-GeneratorExit-handler', ok,
           cover or fn, '' if ok else 'closing the generator at a yield does not reach a GeneratorExit handler: queued '
           'computations are all executed before the executor exits')
    if handler is not None:
        calls = [s for s in handler.body if isinstance(s, ast.Expr) and isinstance(s.value, ast.Call)
                 and A.is_name(s.value.func, L.n_terminate)]
        ok = len(calls) == 1 and len(calls[0].value.args) == 2 and A.is_name(calls[0].value.args[0], L.executor or '\0') \
            and A.is_name(calls[0].value.args[1], L.q) and isinstance(handler.body[-1], ast.Raise) and handler.body[-1].exc is None \
            and handler.body.index(calls[0]) < len(handler.body) - 1
        rep.ob('P1', 'parallel_utils.lazy_parallel_map::GeneratorExit:(terminate(executor,q),bare-raise)', ok, handler,
               '' if ok else 'the GeneratorExit handler must call terminate(executor, q) and then re-raise with a bare raise')
        no_yield = not any(isinstance(x, (ast.Yield, ast.YieldFrom)) for x in A.walk_stmts(handler.body))
        rep.ob('P1', 'parallel_utils.lazy_parallel_map::no-yield-while-closing', no_yield, handler,
               '' if no_yield else 'yielding inside the GeneratorExit handler raises RuntimeError on close()')
    ok = cover is not None and any(cover is x for x in A.walk_stmts(L.with_.body))
    rep.ob('P1', 'parallel_utils.lazy_parallel_map::handler-inside-the-executor-context', ok, L.with_, '')
    # P3: terminate() can only cancel what is in the queue: no future may live outside it while the generator is
    # suspended, i.e. every submit(...) result goes straight into q.put(...)
    subs = [n for n in A.walk_stmts(L.with_.body) if isinstance(n, ast.Call) and A.is_name(n.func, L.n_submit)]
    rep.floor('submit call sites', len(subs), 1)
    for sc in subs:
        par = A.parent(sc)
        direct = isinstance(par, ast.Call) and isinstance(par.func, ast.Attribute) and par.func.attr == 'put' \
            and L.is_q(par.func.value) and par.args and par.args[0] is sc
        held = None
        if not direct and isinstance(par, ast.Assign) and isinstance(par.targets[0], ast.Name):
            nm = par.targets[0].id
            # is there a yield between the assignment and the put of that name?
            g = L.cfg
            src_nodes = [nd for nd in g.stmt_nodes() if nd.ast is par]
            put_nodes = {nd.id for nd in g.stmt_nodes() if nd.kind == 'stmt' and any(
                isinstance(x, ast.Call) and isinstance(x.func, ast.Attribute) and x.func.attr == 'put' and L.is_q(x.func.value)
                and x.args and A.is_name(x.args[0], nm) for x in ast.walk(nd.ast))}
            for s0 in src_nodes:
                p = g.path_avoiding(s0.id, lambda nd: nd.kind == 'stmt' and A.contains_yield(nd.ast),
                                    lambda nd: nd.id in put_nodes, edge_ok=normal)
                if p is not None:
                    held = p
        ok = direct or (held is None and not direct and isinstance(par, ast.Assign))
        rep.ob('P3', 'parallel_utils.lazy_parallel_map::no-future-outside-the-queue-across-a-yield', ok, sc,
               '' if ok else 'a submitted future is kept in a local while the generator is suspended at a yield: when the '
               'consumer stops there, terminate() cancels only the futures in the queue and this computation is still executed',
               path=[repr(x) for x in held if x.ast is not None] if held else None)
    # P2
    for label, stmts, node in L.branches:
        ad = L.adapters(stmts)
        t = ad.get('terminate')
        if t is None:
            rep.ob('P2', 'parallel_utils.lazy_parallel_map::terminate-bound(%s)' % label, False, node,
                   'backend branch without terminate: closing the iterator raises NameError / uses another backend\'s adapter')
            continue
        ex, qn = t.args.args[0].arg, t.args.args[1].arg
        body = [s for s in t.body if not (isinstance(s, ast.Expr) and isinstance(s.value, ast.Constant))]
        cancels = [x for x in ast.walk(t) if isinstance(x, ast.Call) and isinstance(x.func, ast.Attribute) and x.func.attr == 'cancel']
        term = [x for x in ast.walk(t) if isinstance(x, ast.Call) and isinstance(x.func, ast.Attribute)
                and x.func.attr in ('terminate', 'kill') and A.is_name(x.func.value, ex)]
        kind = None
        vals = L.branch_values.get(label, [])
        for k in TERMINATE_TABLE:
            # the tabled reason applies only if every backend value that reaches this branch is the tabled one
            if vals and all((v is False) if k == 'False' else (v == k) for v in vals):
                kind = k
        if cancels:
            nonblocking = all(isinstance(c.func.value, ast.Call) and isinstance(c.func.value.func, ast.Attribute)
                              and A.is_name(c.func.value.func.value, qn) and (
                                  c.func.value.func.attr == 'get_nowait' or any(
                                      kw.arg == 'block' and A.is_const(kw.value, False) for kw in c.func.value.keywords)
                                  or (c.func.value.args and A.is_const(c.func.value.args[0], False))) for c in cancels)
            looped = any(isinstance(a, ast.While) and A.is_const(a.test, True) for c in cancels for a in A.ancestors(c))
            handled = any(isinstance(y, ast.Try) and any(h.type is not None and A.src(h.type).endswith('Empty')
                                                          for h in y.handlers) for y in ast.walk(t))
            ok = nonblocking and looped and handled
            rep.ob('P2', 'parallel_utils.lazy_parallel_map::terminate-cancels-every-queued-future(%s)' % label, ok, t,
                   '' if ok else 'terminate must pop every queued future with a non-blocking get until queue.Empty and cancel it')
        elif term:
            rep.ob('P2', 'parallel_utils.lazy_parallel_map::terminate-kills-the-pool(%s)' % label, True, t, 'ex.terminate()')
        elif kind is not None and all(isinstance(s, ast.Pass) for s in body):
            rep.ob('P2', 'parallel_utils.lazy_parallel_map::terminate-tabled(%s)' % label, True, t, TERMINATE_TABLE[kind],
                   nontrivial=False)
        else:
            rep.ob('P2', 'parallel_utils.lazy_parallel_map::terminate-cancels-every-queued-future(%s)' % label, False, t,
                   'terminate neither cancels the queued futures nor terminates the pool: after close() all queued '
                   'computations still run')


def rule_u(ctx):
    """U: when an error leaves lazy_parallel_map, the upstream iteration must be finalised at once (its `finally` stops a
    prefetch thread below). The helper's frame stays referenced by the traceback of the error, and with it every *local*
    of the frame - including its arguments - while the iterator that its own `for` created lives on the value stack and
    is released when the frame unwinds. Hence the helper must be handed the iterable (a dataset, a range, a key tuple) and
    create the iterator itself; an iterator object created by the caller (`ds.__iter__(...)`, `iter(ds)`, a generator
    expression) survives the error in the dead frame until the traceback is gone, and the thread keeps loading."""
    rep = ctx.report
    helper = ctx.repo.module('parallel_utils').functions.get('lazy_parallel_map')
    if helper is None:
        raise AnalysisError('anchor vanished: parallel_utils.lazy_parallel_map')
    sites = 0
    for cls in K.family(ctx):
        for mname, mem in cls.members.items():
            if not mem.is_function:
                continue
            _l, fctx = ctx.effects.local_effects(mem.node, cls, cls.module)
            for c in A.walk_local(mem.node):
                if not (isinstance(c, ast.Call) and (A.dotted(c.func) or '').split('.')[-1] == 'lazy_parallel_map'):
                    continue
                sites += 1
                g = flow.bind(c, helper, skip_self=False).args.get('generator')
                ge = flow.expand(g, mem.node) if g is not None else None
                # all definitions when the argument is a local bound in several branches
                cands = [ge]
                if isinstance(g, ast.Name):
                    cands = flow.assigned_names(mem.node).get(g.id, []) or [ge]
                bad = None
                for e in cands:
                    if isinstance(e, ast.GeneratorExp):
                        bad = e
                    elif isinstance(e, ast.Call) and ((isinstance(e.func, ast.Attribute) and e.func.attr == '__iter__')
                                                     or A.dotted(e.func) == 'iter'):
                        bad = e
                rep.ob('U', K.key(cls, mname, 'helper-gets-the-iterable-not-a-live-iterator'), bad is None, c,
                       '' if bad is None else 'lazy_parallel_map is handed the iterator `%s` created here: after an error in the '
                       'mapped function it stays referenced by the dead frame of the helper, the iteration below (e.g. a '
                       'prefetch thread) is not finalised and keeps running user code after control is back with the consumer'
                       % A.short(bad, 60))
    rep.floor('lazy_parallel_map call sites in the stages', sites, 3)


def run(ctx):
    rule_w(ctx)
    rule_p(ctx)
    rule_u(ctx)
