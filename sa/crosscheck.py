"""Independent cross-check of the AST visitors against compiled (never executed) code objects and symtable.

For every function of the Dataset family it compares
  * generator-ness            (CO_GENERATOR flag          vs. "contains yield" of the AST model)
  * attributes stored on self (STORE_ATTR / DELETE_ATTR   vs. WRITE_SELF 'rebind/aug/del' effects)
  * names called              (sanity: every attribute-call name the effect pass saw exists in co_names)
A disagreement means the AST visitor has a blind spot (setattr, walrus, comprehension scope, ...): ANALYSIS-ERROR.
"""
import dis
import types

from . import astutil as A
from .model import AnalysisError

CO_GENERATOR = 0x20


def _code_objects(code, prefix=''):
    out = {}
    for c in code.co_consts:
        if isinstance(c, types.CodeType):
            name = prefix + c.co_name
            out.setdefault((name, c.co_firstlineno), c)
            out.update(_code_objects(c, name + '.'))
    return out


def _self_attr_stores(code):
    """attribute names stored/deleted on the first positional argument"""
    if code.co_argcount == 0:
        return set()
    selfname = code.co_varnames[0]
    out = set()
    prev = None
    for ins in dis.get_instructions(code):
        if ins.opname in ('STORE_ATTR', 'DELETE_ATTR') and prev is not None:
            if prev.opname in ('LOAD_FAST', 'LOAD_FAST_CHECK', 'LOAD_DEREF') and prev.argval == selfname:
                out.add(ins.argval)
            elif prev.opname == 'LOAD_FAST_LOAD_FAST' and selfname in (prev.argval if isinstance(prev.argval, tuple) else ()):
                out.add(ins.argval)
        prev = ins
    return out


def run(ctx):
    # the cross-check compares the *raw* tree (no helper inlining / alias substitution) with the bytecode
    from .model import Repo
    from .effects import EffectAnalyser
    repo = Repo(ctx.repo.root, sources=ctx.repo.sources, normalise=False)
    effects = EffectAnalyser(repo)
    rep = ctx.report
    checked = 0
    for mod in repo.modules.values():
        if mod.name not in ('core', 'parallel_utils', 'database'):
            continue
        try:
            code = compile(mod.source, mod.path, 'exec', dont_inherit=True)
        except SyntaxError as e:
            raise AnalysisError('cannot compile %s: %s' % (mod.path, e))
        objs = _code_objects(code)
        by_name_line = {}
        for (name, line), c in objs.items():
            by_name_line.setdefault(name, []).append((line, c))
        for cls in mod.classes.values():
            for mname, mem in cls.members.items():
                if not mem.is_function:
                    continue
                cands = by_name_line.get('%s.%s' % (cls.name, mname), [])
                lines = {mem.node.lineno} | {d.lineno for d in mem.node.decorator_list}
                co = [c for (line, c) in cands if line in lines or abs(line - mem.node.lineno) <= len(mem.node.decorator_list) + 1]
                if not co:
                    raise AnalysisError('cross-check: no code object for %s.%s' % (cls.qualname, mname))
                co = co[0]
                checked += 1
                gen_bc = bool(co.co_flags & CO_GENERATOR)
                gen_ast = A.contains_yield(mem.node)
                if gen_bc != gen_ast:
                    raise AnalysisError('cross-check: %s.%s generator flag %s but AST model says %s' % (
                        cls.qualname, mname, gen_bc, gen_ast))
                if mem.kind in ('method', 'property') and repo.dataset_base() in cls.mro:
                    local, _c = effects.local_effects(mem.node, cls, mod)
                    ast_stores = {e.info[0] for e in local if e.etype == 'WRITE_SELF' and e.info[1] in ('rebind', 'aug', 'del')}
                    ast_stores |= {e.info[0] for e in local if e.etype == 'WRITE_INPUT' and False}
                    bc_stores = _self_attr_stores(co)
                    if ast_stores != bc_stores:
                        raise AnalysisError('cross-check: %s.%s stores on self: bytecode %s vs AST effects %s' % (
                            cls.qualname, mname, sorted(bc_stores), sorted(ast_stores)))
    rep.count('functions cross-checked against bytecode', checked)
    rep.controls.append({'control': 'bytecode/AST cross-check (generator flags, stores on self)', 'functions': checked,
                         'agreed': True})
