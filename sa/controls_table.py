"""Mutation controls: for every rule, one or more in-memory mutants of the *current* /repo sources on which
the rule must fire (DESIGN.md section 6). A mutant whose target construct is not found is skipped (reported),
a mutant that is applied and not detected is an ANALYSIS-ERROR ("rule not armed on this tree").

tier 'quick' controls run on every check (they keep zero-instance rules armed); the rest run in the thorough tier.
"""
import ast

from . import astutil as A
from . import mutate as M
from .mutate import in_function as F

GT, GE, LT, LE = ast.Gt, ast.GtE, ast.Lt, ast.LtE


def C(name, mutate, expect, tier='thorough', error_ok=False):
    return {'name': name, 'kind': 'mutant', 'mutate': mutate, 'expect': expect, 'tier': tier, 'error_ok': error_ok}


def stmt_replace(module, path, old, new, skip=0):
    return F(module, path, M.stmt_src(old), M.replace_with_stmts(new), skip=skip)


def expr_replace(module, path, old, new, skip=0):
    return F(module, path, M.expr_src(old), M.replace_with_expr(new), skip=skip)


def stmt_delete(module, path, old, skip=0):
    return F(module, path, M.stmt_src(old), M.delete_keep_pass, skip=skip)


def stmt_insert_before(module, path, old, new, skip=0):
    def apply(n):
        return M.parse_stmt(new) + [n]
    return F(module, path, M.stmt_src(old), apply, skip=skip)


def stmt_insert_after(module, path, old, new, skip=0):
    def apply(n):
        return [n] + M.parse_stmt(new)
    return F(module, path, M.stmt_src(old), apply, skip=skip)


def kw_drop(module, path, callee_last, kw, skip=0):
    return F(module, path, M.has_keyword(M.is_call_to(callee_last), kw), M.drop_keyword(kw), skip=skip)


CONTROLS = {
    'C01': [
        C('intersperse order from an unstable single-key argsort (IO)',
          F('core', 'IntersperseDataset.__init__', lambda n: isinstance(n, ast.Assign) and any(A.is_self_attr(t, 'order') for t in n.targets),
            lambda n: M.parse_stmt('position = np.array([(e + 1) / l for l in dataset_lengths for e in range(l)])\n'
                                   'self.order = [(position[i], 0, i) for i in np.argsort(position)]')), 'IO', tier='quick'),
        C('store iter(input) on the stage (R2 positive control)',
          stmt_insert_after('core', 'MapDataset.__init__', 'self.input_dataset = input_dataset',
                            'self._it = iter(input_dataset)'), 'R2', tier='quick'),
        C('batch buffer kept on self (R1)',
          stmt_replace('core', 'BatchDataset.__iter__', 'current_batch.append(element)', 'self._pending.append(element)'), 'R1'),
        C('__iter__ returns a stored generator (R3)',
          stmt_replace('core', 'ParMapDataset.__iter__',
                       "return lazy_parallel_map(self.map_function, self.input_dataset, buffer_size=self.buffer_size, "
                       "max_workers=self.num_workers, backend=self.backend)", 'return self._running'), 'R3'),
        C('memo computed from examples (R1 memo shape)',
          stmt_replace('core', 'KeyZipDataset.keys', 'self._keys = self.input_datasets[0].keys()',
                       'self._keys = tuple(k for k, _ in self.input_datasets[0].__iter__(with_key=True))'), 'R1'),
        C('mutable class attribute shared by instances (R4)',
          stmt_replace('core', 'SliceDataset', '_keys = None', '_keys = []'), 'R4'),
        C('inputs traversed in reversed order (R5)',
          expr_replace('core', 'ConcatenateDataset.__iter__', 'self.input_datasets', 'reversed(self.input_datasets)'), 'R5'),
        C('alias of a stage attribute mutated during iteration (R1 alias)',
          stmt_insert_before('core', 'SliceDataset.__iter__', 'keys = self.input_dataset.keys()',
                             'order = self.slice\norder.sort()'), 'R1'),
    ],
    'C02': [
        C('indexable turned into a method (K0)',
          F('core', 'MapDataset', lambda n: isinstance(n, ast.FunctionDef) and n.name == 'indexable',
            lambda n: (setattr(n, 'decorator_list', []), n)[1]), 'K0', tier='quick'),
        C('filter forwards len (K2)',
          stmt_insert_after('core', 'FilterDataset', 'def __str__(self):\n    return f\'{self.__class__.__name__}({self.filter_function})\'',
                            'def __len__(self):\n    return len(self.input_dataset)'), 'K2'),
        C('reshuffle claims indexable (K1)',
          stmt_replace('core', 'ReShuffleDataset.indexable', 'return False', 'return True'), 'K1'),
        C('negative-index rejection dropped in concatenate (N)',
          F('core', 'ConcatenateDataset.__getitem__', M.stmt_startswith('if item < 0:\n    raise IndexError'), M.delete_keep_pass), 'N'),
        C('part walk off by one (NW)',
          F('core', 'ConcatenateDataset.__getitem__', M.cmp_src('len(dataset) <= item'), M.set_cmp_op(LT)), 'NW'),
        C('batch length ignores drop_last (BL)',
          stmt_replace('core', 'BatchDataset.__len__', 'return int(length)', 'return int(np.ceil(length))'), 'BL'),
        C('batch buffer cleared in place after emission (BL)',
          stmt_replace('core', 'BatchDataset.__iter__', 'current_batch = list()', 'current_batch.clear()', skip=1), 'BL'),
        C('tail batch emitted although drop_last (BL)',
          expr_replace('core', 'BatchDataset.__iter__', 'len(current_batch) > 0 and (not self.drop_last)', 'len(current_batch) > 0'), 'BL'),
        C('intersperse reads order entry with swapped components (OT)',
          stmt_replace('core', 'IntersperseDataset.__getitem__', '_, dataset_idx, example_idx = self.order[item]',
                       '_, example_idx, dataset_idx = self.order[item]'), 'OT'),
        C('slice length from the raw selection (SX)',
          stmt_replace('core', 'SliceDataset.__len__', 'return len(self.slice)', 'return len(self._slice)'), 'SX'),
        C('zip no longer checks equal lengths (SX)',
          stmt_delete('core', 'ZipDataset.__init__', 'assert len(set(lengths)) == 1, lengths'), 'SX'),
    ],
    'C03': [
        C('memo stored before the uniqueness check (MV)',
          F('core', 'ConcatenateDataset.keys', lambda n: isinstance(n, ast.If) and 'len(keys) != len(set(keys))' in A.src(n.test),
            lambda n: M.parse_stmt('self._keys = tuple(keys)') + [n]), 'MV', tier='quick'),
        C('part lookup by try/except instead of membership (KW)',
          F('core', 'ConcatenateDataset.__getitem__', lambda n: isinstance(n, ast.If) and A.src(n.test) == 'item in dataset.keys()',
            lambda n: M.parse_stmt('try:\n    return dataset[item]\nexcept KeyError:\n    pass')), 'KW', tier='quick'),
        C('slice forwards unknown keys again (KS)',
          F('core', 'SliceDataset.__getitem__', lambda n: isinstance(n, ast.If) and 'not in self.keys()' in A.src(n.test),
            M.delete_keep_pass), 'KS', tier='quick'),
        C('with_key ignored on one path (W)',
          stmt_replace('core', 'CycleDataset.__iter__', 'yield from self.input_dataset.__iter__(with_key=with_key)',
                       'yield from self.input_dataset'), 'C03.W', tier='quick'),
        C('key branch iterates values (W2)',
          expr_replace('core', 'FilterDataset.__iter__', 'self.input_dataset.__iter__(with_key=True)', 'enumerate(self.input_dataset)'), 'W2'),
        C('lookup falls off the end (T)',
          stmt_delete('core', 'ConcatenateDataset.__getitem__', 'raise KeyErrorCloseMatches(item, self.keys())'), 'C03.T', tier='quick'),
        C('empty-selection guard removed (A)',
          F('core', 'SliceDataset.keys', lambda n: isinstance(n, ast.If) and 'len(self.slice) == 0' in A.src(n.test),
            lambda n: n.orelse), 'C03.A', tier='quick'),
        C('filter exposes the input keys (K3)',
          stmt_insert_after('core', 'FilterDataset', 'def __str__(self):\n    return f\'{self.__class__.__name__}({self.filter_function})\'',
                            'def keys(self):\n    return self.input_dataset.keys()'), 'K3', tier='quick'),
        C('pair built from two different indices (P)',
          stmt_replace('core', 'CacheDataset.__iter__', 'yield (keys[i], self[i])', 'yield (keys[i], self[i - 1])'), 'C03.P'),
        C('items no longer converts the refusal (W2)',
          F('core', 'ItemsDataset.__iter__', lambda n: isinstance(n, ast.Try),
            lambda n: n.body), 'W2'),
    ],
    'C04': [
        C('worker count clamped by the dataset length (I)',
          expr_replace('core', 'PrefetchDataset.__iter__', 'self.num_workers', 'min(self.num_workers, len(self.input_dataset))', skip=1), 'C04.I'),
        C('LIFO queue of futures (Q1)',
          stmt_replace('parallel_utils', 'lazy_parallel_map', 'q = queue.Queue()', 'q = queue.LifoQueue()'), 'Q1', tier='quick'),
        C('element submitted twice (Q2)',
          stmt_insert_after('parallel_utils', 'lazy_parallel_map', 'q.put(submit(executor, function, ele, *args, **kwargs))',
                            'q.put(submit(executor, function, ele, *args, **kwargs))'), 'Q2'),
        C('non-blocking retrieval of the head (Q3)',
          expr_replace('parallel_utils', 'lazy_parallel_map', 'q.get()', 'q.get(timeout=1)'), 'Q3'),
        C('drain removed (Q4)',
          F('parallel_utils', 'lazy_parallel_map', lambda n: isinstance(n, ast.While) and 'q.empty()' in A.src(n.test),
            M.delete_keep_pass), 'Q4'),
        C('kwargs dropped by one backend adapter (B)',
          stmt_replace('parallel_utils', 'lazy_parallel_map.submit#2', 'return ex.apply_async(func, args, kwargs)',
                       'return ex.apply_async(func, args)'), 'C04.B'),
        C('dill helper unpacks in another order (B)',
          stmt_replace('parallel_utils', '_dill_mp_helper', 'fun, args, kwargs = dill.loads(payload)',
                       'fun, kwargs, args = dill.loads(payload)'), 'C04.B'),
        C('priority queue for the hand-over (S1)',
          stmt_replace('parallel_utils', 'single_thread_prefetch', 'data_queue = queue.Queue(buffer_size)',
                       'data_queue = queue.LifoQueue(buffer_size)'), 'S1'),
        C('worker puts every element twice (S3)',
          stmt_insert_after('parallel_utils', 'single_thread_prefetch.worker', 'data_queue.put(item)', 'data_queue.put(item)'), 'S3'),
        C('sentinel compared by equality (S4)',
          F('parallel_utils', 'single_thread_prefetch', M.cmp_src('item is unique_object'), M.set_cmp_op(ast.Eq)), 'S4'),
        C('index range starts at 1 (I)',
          expr_replace('core', 'PrefetchDataset.__iter__', 'range(len(self.input_dataset))', 'range(1, len(self.input_dataset))'), 'C04.I'),
    ],
    'C05': [
        C('future held in a local across the yield (P3)',
          F('parallel_utils', 'lazy_parallel_map', lambda n: isinstance(n, ast.For) and A.src(n.iter) == 'generator',
            lambda n: (setattr(n, 'body', M.parse_stmt(
                'job = submit(executor, function, ele, *args, **kwargs)\n'
                'if q.qsize() >= buffer_size:\n    yield result(q.get())\nq.put(job)')), n)[1]), 'P3', tier='quick'),
        C('flag test after the put removed (W1)',
          F('parallel_utils', 'single_thread_prefetch.worker', lambda n: isinstance(n, ast.If) and A.src(n.test) == 'shutdown'
            and isinstance(A.parent(n), ast.For), M.delete_keep_pass, limit=2), 'W1', tier='quick'),
        C('sentinel put unconditionally (W1)',
          F('parallel_utils', 'single_thread_prefetch.worker', lambda n: isinstance(n, ast.If) and A.src(n.test) == 'not shutdown',
            lambda n: n.body), 'W1'),
        C('join before the drain (W2)',
          F('parallel_utils', 'single_thread_prefetch', lambda n: isinstance(n, ast.Try) and n.finalbody and not n.handlers,
            lambda n: (setattr(n, 'finalbody', [n.finalbody[0], n.finalbody[2], n.finalbody[1]]), n)[1]), 'W2'),
        C('flag never set (W2/anchor)',
          stmt_delete('parallel_utils', 'single_thread_prefetch', 'shutdown = True'), 'W', error_ok=True),
        C('worker rebinds the flag locally (W3)',
          stmt_insert_before('parallel_utils', 'single_thread_prefetch.worker', 'data_queue.put(item)', 'shutdown = False'), 'W3', error_ok=True),
        C('GeneratorExit handler does not terminate (P1)',
          stmt_delete('parallel_utils', 'lazy_parallel_map', 'terminate(executor, q)'), 'P1'),
        C('GeneratorExit swallowed (P1)',
          F('parallel_utils', 'lazy_parallel_map', lambda n: isinstance(n, ast.Raise) and n.exc is None, M.delete_keep_pass), 'P1'),
        C('terminate cancels with a blocking get (P2)',
          expr_replace('parallel_utils', 'lazy_parallel_map.terminate#3', 'q.get(block=False)', 'q.get()'), 'P2'),
        C('thread backend stops cancelling (P2)',
          F('parallel_utils', 'lazy_parallel_map.terminate#4', lambda n: isinstance(n, ast.Try), M.delete_keep_pass), 'P2'),
    ],
    'C06': [
        C('prefetch copy loses the catch selection (CP)',
          kw_drop('core', 'PrefetchDataset.copy', '__class__', 'catch_filter_exception'), 'CP', tier='quick'),
        C('delivery loop also ends when an error is pending (E2)',
          F('parallel_utils', 'single_thread_prefetch', M.cmp_src('item is unique_object'),
            lambda n: M.parse_expr('item is unique_object or exc_info is not None')), 'E2', tier='quick'),
        C('worker records only Exception again (E1)',
          F('parallel_utils', 'single_thread_prefetch.worker', lambda n: isinstance(n, ast.ExceptHandler),
            lambda n: (setattr(n, 'type', ast.Name(id='Exception', ctx=ast.Load())), n)[1]), 'E1', tier='quick'),
        C('stored error dropped by the consumer (E2)',
          F('parallel_utils', 'single_thread_prefetch', lambda n: isinstance(n, ast.If) and 'exc_info is not None' in A.src(n.test),
            M.delete_keep_pass), 'E2'),
        C('catcher catches everything (C1)',
          F('core', 'PrefetchDataset.__iter__.catcher#2', lambda n: isinstance(n, ast.ExceptHandler),
            lambda n: (setattr(n, 'type', ast.Name(id='Exception', ctx=ast.Load())), n)[1]), 'C1'),
        C('drop sentinel is a local object again (C2)',
          stmt_replace('core', 'PrefetchDataset.__iter__', 'unique_object = _FilteredExample', 'unique_object = object()'), 'C2', tier='quick'),
        C('sentinel compared by equality (C3)',
          F('core', 'PrefetchDataset.__iter__', M.cmp_src('data is unique_object'), M.set_cmp_op(ast.Eq)), 'C3'),
        C('error raised before the remaining items are delivered (E2)',
          stmt_insert_before('parallel_utils', 'single_thread_prefetch', 'item = data_queue.get()',
                             'if exc_info is not None:\n    raise exc_info[1]'), 'E2'),
        C('single-thread path stops wrapping the input in catch (C1)',
          stmt_replace('core', 'PrefetchDataset._single_thread_prefetch',
                       'input_dataset = CatchExceptionDataset(self.input_dataset, exceptions=exceptions)',
                       'input_dataset = self.input_dataset'), 'C1', error_ok=True),
    ],
    'C07': [
        C('consumer drains the queue into a second buffer (B5)',
          F('parallel_utils', 'single_thread_prefetch', lambda n: isinstance(n, ast.While) and isinstance(A.parent(n), ast.Try),
            lambda n: M.parse_stmt(
                'while True:\n    items = [data_queue.get()]\n    try:\n        while True:\n            items.append(data_queue.get_nowait())\n'
                '    except queue.Empty:\n        pass\n    stop = False\n    for item in items:\n        if item is unique_object:\n            stop = True\n'
                '            break\n        yield item\n    if stop:\n        break')), 'B5', tier='quick', error_ok=True),
        C('off by one in the fullness test (B1)',
          F('parallel_utils', 'lazy_parallel_map', M.cmp_src('q.qsize() >= buffer_size'), M.set_cmp_op(GT)), 'B1', tier='quick'),
        C('fullness compared with max_workers (B1)',
          expr_replace('parallel_utils', 'lazy_parallel_map', 'q.qsize() >= buffer_size', 'q.qsize() >= max_workers + 100'), 'B1'),
        C('unbounded hand-over queue (B2)',
          stmt_replace('parallel_utils', 'single_thread_prefetch', 'data_queue = queue.Queue(buffer_size)', 'data_queue = queue.Queue()'),
          'B2', tier='quick'),
        C('positivity assertion removed (B3)',
          stmt_delete('parallel_utils', 'lazy_parallel_map', 'assert buffer_size > 0'), 'B3'),
        C('buffer size doubled on the way (B4)',
          expr_replace('core', 'Dataset.prefetch', 'buffer_size', '2 * buffer_size', skip=0), 'B4'),
        C('source materialised before prefetching (B5)',
          expr_replace('parallel_utils', 'single_thread_prefetch.worker', 'generator', 'list(generator)'), 'B', error_ok=True),
        C('non-blocking put (B2)',
          expr_replace('parallel_utils', 'single_thread_prefetch.worker', 'data_queue.put(item)', 'data_queue.put(item, timeout=0.1)'), 'B2'),
    ],
    'C08': [
        C('filter evaluates at construction (L1)',
          stmt_insert_before('core', 'Dataset.filter', 'return FilterDataset(filter_fn, self)', 'n = sum(1 for e in self if filter_fn(e))'),
          'L1', tier='quick'),
        C('constructor peeks at the first example (L1)',
          stmt_insert_after('core', 'BatchDataset.__init__', 'self.drop_last = drop_last', 'self._first = input_dataset[0]'), 'L1'),
        C('len() computed by iterating (L2)',
          stmt_replace('core', 'MapDataset.__len__', 'return len(self.input_dataset)', 'return sum(1 for _ in self.input_dataset)'), 'L2', tier='quick'),
        C('__iter__ materialises its input (L3)',
          expr_replace('core', 'UnbatchDataset.__iter__', 'self.input_dataset', 'list(self.input_dataset)'), 'L3', tier='quick'),
        C('predicate evaluated twice per element (L4)',
          stmt_replace('core', 'FilterDataset.__iter__', 'yield example', 'if self.filter_function(example):\n    yield example'), 'L4'),
        C('lookup evaluated twice (L4)',
          stmt_replace('core', 'MapDataset.__getitem__', 'return self.map_function(self.input_dataset[item])',
                       'if self.input_dataset[item] is None:\n    return None\nreturn self.map_function(self.input_dataset[item])'), 'L4'),
        C('key lookup by scanning the iteration (L5)',
          stmt_replace('core', 'MapDataset.__getitem__', 'return self.map_function(self.input_dataset[item])',
                       'for k, v in self.input_dataset.__iter__(with_key=True):\n    if k == item:\n        return self.map_function(v)\nraise KeyError(item)'),
          'L5'),
        C('loop that only accumulates (L3)',
          F('core', 'BatchDataset.__iter__', lambda n: isinstance(n, ast.If) and 'batch_size' in A.src(n.test), M.delete_keep_pass), 'L3'),
    ],
    'C09': [
        C('copy mode hands out the stored object (S1)',
          expr_replace('core', '_get_serialize_and_deserialize', '(lambda x: x, deepcopy)', '(lambda x: x, lambda x: x)'), 'S1', tier='quick'),
        C('from_dict forgets to deserialise (S2)',
          stmt_replace('core', 'from_dict', 'return DictDataset(examples, name=name).map(deserialize)', 'return DictDataset(examples, name=name)'), 'S2'),
        C('from_list stores the raw examples (S2)',
          stmt_replace('core', 'from_list', 'examples = list(map(serialize, examples))', 'examples = list(examples)'), 'S2'),
        C('cache wrapper loads without deserialising (S5)',
          stmt_replace('core', '_CacheWrapper.__getitem__', 'return self._deserialize(self.cache[item])', 'return self.cache[item]'), 'S5'),
        C('cache copy-mode serialiser override removed (S4)',
          F('core', '_CacheWrapper.__init__', lambda n: isinstance(n, ast.If), M.delete_keep_pass), 'S4', tier='quick'),
        C('wu list keeps the caller\'s list (S3)',
          stmt_insert_after('core', 'NumpySerializedList.__init__', 'self._lst = np.concatenate(self._lst)', 'self.data = lst'), 'S3'),
        C('new() drops the mode (S6)',
          kw_drop('core', 'new', 'from_dict', 'immutable_warranty'), 'S6'),
    ],
    'C10': [
        C('negative index normalisation removed (K)',
          F('core', 'CacheDataset.__getitem__', lambda n: isinstance(n, ast.If) and A.src(n.test) == 'item < 0', M.delete_keep_pass),
          'C10.K', tier='quick'),
        C('string keys cached under the string (K)',
          F('core', 'CacheDataset.__getitem__', lambda n: isinstance(n, ast.If) and 'isinstance(item, str)' in A.src(n.test), M.delete_keep_pass),
          'C10', error_ok=True),
        C('store under another key (M)',
          stmt_replace('core', 'CacheDataset.__getitem__', 'self._cache[item] = value', 'self._cache[item + 1] = value'), 'C10.M'),
        C('upstream asked on every access (H)',
          stmt_insert_before('core', 'CacheDataset.__getitem__', 'try:\n    return self._cache[item]\nexcept KeyError:\n    value = self.input_dataset[item]\n    if self.check():\n        self._cache[item] = value\n    return value',
                             'fresh = self.input_dataset[item]'), 'C10', error_ok=True),
        C('store not gated by check() (G)',
          F('core', 'CacheDataset.__getitem__', lambda n: isinstance(n, ast.If) and A.src(n.test) == 'self.check()', lambda n: n.body), 'C10.G'),
        C('latch never set (G)',
          stmt_delete('core', 'CacheDataset.check', 'self._do_cache = False'), 'C10.G'),
        C('copy gets a fresh store (S)',
          stmt_replace('core', 'CacheDataset.copy', 'copy._cache = self._cache', "copy._cache = _CacheWrapper('pickle')"), 'C10.S'),
        C('eager cache returns a lazy view (E)',
          stmt_replace('core', 'Dataset.cache', 'return new(self)', 'return self'), 'C10.E'),
        C('iteration bypasses the cache (H)',
          stmt_replace('core', 'CacheDataset.__iter__', 'yield self[i]', 'yield self.input_dataset[i]'), 'C10.H'),
    ],
    'C11': [
        C('refusal of a non-empty directory removed (G1)',
          F('core', '_DiskCacheWrapper.__init__', lambda n: isinstance(n, ast.If) and A.src(n.test) == 'reuse',
            M.delete_keep_pass), 'G1', tier='quick'),
        C('reuse test inverted (G1)',
          F('core', '_DiskCacheWrapper.__init__', lambda n: isinstance(n, ast.If) and A.src(n.test) == 'reuse',
            lambda n: (setattr(n, 'test', M.parse_expr('not reuse')), n)[1]), 'G1'),
        C('directory removed regardless of clear (G2)',
          F('core', '_DiskCacheWrapper.__del__', lambda n: isinstance(n, ast.If) and A.src(n.test) == 'self.clear', lambda n: n.body), 'G2', tier='quick'),
        C('rmtree in the dataset constructor (G2)',
          stmt_insert_before('core', 'DiskCacheDataset.__init__', 'self._cache = _DiskCacheWrapper(cache_dir, reuse, clear)',
                             'import shutil\nshutil.rmtree(cache_dir, ignore_errors=True)'), 'G2'),
        C('reuse and clear swapped on the way (P)',
          stmt_replace('core', 'Dataset.diskcache', 'return DiskCacheDataset(self, cache_dir, reuse, clear)',
                       'return DiskCacheDataset(self, cache_dir, clear, reuse)'), 'C11.P', tier='quick'),
        C('copy opens a second wrapper (S)',
          stmt_replace('core', 'DiskCacheDataset.copy', 'copy._cache = self._cache',
                       'copy._cache = _DiskCacheWrapper(self._cache.cache.directory, True, self._cache.clear)'), 'C11.S'),
        C('eviction policy left at the default (G1)',
          kw_drop('core', '_DiskCacheWrapper.__init__', 'Cache', 'eviction_policy'), 'G1'),
    ],
    'C12': [
        C('one-time shuffle re-uses a truncated index array (PP)',
          stmt_replace('core', 'Dataset.shuffle', 'permutation = np.arange(len(self))', 'permutation = np.arange(len(self) - 1)'), 'PP', tier='quick'),
        C('index array drawn with replacement (PP)',
          stmt_replace('core', 'Dataset.shuffle', 'rng.shuffle(permutation)', 'permutation = rng.choice(permutation, len(permutation))'), 'PP'),
        C('local shuffle emits before the buffer is full (LS)',
          F('core', 'LocalShuffleDataset.__iter__', M.cmp_src('len(buffer) >= self.buffer_size'),
            lambda n: M.parse_expr('len(buffer) >= 1')), 'LS', tier='quick'),
        C('local shuffle forgets the final flush (LS)',
          F('core', 'LocalShuffleDataset.__iter__', lambda n: isinstance(n, ast.For) and A.src(n.iter) == 'buffer', M.delete_keep_pass), 'LS'),
        C('emitted element stays in the buffer (LS)',
          expr_replace('core', 'LocalShuffleDataset.__iter__', 'buffer.pop(int(self.rng.choice(self.buffer_size)))',
                       'buffer[int(self.rng.choice(self.buffer_size))]'), 'LS'),
        C('shuffle buffer shared through the stage (LS)',
          stmt_replace('core', 'LocalShuffleDataset.__iter__', 'buffer = list()', 'buffer = self._buffer'), 'LS'),
        C('sampling with replacement hard-wired (TL)',
          expr_replace('core', 'Dataset.random_choice', 'rng_state.choice(len(self), size=size, replace=replace)',
                       'rng_state.choice(len(self), size=size, replace=True)'), 'TL'),
        C('frozen reshuffle keeps reshuffling (FR)',
          stmt_replace('core', 'ReShuffleDataset.copy', 'return self.input_dataset.copy(freeze=freeze)[self.permutation]',
                       'return self.__class__(input_dataset=self.input_dataset.copy(freeze=freeze), rng=self.rng)'), 'FR'),
        C('second stage iterates a shared in-place shuffled array (II positive control)',
          stmt_replace('core', 'SliceDataset.__iter__', 'keys = self.input_dataset.keys()',
                       'keys = self.input_dataset.keys()\nnp.random.shuffle(self.slice)'), 'II', tier='quick'),
    ],
    'C13': [
        C('copy drops a constructor parameter (CC)',
          kw_drop('core', 'BatchDataset.copy', '__class__', 'drop_last'), 'CC', tier='quick'),
        C('copy passes another attribute (CC)',
          expr_replace('core', 'PrefetchDataset.copy', 'self.buffer_size', 'self.num_workers'), 'CC'),
        C('__new__ copy forgets an attribute (CC)',
          stmt_delete('core', 'SliceDataset.copy', 'new._slice = self._slice'), 'CC'),
        C('freeze not propagated (FZ)',
          expr_replace('core', 'ConcatenateDataset.copy', 'ds.copy(freeze=freeze)', 'ds.copy()'), 'FZ', tier='quick'),
        C('draw from the global generator (RS positive control)',
          stmt_replace('core', 'LocalShuffleDataset.__iter__', 'self.rng.shuffle(buffer)', 'np.random.shuffle(buffer)'), 'RS', tier='quick'),
        C('factory does not hand its generator on (RT)',
          stmt_replace('core', 'Dataset.shuffle', 'return ReShuffleDataset(self, rng=rng)', 'return ReShuffleDataset(self)'), 'RT'),
        C('reshuffle claims to be ordered (OR)',
          stmt_replace('core', 'ReShuffleDataset.ordered', 'return False', 'return True'), 'OR'),
        C('prefetch looks up in the live input (PF)',
          stmt_replace('core', 'PrefetchDataset.__iter__.function', 'return (key, input_dataset[key])',
                       'return (key, self.input_dataset[key])'), 'PF'),
        C('copy of the reshuffle loses the generator again (CC)',
          kw_drop('core', 'ReShuffleDataset.copy', '__class__', 'rng'), 'CC'),
    ],
    'C14': [
        C('try moved outside the loop (T1)',
          F('core', 'CatchExceptionDataset.__iter__', lambda n: isinstance(n, ast.For) and 'range(len(' in A.src(n.iter),
            lambda n: ast.Try(body=[ast.For(target=n.target, iter=n.iter,
                                            body=[n.body[0]] + n.body[1].body, orelse=[])],
                              handlers=n.body[1].handlers, orelse=[], finalbody=[])), 'T1', tier='quick'),
        C('handler catches Exception (T2)',
          F('core', 'CatchExceptionDataset.__iter__', lambda n: isinstance(n, ast.ExceptHandler),
            lambda n: (setattr(n, 'type', ast.Name(id='Exception', ctx=ast.Load())), n)[1]), 'T2', tier='quick'),
        C('handler stops the iteration (T3)',
          stmt_insert_after('core', 'CatchExceptionDataset.__iter__', 'catched_count += 1', 'break'), 'T3'),
        C('value branch skips the last index (T4)',
          expr_replace('core', 'CatchExceptionDataset.__iter__', 'range(len(input_dataset))', 'range(len(input_dataset) - 1)'), 'T4'),
        C('lazy filter polarity inverted in the key branch (FP)',
          F('core', 'FilterDataset.__iter__', lambda n: isinstance(n, ast.If) and A.src(n.test) == 'self.filter_function(example)',
            lambda n: (setattr(n, 'test', M.parse_expr('not self.filter_function(example)')), n)[1]), 'FP'),
        C('eager filter keeps the rejected (FP)',
          expr_replace('core', 'Dataset.filter', '[i for i, e in enumerate(self) if filter_fn(e)]',
                       '[i for i, e in enumerate(self) if not filter_fn(e)]'), 'FP'),
        C('items signal derives from Exception (IN)',
          F('core', '', lambda n: isinstance(n, ast.ClassDef) and n.name == '_ItemsNotDefined',
            lambda n: (setattr(n, 'bases', [ast.Name(id='Exception', ctx=ast.Load())]), n)[1]), 'IN'),
        C('prefetch True no longer means FilterException (DF)',
          stmt_replace('core', 'PrefetchDataset._single_thread_prefetch', 'exceptions = FilterException', 'exceptions = Exception'), 'DF'),
    ],
    'C15': [
        C('lower guard off by one (G)',
          F('core', 'Dataset.split', M.cmp_src('sections < 1'), lambda n: M.parse_expr('sections < 0')), 'C15.G', tier='quick'),
        C('upper guard removed (G)',
          F('core', 'Dataset.split', lambda n: isinstance(n, ast.If) and 'sections > len(self)' in A.src(n.test), M.delete_keep_pass), 'C15.G'),
        C('last example not covered (PV)',
          expr_replace('core', 'Dataset.split', 'np.arange(len(self))', 'np.arange(len(self) - 1)'), 'PV', tier='quick'),
        C('empty sections filtered out (PV)',
          expr_replace('core', 'Dataset.split', '[self[s] for s in slices]', '[self[s] for s in slices if len(s)]'), 'PV'),
        C('shard arguments swapped (D)',
          expr_replace('core', 'Dataset.shard', 'self.split(num_shards)[shard_index]', 'self.split(shard_index)[num_shards]'), 'C15.D'),
    ],
    'C17': [
        C('search does not stop at the accepting bucket (P1)',
          F('core', 'DynamicBucketDataset.__iter__', lambda n: isinstance(n, ast.Break) and isinstance(A.parent(n), ast.If)
            and 'maybe_append' in A.src(A.parent(n).test), M.delete_keep_pass), 'P1', tier='quick'),
        C('completed bucket removed without emission (P2)',
          F('core', 'DynamicBucketDataset.__iter__', lambda n: isinstance(n, ast.Expr) and isinstance(n.value, ast.Yield)
            and isinstance(A.parent(n), ast.If) and 'is_completed' in A.src(A.parent(n).test), M.delete_keep_pass), 'P2', tier='quick'),
        C('expiry scan continues over the mutated list (P2)',
          F('core', 'DynamicBucketDataset.__iter__', lambda n: isinstance(n, ast.Break) and isinstance(A.parent(n), ast.If)
            and 'expiration' in A.src(A.parent(n).test), M.delete_keep_pass), 'P2'),
        C('final flush skips the last bucket (P3)',
          F('core', 'DynamicBucketDataset.__iter__', lambda n: isinstance(n, ast.For) and A.src(n.iter) == 'buckets' and not isinstance(n.target, ast.Name),
            lambda n: (setattr(n, 'iter', M.parse_expr('buckets[:-1]')), n)[1]), 'P3'),
        C('open list cleared on overflow (P4)',
          stmt_replace('core', 'DynamicBucketDataset.__iter__', 'data = buckets.pop(0)[0].data', 'data = buckets[0][0].data\nbuckets.clear()'), 'P'),
        C('bucket complete only above batch_size (P5)',
          F('core', 'DynamicBucket.is_completed', M.cmp_src('len(self.data) >= self.batch_size'), M.set_cmp_op(GT)), 'P5'),
        C('withheld counter not decremented on expiry (P6)',
          F('core', 'DynamicBucketDataset.__iter__', lambda n: isinstance(n, ast.AugAssign) and isinstance(n.op, ast.Sub)
            and isinstance(A.parent(n), ast.If) and 'expiration' in A.src(A.parent(n).test), M.delete_keep_pass), 'P6'),
    ],
    'C18': [
        C('reverse dropped in the key_fn branch (RV)',
          kw_drop('core', 'Dataset.sort', 'sort_fn', 'reverse', skip=1), 'RV', tier='quick'),
        C('examples sorted directly (NC)',
          expr_replace('core', 'Dataset.sort', 'zip(sort_values, itertools.count())', 'zip(sort_values, self)'), 'NC', tier='quick'),
        C('order taken from the value component (NC)',
          F('core', 'Dataset.sort', lambda n: isinstance(n, ast.ListComp) and A.src(n.elt) == 'index',
            lambda n: (setattr(n, 'elt', ast.Name(id='_', ctx=ast.Load())), n)[1]), 'NC'),
        C('groups overwritten by later runs (GB)',
          stmt_replace('core', 'Dataset.groupby', 'groups[k] += indices', 'groups[k] = indices'), 'GB'),
        C('group id and index positions swapped (GB)',
          expr_replace('core', 'Dataset.groupby', 'lambda ele: ele[1]', 'lambda ele: ele[0]'), 'GB'),
        C('sort returns the order, not the dataset (SL)',
          stmt_replace('core', 'Dataset.sort', 'return self[sort_order]', 'return sort_order'), 'SL'),
    ],
    'C19': [
        C('alias property mutates the source again (NM)',
          expr_replace('database', 'Database.alias', "self.data.get('alias', {})", "self.data.setdefault('alias', {})"), 'NM', tier='quick'),
        C('merge writes into the first dict (NM)',
          F('database', '_merge_database_dicts', lambda n: isinstance(n, ast.Assign) and A.is_name(n.targets[0], 'result'),
            lambda n: M.parse_stmt('result = dict(database_dicts[0])')), 'NM', tier='quick'),
        C('examples augmented in place (NM/AUG)',
          stmt_replace('database', 'Database.get_examples', "examples = {**self.data['datasets'][dataset_name]}",
                       "examples = self.data['datasets'][dataset_name]"), 'C19'),
        C('unguarded subscript of an optional key (OK)',
          expr_replace('database', '_merge_database_dicts', "result.setdefault('alias', {})", "result['alias']"), 'OK', tier='quick'),
        C('duplicate check after the merge (DUP)',
          F('database', '_merge_database_dicts', lambda n: isinstance(n, ast.Assert) and 'duplicate dataset names' in A.src(n), M.delete_keep_pass), 'DUP'),
        C('memo is a strong dict (MEMO)',
          stmt_replace('database', 'Database.__init__', 'self._dataset_weak_ref_dict = weakref.WeakValueDictionary()',
                       'self._dataset_weak_ref_dict = {}'), 'MEMO'),
        C('example_id and dataset swapped (AUG)',
          F('database', 'Database.get_examples', lambda n: isinstance(n, ast.Dict) and len(n.keys) == 3,
            lambda n: (setattr(n, 'values', [n.values[0], n.values[2], n.values[1]]), n)[1]), 'AUG'),
        C('reduce forgets the loaded data (RED)',
          expr_replace('database', 'JsonDatabase.__reduce__', "{'_data': self._data}", '{}'), 'RED'),
    ],
    'C20': [
        C('indexable is a method again (DEL)',
          F('core', 'ProfilingDataset', lambda n: isinstance(n, ast.FunctionDef) and n.name == 'indexable',
            lambda n: (setattr(n, 'decorator_list', []), n)[1]), 'DEL', tier='quick'),
        C('with_key refused again (DEL)',
          stmt_replace('core', 'ProfilingDataset.__iter__', 'it = self.input_dataset.__iter__(with_key=with_key)',
                       'it = iter(self.input_dataset)'), 'DEL'),
        C('wrapper writes into the caller\'s pipeline (PR)',
          stmt_delete('core', 'ProfilingDataset.__init__', 'input_dataset = input_dataset.copy()'), 'PR', tier='quick'),
        C('exhaustion counted as a hit (CN)',
          stmt_delete('core', 'ProfilingDataset.__iter__', 'self.hit_count[0] -= 1'), 'CN', tier='quick'),
        C('failure re-raised as a new exception (CN)',
          F('core', 'ProfilingDataset.__getitem__', lambda n: isinstance(n, ast.Raise) and n.exc is None,
            lambda n: M.parse_stmt('raise RuntimeError("fetch failed")')), 'CN'),
        C('copy gets its own counters (SH)',
          stmt_replace('core', 'ProfilingDataset.copy', 'new.hit_count = self.hit_count', 'new.hit_count = list(self.hit_count)'), 'SH'),
        C('timed region includes the consumer (CN)',
          F('core', 'ProfilingDataset.__iter__', lambda n: isinstance(n, ast.Try),
            lambda n: (n.body.append(M.parse_stmt('yield x')[0]), n)[1]), 'CN'),
    ],
}

CONTROLS['C17'] += [
    C('size limit dropped from the acceptance test (P9)',
      F('core', 'DynamicTimeSeriesBucket.assess', lambda n: isinstance(n, ast.If) and 'max_total_size' in A.src(n.test), M.delete_keep_pass),
      'P9', tier='quick'),
    C('upper bound loosened by a later example (P8)',
      F('core', 'DynamicTimeSeriesBucket._append', lambda n: isinstance(n, ast.Assign) and A.is_self_attr(n.targets[0], 'upper_bound'),
        lambda n: M.parse_stmt('self.upper_bound = seq_len / (1 - self.max_padding_rate)')), 'P8', tier='quick'),
    C('expiry check skipped after a completion (P7)',
      F('core', 'DynamicBucketDataset.__iter__', lambda n: isinstance(n, ast.Expr) and isinstance(n.value, ast.Call)
        and A.src(n.value.func) == 'buckets.pop' and isinstance(A.parent(n), ast.If) and 'is_completed' in A.src(A.parent(n).test),
        lambda n: [n] + M.parse_stmt('continue')), 'P7', tier='quick'),
]
CONTROLS['C15'] += [
    C('sections cached in shared state (PS)',
      stmt_replace('core', 'Dataset.split', 'slices = np.array_split(np.arange(len(self)), sections)',
                   'slices = self.__dict__.setdefault(\'_sections\', {}).setdefault(sections, np.array_split(np.arange(len(self)), sections))\nself._last_sections = sections'),
      'PS', tier='quick', error_ok=True),
]
CONTROLS['C13'] += [
    C('explicit generator replaced by the global one (RF)',
      F('core', 'Dataset.shuffle', lambda n: isinstance(n, ast.IfExp), lambda n: (setattr(n, 'test', M.parse_expr('rng is not None')), n)[1]),
      'RS', tier='quick'),
]
CONTROLS['C14'] += [
    C('part walk swallows IndexError of the upstream (T6)',
      F('core', 'ConcatenateDataset.__getitem__', lambda n: isinstance(n, ast.If) and A.src(n.test) == 'len(dataset) <= item',
        lambda n: M.parse_stmt('try:\n    return dataset[item]\nexcept IndexError:\n    item -= len(dataset)')), 'T6', tier='quick'),
]
CONTROLS['C08'] += [
    C('slice iterates its input with islice (L6)',
      F('core', 'SliceDataset.__iter__', lambda n: isinstance(n, ast.For) and not any(isinstance(x, ast.Tuple) for x in ast.walk(n.body[0])),
        lambda n: M.parse_stmt('yield from itertools.islice(self.input_dataset, int(self.slice[0]), int(self.slice[-1]) + 1)')), 'L6', tier='quick'),
]
CONTROLS['C09'] += [
    C('cache written after the example was yielded (S7)',
      stmt_replace('core', 'CacheDataset.__iter__', 'yield self[i]',
                   'value = self.input_dataset[i]\nyield value\nself._cache[i] = value', skip=0), 'S7', tier='quick'),
]
CONTROLS['C12'] += [
    C('slice keeps the caller\'s index array (FR)',
      stmt_insert_after('core', 'SliceDataset.__init__', 'self.input_dataset = input_dataset',
                        'if isinstance(self._slice, np.ndarray):\n    self.slice = self._slice'), 'FR', tier='quick'),
]
CONTROLS['C02'] += [
    C('wu list start offset off by one (NA)',
      expr_replace('core', 'NumpySerializedList.__getitem__', 'self._addr[idx - 1]', 'self._addr[idx]'), 'NA', tier='quick'),
    C('key_zip integer lookup no longer translated (K1)',
      stmt_delete('core', 'KeyZipDataset.__getitem__', 'item = self.keys()[item]'), 'K1'),
]
CONTROLS['C03'] += [
    C('items refusal removed from a stage without keys (W3)',
      F('core', 'BatchDataset.__iter__', lambda n: isinstance(n, ast.Raise) and '_ItemsNotDefined' in A.src(n), M.delete_keep_pass), 'C03.W', tier='quick'),
    C('single-thread prefetch ignores with_key again (W3)',
      stmt_delete('core', 'PrefetchDataset._single_thread_prefetch', 'input_dataset = input_dataset.items()'), 'C03.W'),
]
CONTROLS['C06'] += [
    C('plain and catching worker functions swapped (C1)',
      F('core', 'PrefetchDataset.__iter__', lambda n: isinstance(n, ast.If) and A.src(n.test) == 'not self.catch_filter_exception',
        lambda n: (setattr(n, 'test', M.parse_expr('self.catch_filter_exception is None')), n)[1]), 'C1', error_ok=True),
    C('Dataset.prefetch forgets the selection (CP)',
      kw_drop('core', 'Dataset.prefetch', 'PrefetchDataset', 'catch_filter_exception'), 'CP'),
]
CONTROLS['C19'] += [
    C('alias section assumed present in later parts (OK)',
      F('database', '_merge_database_dicts', lambda n: isinstance(n, ast.If) and A.src(n.test) == "'alias' in database_dict", lambda n: n.body),
      'OK', tier='quick'),
]
CONTROLS['C04'] += [
    C('batch_map ignores the requested backend (I)',
      kw_drop('core', 'Dataset.batch_map', 'map', 'backend'), 'C04.I'),
]

CONTROLS['C08'] += [
    C('items path of the parallel map uses the helper default buffer (L8)',
      kw_drop('core', 'ParMapDataset.__iter__', 'lazy_parallel_map', 'buffer_size'), 'L8', tier='quick'),
    C('duplicate-key snapshot iterates the input again (L7)',
      expr_replace('core', 'from_dataset', 'list(map(operator.itemgetter(1), items))', 'list(examples)'), 'L7', tier='quick'),
]
CONTROLS['C13'] += [
    C('freeze branch of lazy apply returns an unfrozen dataset (frozen-result)',
      stmt_replace('core', 'ApplyDataset.copy', 'return self.apply_function(self.input_dataset).copy(freeze=freeze)',
                   'return self.apply_function(self.input_dataset.copy(freeze=freeze))'), 'CC', tier='quick'),
]
CONTROLS['C14'] += [
    C('lookup on a filter compares the predicate with False (FP)',
      F('core', 'FilterDataset.__getitem__', lambda n: isinstance(n, ast.If) and 'filter_function' in A.src(n.test),
        lambda n: (setattr(n, 'test', M.parse_expr('self.filter_function(ex) is False')), n)[1]), 'FP', tier='quick'),
]
CONTROLS['C10'] += [
    C('memory percentage taken from available memory (G)',
      expr_replace('core', 'CacheDataset._get_memory_size', 'psutil.virtual_memory().total', 'psutil.virtual_memory().available'), 'C10.G'),
]
CONTROLS['C02'] += [
    C('batch append moved behind the fullness test (BL)',
      F('core', 'BatchDataset.__iter__', lambda n: isinstance(n, ast.For) and A.src(n.iter) == 'self.input_dataset',
        lambda n: (setattr(n, 'body', [n.body[1], n.body[0]]), n)[1]), 'BL', tier='quick'),
    C('prefetch length refused only for catch_filter_exception is True (K2)',
      F('core', 'PrefetchDataset.__len__', lambda n: isinstance(n, ast.If),
        lambda n: (setattr(n, 'test', M.parse_expr('self.catch_filter_exception is True')), n)[1]), 'K2'),
]
CONTROLS['C17'] += [
    C('lower bound derived from the stale max_len (P8)',
      expr_replace('core', 'DynamicTimeSeriesBucket._append', 'seq_len * (1 - self.max_padding_rate)',
                   'self.max_len * (1 - self.max_padding_rate)'), 'P8', tier='quick'),
    C('upper bound multiplies instead of divides (P8)',
      expr_replace('core', 'DynamicTimeSeriesBucket._append', 'seq_len / (1 - self.max_padding_rate)',
                   'seq_len * (1 - self.max_padding_rate)'), 'P8'),
]
CONTROLS['C19'] += [
    C('taken names computed once before the merge loop (DUP)',
      F('database', '_merge_database_dicts', lambda n: isinstance(n, ast.For) and 'database_dicts' in A.src(n.iter),
        lambda n: [[s for s in n.body if isinstance(s, ast.Assign) and 'dataset_names' in A.src(s.targets[0])][0],
                   (setattr(n, 'body', [s for s in n.body if not (isinstance(s, ast.Assign) and 'dataset_names' in A.src(s.targets[0]))]), n)[1]]),
      'DUP', tier='quick'),
]
CONTROLS['C10'] += [
    C('negative index normalised against the number of cached entries (K)',
      expr_replace('core', 'CacheDataset.__getitem__', 'item + len(self)', 'item + len(self._cache)'), 'K', tier='quick'),
]
CONTROLS['C11'] += [
    C('negative index normalised against the number of cached entries (K, inherited lookup)',
      expr_replace('core', 'CacheDataset.__getitem__', 'item + len(self)', 'item + len(self._cache)'), 'K', tier='quick'),
    C('items() of a cache reads the upstream directly (H, inherited iteration)',
      expr_replace('core', 'CacheDataset.__iter__', 'self[i]', 'self.input_dataset[i]'), 'H'),
]
CONTROLS['C09'] += [
    C('items() of a cache bypasses the snapshot (H)',
      expr_replace('core', 'CacheDataset.__iter__', 'self[i]', 'self.input_dataset[i]'), 'H', tier='quick'),
]
CONTROLS['C02'] += [
    C('slice lookup normalised against a foreign length (N)',
      expr_replace('core', 'BatchDataset.__getitem__', 'item + len(self)', 'item + len(self.input_dataset)'), 'N'),
]


def _flip_default(module, path, param):
    def match(n):
        return isinstance(n, ast.arguments) and param in [x.arg for x in n.args]

    def apply(n):
        pos = n.posonlyargs + n.args
        names = [x.arg for x in pos[len(pos) - len(n.defaults):]]
        n.defaults[names.index(param)] = ast.Constant(True)
        return n
    return F(module, path, match, apply)


CONTROLS['C13'] += [
    C('copy() of one stage freezes by default (SG)', _flip_default('core', 'SliceDataset.copy', 'freeze'), 'SG', tier='quick'),
]
CONTROLS['C03'] += [
    C('plain iteration of one stage yields pairs by default (SG)', _flip_default('core', 'FilterDataset.__iter__', 'with_key'), 'SG',
      tier='quick'),
]
CONTROLS['C19'] += [
    C('duplicate assertion with inverted polarity (DUP)',
      F('database', '_merge_database_dicts', lambda n: isinstance(n, ast.Assert) and 'duplicate_keys' in A.src(n.test),
        lambda n: (setattr(n, 'test', n.test.operand), n)[1]), 'DUP'),
]
CONTROLS['C14'] += [
    C('catch() does not forward the exception selection (WR)',
      F('core', 'Dataset.catch', lambda n: isinstance(n, ast.Call) and A.dotted(n.func) == 'CatchExceptionDataset',
        M.drop_keyword('exceptions')), 'WR', tier='quick'),
]
CONTROLS['C01'] += [
    C('map() builds the stage with swapped arguments (WR)',
      F('core', 'Dataset.map', lambda n: isinstance(n, ast.Call) and A.dotted(n.func) == 'MapDataset',
        lambda n: (setattr(n, 'args', [n.args[1], n.args[0]]), n)[1]), 'WR', tier='quick'),
    C('batch() drops drop_last (WR)',
      F('core', 'Dataset.batch', lambda n: isinstance(n, ast.Call) and A.dotted(n.func) == 'BatchDataset',
        lambda n: (setattr(n, 'args', n.args[:2]), n)[1]), 'WR'),
]
CONTROLS['C04'] += [
    C('multi-worker prefetch without catch delivers nothing (I)',
      F('core', 'PrefetchDataset.__iter__', lambda n: isinstance(n, ast.Expr) and isinstance(n.value, ast.YieldFrom)
        and 'lazy_parallel_map' in A.src(n.value), M.delete_keep_pass), 'I', tier='quick'),
]
CONTROLS['C03'] += [
    C('keys() of a concatenation never fills its memo (MV)',
      F('core', 'ConcatenateDataset.keys', lambda n: isinstance(n, ast.Assign) and A.is_self_attr(n.targets[0], '_keys'),
        M.delete_keep_pass), 'memo-filled', tier='quick'),
    C('keys() of an empty slice returns the empty memo (MV)',
      F('core', 'SliceDataset.keys', lambda n: isinstance(n, ast.Assign) and A.is_self_attr(n.targets[0], '_keys')
        and A.src(n.value) == '()', M.delete_keep_pass), 'memo-filled'),
]
CONTROLS['C20'] += [
    C('hit counter starts at one (CN)',
      F('core', 'ProfilingDataset.__init__', lambda n: isinstance(n, ast.Assign) and A.is_self_attr(n.targets[0], 'hit_count'),
        lambda n: M.parse_stmt('self.hit_count = [1, 0]')), 'counter-starts-at-zero', tier='quick'),
]
CONTROLS['C17'] += [
    C('bucket lives one element longer than expiration (P10)',
      F('core', 'DynamicBucketDataset.__iter__', lambda n: isinstance(n, ast.Compare) and 'expiration' in A.src(n) and 'creation_idx' in A.src(n),
        M.set_cmp_op(ast.Gt)), 'expiry-age-test', tier='quick'),
    C('expiry age computed with + (P10)',
      expr_replace('core', 'DynamicBucketDataset.__iter__', 'i - creation_idx', 'i + creation_idx'), 'expiry-age-test'),
]
CONTROLS['C04'] += [
    C('user kwargs always replaced by {} (Q6)',
      F('parallel_utils', 'lazy_parallel_map', lambda n: isinstance(n, ast.If) and A.src(n.test) == 'kwargs is None',
        lambda n: n.body), 'Q6', tier='quick'),
    C('backend branch selected by a negated test (Q7)',
      F('parallel_utils', 'lazy_parallel_map', lambda n: isinstance(n, ast.Compare) and A.src(n) == "backend == 'dill_mp'",
        M.set_cmp_op(ast.NotEq)), 'Q7', tier='quick'),
]
CONTROLS['C13'] += [
    C('local shuffle accepted for a one-time shuffle (OR)',
      F('core', 'Dataset.shuffle', lambda n: isinstance(n, ast.Assert) and 'reshuffle' in A.src(n.test), M.delete_keep_pass),
      're-drawing-stage-only-when-reshuffle-is-True', tier='quick'),
]
CONTROLS['C03'] += [
    C('items() of a slice takes the key from its own key tuple (P)',
      expr_replace('core', 'SliceDataset.__iter__', 'self.input_dataset.keys()', 'self.keys()'), 'pair-keys-of-the-dataset', tier='quick'),
]
CONTROLS['C18'] += [
    C('items() of a sorted dataset pairs keys by position in the sorted key tuple (P)',
      expr_replace('core', 'SliceDataset.__iter__', 'self.input_dataset.keys()', 'self.keys()'), 'pair-keys-of-the-dataset', tier='quick'),
]
CONTROLS['C14'] += [
    C('an empty exception selection is replaced by the default (ST)',
      F('core', 'CatchExceptionDataset.__init__', lambda n: isinstance(n, ast.Assign) and A.is_self_attr(n.targets[0], 'exceptions'),
        lambda n: M.parse_stmt('self.exceptions = exceptions or FilterException')), 'ST', tier='quick'),
]
CONTROLS['C12'] += [
    C('sampling falls back to replacement for a full-size sample (TL)',
      stmt_insert_before('core', 'Dataset.random_choice', 'i = rng_state.choice(len(self), size=size, replace=replace)',
                         'if size is not None and size >= len(self):\n    replace = True'), 'parameters-reach-choice', tier='quick'),
]
CONTROLS['C13'] += [
    C('copy of a slice resolves the caller\'s index object again (AL)',
      F('core', 'SliceDataset.copy', lambda n: isinstance(n, ast.Return),
        lambda n: M.parse_stmt('return self.__class__(self._slice, self.input_dataset.copy(freeze=freeze))')), 'AL', tier='quick'),
]
CONTROLS['C01'] += [
    C('interleaving position multiplies by a reciprocal (IO)',
      expr_replace('core', 'IntersperseDataset.__init__', '(example_index + 1) / ds_len', '(example_index + 1) * (1 / ds_len)'),
      'position-is-one-exact-quotient', tier='quick'),
]
CONTROLS['C02'] += [
    C('finite stage wraps negative indices with modulo (N)',
      F('core', 'CacheDataset.__getitem__', lambda n: isinstance(n, ast.If) and A.src(n.test) == 'item < 0',
        lambda n: (setattr(n, 'body', M.parse_stmt('item = item % len(self)')), n)[1]), 'index-not-wrapped-with-modulo'),
]
CONTROLS['C17'] += [
    C('upper bound follows the (already updated) maximal length instead of this example (P8)',
      F('core', 'DynamicTimeSeriesBucket._append', lambda n: isinstance(n, ast.FunctionDef) and False or (isinstance(n, ast.Assign) and A.is_self_attr(n.targets[0], 'upper_bound')),
        lambda n: M.parse_stmt('self.max_len = max(self.max_len, seq_len)\nself.upper_bound = min(self.upper_bound, self.max_len / (1 - self.max_padding_rate))')),
      'new-upper_bound-from-len', tier='quick'),
]
CONTROLS['C19'] += [
    C('dataset memo moved to the class body (MEMO)',
      F('database', 'Database', lambda n: isinstance(n, ast.FunctionDef) and n.name == '__init__',
        lambda n: M.parse_stmt('_dataset_weak_ref_dict = weakref.WeakValueDictionary()')), 'MEMO', tier='quick', error_ok=True),
]
CONTROLS['C11'] += [
    C('non-emptiness test counts regular files only (G1)',
      expr_replace('core', '_DiskCacheWrapper.__init__', "len(list(Path(cache_dir).glob('*'))) > 0",
                   'any(p.is_file() for p in Path(cache_dir).iterdir())'), 'emptiness-test-considers-every-entry', tier='quick'),
]
CONTROLS['C20'] += [
    C('the wrapper profiles a frozen copy (PR)',
      expr_replace('core', 'ProfilingDataset.__init__', 'input_dataset.copy()', 'input_dataset.copy(freeze=True)'),
      'pipeline-copied-unfrozen', tier='quick'),
]
CONTROLS['C05'] += [
    C('parallel map with keys hands the helper a live iterator (U)',
      expr_replace('core', 'ParMapDataset.__iter__', 'self.input_dataset.items()', 'self.input_dataset.__iter__(with_key=True)'),
      'helper-gets-the-iterable', tier='quick'),
    C('parallel map hands the helper iter(input) (U)',
      F('core', 'ParMapDataset.__iter__', lambda n: isinstance(n, ast.Call) and A.dotted(n.func) == 'lazy_parallel_map'
        and len(n.args) > 1 and A.src(n.args[1]) == 'self.input_dataset',
        lambda n: (n.args.__setitem__(1, M.parse_expr('iter(self.input_dataset)')), n)[1]), 'helper-gets-the-iterable'),
]
CONTROLS['C14'] += [
    C('summary of the prefetch catch path rejects a tuple of types (SB)',
      expr_replace('core', 'PrefetchDataset.__iter__', 'isinstance(catch_filter_exception, (list, tuple))',
                   'isinstance(catch_filter_exception, list)'), 'SB', tier='quick'),
]
CONTROLS['C14'] += [
    C('batch window handler also takes KeyError (T6)',
      F('core', 'BatchDataset.__getitem__', lambda n: isinstance(n, ast.ExceptHandler) and A.src(n.type) == 'IndexError',
        lambda n: (setattr(n, 'type', M.parse_expr('(IndexError, KeyError)')), n)[1]), 'tabled-handler-names-only', tier='quick'),
]
CONTROLS['C02'] += [
    C('zip recognises only builtin ints as indices (IT)',
      expr_replace('core', 'ZipDataset.__getitem__', 'isinstance(item, numbers.Integral)', 'isinstance(item, int)'), 'IT', tier='quick'),
]
CONTROLS['C18'] += [
    C('groupby returns the groups sorted by their id (GB)',
      expr_replace('core', 'Dataset.groupby', 'groups.items()', 'sorted(groups.items())'), 'group-ids-are-never-ordered', tier='quick'),
]
CONTROLS['C06'] += [
    C('keyed single-thread prefetch bypasses the catch wrapper (C1)',
      expr_replace('core', 'PrefetchDataset._single_thread_prefetch', 'input_dataset.items()', 'self.input_dataset.items()'),
      'prefetches-the-wrapped-input', tier='quick'),
]
CONTROLS['C14'] += [
    C('summary takes __name__ of the raw option (SB)',
      expr_replace('core', 'PrefetchDataset.__iter__', 'catch_filter_exception.__name__', 'self.catch_filter_exception.__name__'),
      'name-taken-of-the-tested-selection'),
]
CONTROLS['C04'] += [
    C('keyed multi-worker prefetch asks itself for keys() (CS)',
      expr_replace('core', 'PrefetchDataset.__iter__', 'input_dataset.keys()', 'self.keys()'), 'CS', tier='quick'),
]
CONTROLS['C03'] += [
    C('keyed multi-worker prefetch asks itself for keys() (CS)',
      expr_replace('core', 'PrefetchDataset.__iter__', 'input_dataset.keys()', 'self.keys()'), 'CS'),
]
CONTROLS['C11'] += [
    C('the wrapper no longer says how it is pickled (G2)',
      F('core', '_DiskCacheWrapper', lambda n: isinstance(n, ast.FunctionDef) and n.name == '__getstate__', M.delete), 'copy-in-another-process', tier='quick'),
]
CONTROLS['C11'] += [
    C('numpy and Python integer indices are different disk cache keys (K)',
      stmt_delete('core', 'CacheDataset.__getitem__', 'item = int(item)'), 'cache-key-is-a-builtin-int', tier='quick'),
]
CONTROLS['C10'] += [
    C('integer index used as cache key as it comes (K)',
      stmt_delete('core', 'CacheDataset.__getitem__', 'item = int(item)'), 'cache-key-is-a-builtin-int'),
]
CONTROLS['C02'] += [
    C('slice takes index arrays on the integer path (IT)',
      expr_replace('core', 'SliceDataset.__getitem__', 'isinstance(item, numbers.Integral)', 'isinstance(item, (numbers.Integral, np.ndarray))'),
      'scalar-path-for-scalar-indices-only', tier='quick'),
]
CONTROLS['C10'] += [
    C('duplicate-key fallback of from_dataset looks the examples up in the dict (E)',
      expr_replace('core', 'from_dataset', 'list(map(operator.itemgetter(1), items))', '[new[key] for key, _ in items]'),
      'duplicate-key-fallback-keeps-every-example', tier='quick'),
]
