"""Obligations, verdicts, evidence files, known findings."""
import json
import os
import re
import time

from .model import AnalysisError

VERIF = os.path.dirname(os.path.dirname(os.path.abspath(__file__)))
KNOWN_FILE = os.path.join(VERIF, 'known_findings.txt')


class Obligation:
    __slots__ = ('rule', 'key', 'ok', 'where', 'detail', 'path', 'nontrivial')

    def __init__(self, rule, key, ok, where='', detail='', path=None, nontrivial=True):
        self.rule = rule
        self.key = key
        self.ok = bool(ok)
        self.where = where
        self.detail = detail
        self.path = path or []
        self.nontrivial = nontrivial

    def as_dict(self):
        d = {'rule': self.rule, 'construct': self.key, 'verdict': 'discharged' if self.ok else 'VIOLATED',
             'where': self.where}
        if self.detail:
            d['detail'] = self.detail
        if self.path:
            d['path'] = self.path
        return d


def load_known(path=KNOWN_FILE):
    """-> (known: {(pid, key): text}, fixed: [(pid, commit, text)])"""
    known, fixed = {}, []
    if not os.path.exists(path):
        return known, fixed
    for line in open(path, encoding='utf-8'):
        line = line.strip()
        if not line or line.startswith('#'):
            continue
        m = re.match(r'known:\s+property=(\S+)\s+key=(\S+)\s*(.*)$', line)
        if m:
            known[(m.group(1), m.group(2))] = m.group(3)
            continue
        m = re.match(r'fixed:\s+property=(\S+)\s+(\S+)\s*(.*)$', line)
        if m:
            fixed.append((m.group(1), m.group(2), m.group(3)))
            continue
        raise AnalysisError('unparseable line in known_findings.txt: %r' % line)
    return known, fixed


class Report:
    def __init__(self, pid, tier, repo, seed=0):
        self.pid = pid
        self.tier = tier
        self.repo = repo
        self.seed = seed
        self.obligations = []
        self.analysed = {}       # free-form counters: functions, paths, call sites
        self.notes = []          # evidence remarks (unclassified items, stale table rows)
        self.controls = []       # positive / mutation / variant controls
        self.undecided_list = []  # constructs whose shape a rule could not decide (reported, not an alarm)
        self.t0 = time.time()
        self._keys = set()

    # ------------------------------------------------------------ recording
    def ob(self, rule, key, ok, node=None, detail='', path=None, nontrivial=True):
        """record one obligation. `key` is the construct key (no line numbers)."""
        where = ''
        if node is not None:
            where = self.repo.where(node) if not isinstance(node, str) else node
        full_rule = '%s.%s' % (self.pid, rule) if not rule.startswith(self.pid) else rule
        k = key
        n = 2
        while (full_rule, k) in self._keys:   # keep keys unique but stable
            k = '%s#%d' % (key, n)
            n += 1
        self._keys.add((full_rule, k))
        o = Obligation(full_rule, k, ok, where, detail, path, nontrivial)
        self.obligations.append(o)
        return o

    def summary(self, rule, key, detail='', nontrivial=True):
        """a 'nothing of this kind anywhere' obligation: recorded (as discharged) only when the
        rule produced no violation, so that one defect is reported once"""
        full_rule = '%s.%s' % (self.pid, rule)
        if any((not o.ok) and o.rule == full_rule for o in self.obligations):
            return None
        return self.ob(rule, key, True, None, detail, nontrivial=nontrivial)

    def undecided(self, rule, key, node=None, detail=''):
        """the construct is not in an idiom family this rule can decide: recorded, never an alarm.
        (A restructured construct is not evidence of a violation; see DESIGN.md section 3.)"""
        where = self.repo.where(node) if node is not None and not isinstance(node, str) else (node or '')
        full_rule = '%s.%s' % (self.pid, rule) if not rule.startswith(self.pid) else rule
        self.undecided_list.append({'rule': full_rule, 'construct': key, 'where': where, 'detail': detail})

    def count(self, name, n=1):
        self.analysed[name] = self.analysed.get(name, 0) + n

    def note(self, text):
        self.notes.append(text)

    def floor(self, what, got, minimum):
        """a rule must see at least the hand-confirmed number of instances"""
        self.analysed['floor:' + what] = {'seen': got, 'minimum': minimum}
        if got < minimum:
            raise AnalysisError('floor undercut: %s: saw %d, confirmed minimum %d '
                                '(an anchor vanished or a recogniser went blind)' % (what, got, minimum))

    def control(self, name, fired, expected=True, detail=''):
        self.controls.append({'control': name, 'fired': bool(fired), 'expected': expected,
                              'detail': detail})
        if bool(fired) != expected:
            raise AnalysisError('control %s: rule %s but was expected to %s (%s)' % (
                name, 'fired' if fired else 'did not fire',
                'fire' if expected else 'stay silent', detail))

    # ------------------------------------------------------------ finishing
    def violated(self):
        return [o for o in self.obligations if not o.ok]

    def finish(self, meta, out=print, write=True, evidence_dir=None):
        known, _fixed = load_known()
        viol = self.violated()
        new = []
        for o in viol:
            if (self.pid, o.key) in known:
                out('KNOWN-FINDING: property=%s %s %s — %s' % (
                    self.pid, o.key, o.where, known[(self.pid, o.key)]))
            else:
                new.append(o)
        evidence_dir = evidence_dir or os.path.join(VERIF, 'evidence')
        replay_dir = os.path.join(evidence_dir, 'replay')
        replays = []
        if write:
            os.makedirs(replay_dir, exist_ok=True)
            for f in os.listdir(replay_dir):
                if f.startswith(self.pid + '-'):
                    os.unlink(os.path.join(replay_dir, f))
        for i, o in enumerate(new, 1):
            rp = os.path.join(replay_dir, '%s-%d.json' % (self.pid, i))
            if write:
                with open(rp, 'w') as fh:
                    json.dump({'property': self.pid, 'rule': o.rule, 'construct': o.key,
                               'where': o.where, 'detail': o.detail, 'path': o.path,
                               'repo': self.repo.root}, fh, indent=1)
            replays.append(rp)
            out('  %s %s at %s: %s' % (o.rule, o.key, o.where, o.detail))
            for line in o.path:
                out('      | %s' % line)
            out('VIOLATION property=%s replay=%s' % (self.pid, rp))
        stale = [k for (p, k) in known if p == self.pid and
                 k not in {o.key for o in viol}]
        for k in stale:
            self.note('known finding no longer reported by any rule: %s' % k)
        nontrivial = len({(o.rule, o.key) for o in self.obligations if o.nontrivial})
        samples = [o.as_dict() for o in self.obligations[:12]]
        # show violated ones too
        for o in viol:
            if o.as_dict() not in samples:
                samples.append(o.as_dict())
        ev = {
            'property_id': self.pid,
            'tier': self.tier,
            'seed': int(self.seed),
            'level': 'other',
            'coverage': {
                'explanation': meta.get('explanation', ''),
                'technique': meta.get('technique', ''),
                'obligations': len(self.obligations),
                'discharged': len(self.obligations) - len(viol),
                'violated_known': len(viol) - len(new),
                'violated_new': len(new),
                'evaluations': len(self.obligations),
                'distinct_nontrivial': nontrivial,
                'rule': 'one obligation per (rule, construct) instance enumerated from the parsed '
                        'package; non-trivial = the construct exists and the rule had something to decide',
                'samples': samples,
                'all_obligations': [o.as_dict() for o in self.obligations],
                'exhaustive': True,
                'analysed': {'modules': self.repo.coverage(), **self.analysed},
                'controls': self.controls,
                'undecided': self.undecided_list,
                'notes': self.notes,
                'not_decided': meta.get('not_decided', ''),
                'checker_cmd': './check %s --tier %s' % (self.pid, self.tier),
            },
            'assumptions': meta.get('assumptions', []),
            'wall_s': round(time.time() - self.t0, 3),
            'violations': len(new),
        }
        if write:
            os.makedirs(evidence_dir, exist_ok=True)
            with open(os.path.join(evidence_dir, self.pid + '.json'), 'w') as fh:
                json.dump(ev, fh, indent=1)
        for u in self.undecided_list:
            out('UNDECIDED %s %s at %s: %s' % (u['rule'], u['construct'], u['where'], u['detail']))
        out('%s [%s]: %d obligations, %d discharged, %d known finding(s), %d new violation(s), %d undecided; '
            '%d control(s); %.2fs' % (self.pid, self.tier, len(self.obligations),
                                      len(self.obligations) - len(viol), len(viol) - len(new),
                                      len(new), len(self.undecided_list), len(self.controls), time.time() - self.t0))
        return 1 if new else 0, ev
