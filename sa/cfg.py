"""Statement-level control-flow graph for one function body.

Nodes are simple statements, branch tests, loop heads, `with` heads and
handler heads. Edges carry a kind:

  next       fall through to the next statement
  true/false outcome of an `if`/`while` test (constant tests have one edge)
  loop       loop head -> first body statement (one more element)
  exhausted  loop head -> after the loop (iterator finished)
  back       end of loop body -> loop head
  break / continue / return   the respective jump (after its finally copies)
  raise      an explicit `raise`/failed assert leaving the function (-> RAISE)
  exc        statement inside a `try` raises and handler may match (-> handler)
  uncaught   statement inside a `try` raises and no handler matches
             (-> exceptional copy of finally, or outer handlers, or RAISE)

`finally` bodies are instantiated once per way of entering them (normal,
exceptional, return, break, continue) so that paths stay precise.
"""
import ast
from collections import deque

from . import astutil as A

NORMAL_EDGES = {'next', 'true', 'false', 'loop', 'exhausted', 'back', 'break',
                'continue', 'return'}
EXC_EDGES = {'exc', 'uncaught', 'raise'}


class Node:
    __slots__ = ('id', 'kind', 'ast', 'tag', 'extra')

    def __init__(self, id, kind, ast_node=None, tag='', extra=None):
        self.id = id
        self.kind = kind    # entry exit raise stmt test for while with handler join
        self.ast = ast_node
        self.tag = tag      # '' or 'finally:<reason>' for copies
        self.extra = extra

    @property
    def lineno(self):
        return getattr(self.ast, '_src_line', getattr(self.ast, 'lineno', None))

    def __repr__(self):
        if self.ast is None:
            return '<%s>' % self.kind
        if self.kind in ('for', 'while', 'test', 'with', 'handler'):
            head = {'for': lambda n: 'for %s in %s' % (A.src(n.target), A.src(n.iter)),
                    'while': lambda n: 'while %s' % A.src(n.test),
                    'test': lambda n: 'if %s' % A.src(n.test),
                    'with': lambda n: 'with ' + ', '.join(A.src(i) for i in n.items),
                    'handler': lambda n: 'except %s' % (A.src(n.type) if n.type else ''),
                    }[self.kind](self.ast)
            return 'L%s %s%s' % (self.lineno, head, (' [%s]' % self.tag) if self.tag else '')
        return 'L%s %s%s' % (self.lineno, A.short(self.ast, 70),
                              (' [%s]' % self.tag) if self.tag else '')


def may_raise(node):
    """conservative: can evaluating this statement/test raise?"""
    if isinstance(node, (ast.Pass, ast.Break, ast.Continue, ast.Global, ast.Nonlocal)):
        return False
    if isinstance(node, (ast.Raise, ast.Assert, ast.For, ast.With, ast.Import,
                         ast.ImportFrom, ast.Delete)):
        return True
    for n in A.walk_local(node):
        if isinstance(n, (ast.Call, ast.Subscript, ast.Attribute, ast.BinOp, ast.Yield,
                          ast.YieldFrom, ast.Await, ast.Starred)):
            return True
        if isinstance(n, ast.Compare) and not all(
                isinstance(o, (ast.Is, ast.IsNot)) for o in n.ops):
            return True
    return False


def const_truth(test):
    if isinstance(test, ast.Constant):
        return bool(test.value)
    return None


class CFG:
    def __init__(self, func):
        self.func = func
        self.nodes = []
        self.succ = {}
        self.pred = {}
        self.entry = self._new('entry')
        self.exit = self._new('exit')       # normal return / fall off the end
        self.raise_exit = self._new('raise')  # exception leaves the function
        self.falloff = set()   # node ids whose 'next' edge to exit is the implicit end
        body = func.body if isinstance(func, A.FUNC_TYPES) else func
        dangling = self._block(body, [(self.entry.id, 'next')], [])
        for (nid, kind) in dangling:
            self._edge(nid, self.exit.id, kind)
            self.falloff.add(nid)

    # --------------------------------------------------------------- building
    def _new(self, kind, ast_node=None, tag='', extra=None):
        n = Node(len(self.nodes), kind, ast_node, tag, extra)
        self.nodes.append(n)
        self.succ[n.id] = []
        self.pred[n.id] = []
        return n

    def _edge(self, a, b, kind):
        if (b, kind) not in self.succ[a]:
            self.succ[a].append((b, kind))
            self.pred[b].append((a, kind))

    def _connect(self, dangling, node):
        for (nid, kind) in dangling:
            self._edge(nid, node.id, kind)

    # frames: dict(type='loop', brk=[...], cont_node=Node)
    #         dict(type='try', handlers=[Node], catch_all=bool)
    #         dict(type='finally', body=[stmts], tagbase=str, cache={})
    def _tag(self, frames):
        tags = [f['tag'] for f in frames if f['type'] == 'infinally']
        return '/'.join(tags)

    def _raise_from(self, node, frames, explicit=False):
        """wire the exceptional edges of a node that may raise"""
        cur = node.id
        kind = 'raise' if explicit else 'uncaught'
        i = len(frames) - 1
        while i >= 0:
            f = frames[i]
            if f['type'] == 'try':
                for h in f['handlers']:
                    self._edge(cur, h.id, 'exc')
                if f['catch_all']:
                    return
            elif f['type'] == 'finally':
                ent, out = self._finally_copy(f, 'exc', frames[:i])
                if ent is not None:
                    self._edge(cur, ent, kind)
                    if 'exc_join' not in f['cache']:
                        j = self._new('join', None, 'after-finally-exc')
                        for (nid, k) in out:
                            self._edge(nid, j.id, k)
                        f['cache']['exc_join'] = j.id
                        fresh = True
                    else:
                        fresh = False
                    cur = f['cache']['exc_join']
                    if not fresh:
                        return   # the outward continuation is already wired
                    kind = 'uncaught'
            i -= 1
        self._edge(cur, self.raise_exit.id, kind)

    def _finally_copy(self, frame, reason, outer_frames):
        """instantiate the finally body for `reason`; returns (entry id, dangling)"""
        key = reason
        if key in frame['cache']:
            return frame['cache'][key]
        if not frame['body']:
            frame['cache'][key] = (None, [])
            return frame['cache'][key]
        head = self._new('join', None, 'finally:%s' % reason)
        frames = list(outer_frames) + [{'type': 'infinally', 'tag': 'finally:%s' % reason}]
        frame['cache'][key] = (head.id, None)  # guard against recursion
        out = self._block(frame['body'], [(head.id, 'next')], frames)
        frame['cache'][key] = (head.id, out)
        return frame['cache'][key]

    def _jump(self, node, frames, reason, target_pred):
        """route a return/break/continue from `node` outward through finally copies.
        returns (last dangling list, index of the target frame or -1)"""
        dangling = [(node.id, reason)]
        i = len(frames) - 1
        while i >= 0:
            f = frames[i]
            if target_pred is not None and target_pred(f):
                return dangling, i
            if f['type'] == 'finally':
                # each jump site gets its own copy so paths stay separable
                copy_reason = '%s@L%s' % (reason, getattr(node.ast, '_src_line', getattr(node.ast, 'lineno', '?')))
                ent, out = self._finally_copy(f, copy_reason, frames[:i])
                if ent is not None:
                    for (nid, kind) in dangling:
                        self._edge(nid, ent, kind)
                    dangling = [(nid, reason) for (nid, _k) in out]
            i -= 1
        return dangling, -1

    def _block(self, stmts, dangling, frames):
        for st in stmts:
            dangling = self._stmt(st, dangling, frames)
        return dangling

    def _simple(self, st, dangling, frames, kind='stmt'):
        n = self._new(kind, st, self._tag(frames))
        self._connect(dangling, n)
        if may_raise(st) and any(f['type'] in ('try', 'finally') for f in frames):
            self._raise_from(n, frames)
        return n

    def _stmt(self, st, dangling, frames):
        if isinstance(st, ast.If):
            n = self._simple(st, dangling, frames, 'test')
            truth = const_truth(st.test)
            t_in = [(n.id, 'true')] if truth is not False else []
            f_in = [(n.id, 'false')] if truth is not True else []
            out = []
            out += self._block(st.body, t_in, frames) if t_in else []
            if st.orelse:
                out += self._block(st.orelse, f_in, frames) if f_in else []
            else:
                out += f_in
            return out
        if isinstance(st, (ast.For, ast.AsyncFor, ast.While)):
            kind = 'while' if isinstance(st, ast.While) else 'for'
            n = self._new(kind, st, self._tag(frames))
            self._connect(dangling, n)
            test_expr = st.test if kind == 'while' else st.iter
            if (kind == 'for' or may_raise(test_expr)) and any(
                    f['type'] in ('try', 'finally') for f in frames):
                self._raise_from(n, frames)
            loop = {'type': 'loop', 'brk': [], 'head': n}
            if kind == 'while':
                truth = const_truth(st.test)
                body_in = [(n.id, 'true')] if truth is not False else []
                exit_in = [(n.id, 'false')] if truth is not True else []
            else:
                body_in = [(n.id, 'loop')]
                exit_in = [(n.id, 'exhausted')]
            body_out = self._block(st.body, body_in, frames + [loop]) if body_in else []
            if body_out:
                end = self._new('join', st, 'loop-end')
                self._connect(body_out, end)
                self._edge(end.id, n.id, 'back')
            out = self._block(st.orelse, exit_in, frames) if st.orelse else exit_in
            return out + loop['brk']
        if isinstance(st, ast.Break):
            n = self._simple(st, dangling, frames)
            d, i = self._jump(n, frames, 'break', lambda f: f['type'] == 'loop')
            if i >= 0:
                frames[i]['brk'].extend(d)
            return []
        if isinstance(st, ast.Continue):
            n = self._simple(st, dangling, frames)
            d, i = self._jump(n, frames, 'continue', lambda f: f['type'] == 'loop')
            if i >= 0:
                for (nid, k) in d:
                    self._edge(nid, frames[i]['head'].id, 'continue')
            return []
        if isinstance(st, ast.Return):
            n = self._simple(st, dangling, frames)
            d, _ = self._jump(n, frames, 'return', None)
            for (nid, k) in d:
                self._edge(nid, self.exit.id, 'return')
            return []
        if isinstance(st, ast.Raise):
            n = self._new('stmt', st, self._tag(frames))
            self._connect(dangling, n)
            self._raise_from(n, frames, explicit=True)
            return []
        if isinstance(st, (ast.With, ast.AsyncWith)):
            n = self._simple(st, dangling, frames, 'with')
            return self._block(st.body, [(n.id, 'next')], frames)
        if isinstance(st, ast.Try) or (hasattr(ast, 'TryStar') and isinstance(st, ast.TryStar)):
            return self._try(st, dangling, frames)
        if isinstance(st, ast.Assert):
            n = self._new('stmt', st, self._tag(frames))
            self._connect(dangling, n)
            if const_truth(st.test) is not True:
                self._raise_from(n, frames, explicit=True)
            return [(n.id, 'next')]
        if isinstance(st, A.FUNC_TYPES + (ast.ClassDef,)):
            n = self._new('stmt', st, self._tag(frames))
            self._connect(dangling, n)
            return [(n.id, 'next')]
        n = self._simple(st, dangling, frames)
        return [(n.id, 'next')]

    def _try(self, st, dangling, frames):
        outer = list(frames)
        fin = None
        if st.finalbody:
            fin = {'type': 'finally', 'body': st.finalbody, 'cache': {}}
            outer = outer + [fin]
        handlers = []
        catch_all = False
        for h in st.handlers:
            hn = self._new('handler', h, self._tag(frames))
            handlers.append(hn)
            tn = A.dotted(h.type) if h.type is not None else None
            if h.type is None or tn in ('BaseException',):
                catch_all = True
        tryf = {'type': 'try', 'handlers': handlers, 'catch_all': catch_all}
        head = self._new('join', st, 'try')
        self._connect(dangling, head)
        body_out = self._block(st.body, [(head.id, 'next')], outer + [tryf])
        if st.orelse:
            body_out = self._block(st.orelse, body_out, outer)
        out = list(body_out)
        for h, hn in zip(st.handlers, handlers):
            out += self._block(h.body, [(hn.id, 'next')], outer)
        if fin is not None:
            ent, fout = self._finally_copy(fin, 'normal', frames)
            if ent is not None:
                for (nid, k) in out:
                    self._edge(nid, ent, k)
                return list(fout)
        return out

    # --------------------------------------------------------------- queries
    def node_of(self, ast_node, tag=None):
        return [n for n in self.nodes if n.ast is ast_node and (tag is None or n.tag == tag)]

    def stmt_nodes(self):
        return [n for n in self.nodes if n.ast is not None and n.kind != 'join']

    def edges(self, kinds=None):
        for a, lst in self.succ.items():
            for (b, k) in lst:
                if kinds is None or k in kinds:
                    yield a, b, k

    def reach(self, starts, edge_ok=None, stop=None, forward=True):
        """set of node ids reachable from `starts` (ids); nodes satisfying `stop`
        are reached but not expanded."""
        adj = self.succ if forward else self.pred
        seen = set()
        dq = deque(starts)
        while dq:
            x = dq.popleft()
            if x in seen:
                continue
            seen.add(x)
            if stop is not None and stop(self.nodes[x]) and x not in starts:
                continue
            for (y, k) in adj[x]:
                if edge_ok is None or edge_ok(k):
                    if y not in seen:
                        dq.append(y)
        return seen

    def path_avoiding(self, start, goal_pred, avoid_pred, edge_ok=None, expand_start=True):
        """a path (list of Node) from `start` to a node satisfying goal_pred that
        never visits a node satisfying avoid_pred (start itself is not tested
        against avoid); None if there is none."""
        prev = {start: None}
        dq = deque([start])
        while dq:
            x = dq.popleft()
            for (y, k) in self.succ[x]:
                if edge_ok is not None and not edge_ok(k):
                    continue
                ny = self.nodes[y]
                if y == start and goal_pred(ny) and not (avoid_pred is not None and avoid_pred(ny)):
                    # a cycle back to the start node counts as reaching the goal
                    path = [ny]
                    c = x
                    while c is not None:
                        path.append(self.nodes[c])
                        c = prev[c]
                    return list(reversed(path))
                if y in prev:
                    continue
                if avoid_pred is not None and avoid_pred(ny):
                    continue
                prev[y] = x
                if goal_pred(ny):
                    path = []
                    c = y
                    while c is not None:
                        path.append(self.nodes[c])
                        c = prev[c]
                    return list(reversed(path))
                dq.append(y)
        return None

    def dominators(self, edge_ok=None):
        """node id -> set of dominator ids (w.r.t. entry), over edges edge_ok"""
        ids = sorted(self.reach([self.entry.id], edge_ok))
        allset = set(ids)
        dom = {i: set(allset) for i in ids}
        dom[self.entry.id] = {self.entry.id}
        changed = True
        while changed:
            changed = False
            for i in ids:
                if i == self.entry.id:
                    continue
                preds = [p for (p, k) in self.pred[i] if p in allset and (edge_ok is None or edge_ok(k))]
                if not preds:
                    continue
                new = set.intersection(*[dom[p] for p in preds]) | {i}
                if new != dom[i]:
                    dom[i] = new
                    changed = True
        return dom

    def paths(self, start, stops, edge_ok=None, limit=20000, skip_back=True):
        """enumerate acyclic paths (lists of (Node, edgekind_taken_to_reach)) from
        start to any node id in `stops` (or a node without successors)."""
        out = []
        stack = [(start, [(self.nodes[start], None)], {start})]
        while stack:
            x, path, seen = stack.pop()
            if x in stops and len(path) > 1:
                out.append(path)
                if len(out) > limit:
                    raise OverflowError('too many paths')
                continue
            nxt = [(y, k) for (y, k) in self.succ[x]
                   if (edge_ok is None or edge_ok(k)) and not (skip_back and k in ('back', 'continue'))]
            if not nxt:
                out.append(path)
                continue
            for (y, k) in nxt:
                if y in seen and y not in stops:
                    continue
                stack.append((y, path + [(self.nodes[y], k)], seen | {y}))
        return out

    def dump(self):
        lines = []
        for n in self.nodes:
            lines.append('%3d %-60r -> %s' % (n.id, n, ', '.join(
                '%d(%s)' % (b, k) for b, k in self.succ[n.id])))
        return '\n'.join(lines)


def frames_has_try(frames):
    return any(f['type'] in ('try', 'finally') for f in frames)


def normal(k):
    return k in NORMAL_EDGES


def can_fall_off(func):
    """does some normal path reach the implicit end of the function body?"""
    g = CFG(func)
    reach = g.reach([g.entry.id], normal)
    return sorted(g.nodes[i].lineno or 0 for i in g.falloff if i in reach), g


def node_roots(node):
    """the expressions actually evaluated at a CFG node"""
    a = node.ast
    if a is None or node.kind == 'join':
        return []
    if node.kind == 'test':
        return [a.test]
    if node.kind == 'while':
        return [a.test]
    if node.kind == 'for':
        return [a.iter]
    if node.kind == 'with':
        return [i.context_expr for i in a.items]
    if node.kind == 'handler':
        return [a.type] if a.type is not None else []
    if isinstance(a, A.FUNC_TYPES):
        return list(a.decorator_list) + list(a.args.defaults) + [d for d in a.args.kw_defaults if d]
    if isinstance(a, ast.ClassDef):
        return []
    return [a]


def node_contains(node, target):
    for r in node_roots(node):
        for n in A.walk_local(r):
            if n is target:
                return True
    return False


def loop_body_paths(g, loop_node, edge_ok=normal, limit=5000):
    """paths through one iteration of the loop whose head is `loop_node`: from the head
    (taking its 'loop'/'true' edge) until the head is reached again or the function/loop is left"""
    starts = [(y, k) for (y, k) in g.succ[loop_node.id] if k in ('loop', 'true')]
    out = []
    for (s, k0) in starts:
        stack = [(s, [g.nodes[s]], {s})]
        while stack:
            x, path, seen = stack.pop()
            nxt = [(y, k) for (y, k) in g.succ[x] if edge_ok is None or edge_ok(k)]
            ended = False
            for (y, k) in nxt:
                if y == loop_node.id:
                    out.append(path)
                    ended = True
                    if len(out) > limit:
                        raise OverflowError('too many paths through loop body')
                    continue
                if y in seen:
                    continue
                stack.append((y, path + [g.nodes[y]], seen | {y}))
            if not nxt and not ended:
                out.append(path)
    return out


def loop_body_max(g, loop_node, weight, edge_ok=normal):
    """maximum of sum(weight(node)) over the paths of one iteration of `loop_node`'s body
    (inner loops are traversed once). Returns (max, witness path as list of Nodes)."""
    import sys
    sys.setrecursionlimit(max(10000, sys.getrecursionlimit()))
    memo = {}
    onstack = set()

    def succs(x):
        out = []
        for (y, k) in g.succ[x]:
            if edge_ok is not None and not edge_ok(k):
                continue
            if y == loop_node.id:
                out.append(None)
                continue
            if k in ('back', 'continue') and g.nodes[y].kind in ('for', 'while'):
                for (z, k2) in g.succ[y]:
                    if k2 in ('exhausted', 'false'):
                        out.append(z)
                continue
            out.append(y)
        return out

    def best(x):
        if x in memo:
            return memo[x]
        if x in onstack:
            return (0, [])
        onstack.add(x)
        w = weight(g.nodes[x])
        cand = (0, [])
        for y in succs(x):
            if y is None:
                continue
            c = best(y)
            if c[0] > cand[0] or (c[0] == cand[0] and len(c[1]) > len(cand[1])):
                cand = c
        onstack.discard(x)
        memo[x] = (w + cand[0], [g.nodes[x]] + cand[1])
        return memo[x]

    res = (0, [])
    for (y, k) in g.succ[loop_node.id]:
        if k in ('loop', 'true'):
            c = best(y)
            if c[0] >= res[0]:
                res = c
    return res


def function_max(g, weight, edge_ok=normal):
    """maximum of sum(weight) over acyclic paths from entry (loops traversed once)"""
    fake = type('L', (), {'id': -1})()
    memo = {}
    onstack = set()

    def succs(x):
        out = []
        for (y, k) in g.succ[x]:
            if edge_ok is not None and not edge_ok(k):
                continue
            if k in ('back', 'continue') and g.nodes[y].kind in ('for', 'while'):
                for (z, k2) in g.succ[y]:
                    if k2 in ('exhausted', 'false'):
                        out.append(z)
                continue
            out.append(y)
        return out

    def best(x):
        if x in memo:
            return memo[x]
        if x in onstack:
            return (0, [])
        onstack.add(x)
        w = weight(g.nodes[x])
        cand = (0, [])
        for y in succs(x):
            c = best(y)
            if c[0] > cand[0]:
                cand = c
        onstack.discard(x)
        memo[x] = (w + cand[0], [g.nodes[x]] + cand[1])
        return memo[x]
    return best(g.entry.id)
