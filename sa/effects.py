"""Kinds of expressions (which expression denotes a dataset / an iterator over
one / the stage itself) and the effect vocabulary the rules are phrased in.

Effects (etype, node, info):
  META         len(), keys(), .indexable, .ordered, .copy(), str()/repr() of a dataset
  ITERATE      starts/advances an iteration of a dataset (info: how, consumer)
  MATERIALISE  an iteration consumed wholesale by list/tuple/sorted/... (info: fn)
  GETITEM      ds[expr] (info: index expression)
  COMBINATOR   ds.map(...) etc.: builds a new stage through a Dataset factory (info: name)
  ESCAPE       a dataset handed to another callable (info: callee name)
  CALL_USERFN  a user supplied callable stored on the stage is called (info: attr)
  PASS_USERFN  ... is handed to map()/partial()/lazy_parallel_map (info: attr, callee)
  WRITE_SELF   the stage object is modified (info: (attr, how))
  RNG_DRAW     a random draw (info: receiver dotted name, method)
  SELFCALL / SELFPROP  self.m(...) / self.p of a package-defined member (for closure)
"""
import ast

from . import astutil as A

INPUT_ATTR = 'input_dataset'
INPUTS_ATTR = 'input_datasets'

MATERIALISERS = {'list', 'tuple', 'sorted', 'set', 'frozenset', 'dict', 'sum', 'min', 'max',
                 'any', 'all', 'len_of_list', 'numpy.array', 'numpy.asarray', 'numpy.stack',
                 'numpy.concatenate', 'collections.Counter', 'collections.deque',
                 'collections.OrderedDict', 'str.join', 'reversed'}
LAZY_ITER_FUNCS = {'iter', 'map', 'zip', 'enumerate', 'filter', 'itertools.chain',
                   'itertools.islice', 'itertools.zip_longest', 'itertools.starmap',
                   'itertools.cycle', 'itertools.tee', 'itertools.groupby',
                   'itertools.chain.from_iterable', 'itertools.count', 'itertools.repeat',
                   'itertools.accumulate', 'itertools.takewhile', 'itertools.dropwhile',
                   'itertools.filterfalse', 'itertools.product', 'itertools.compress'}
META_METHODS = {'keys', 'copy', '__len__', '__str__', '__repr__'}
META_PROPS = {'indexable', 'ordered'}
META_FUNCS = {'len', 'repr', 'str', 'hasattr', 'isinstance', 'type', 'id', 'callable'}
MUTATORS = {'append', 'extend', 'insert', 'pop', 'remove', 'clear', 'sort', 'reverse',
            'update', 'setdefault', 'popitem', 'add', 'discard', 'appendleft', 'popleft',
            'fill', 'resize', 'put', 'itemset', 'partition', '__setitem__', '__delitem__',
            'difference_update', 'intersection_update', 'symmetric_difference_update'}
RNG_METHODS = {'shuffle', 'choice', 'permutation', 'randint', 'rand', 'randn', 'random',
               'uniform', 'normal', 'random_sample', 'sample', 'integers', 'seed', 'choices',
               'randrange', 'permuted', 'bytes', 'binomial', 'poisson', 'beta', 'gamma',
               'exponential', 'standard_normal', 'multinomial', 'dirichlet', 'triangular',
               'random_integers', 'ranf', 'get_state', 'set_state'}
INPLACE_FUNCS = {'shuffle': 0, 'heapq.heappush': 0, 'heapq.heappop': 0, 'heapq.heapify': 0,
                 'random.shuffle': 0, 'numpy.random.shuffle': 0, 'bisect.insort': 0,
                 'numpy.put': 0, 'numpy.copyto': 0, 'numpy.place': 0}

COMBINATORS = None  # filled from the Dataset class (public methods) per repo


class Effect:
    __slots__ = ('etype', 'node', 'info', 'origin')

    def __init__(self, etype, node, info=None, origin=None):
        self.etype = etype
        self.node = node
        self.info = info
        self.origin = origin   # qualname of the function it was found in

    def __repr__(self):
        return '%s(%s)@%s' % (self.etype, self.info, getattr(self.node, '_src_line', getattr(self.node, 'lineno', '?')))


def dataset_public_methods(repo):
    base = repo.dataset_base()
    return {n for n, m in base.members.items() if m.is_function}


class FnCtx:
    """per-function kind environment"""

    def __init__(self, repo, module, fn, cls=None, self_is_ds=None):
        self.repo = repo
        self.module = module
        self.fn = fn
        self.cls = cls
        args = fn.args
        allargs = args.posonlyargs + args.args
        self.selfname = None
        if cls is not None and allargs and isinstance(fn, A.FUNC_TYPES):
            kind = 'method'
            for c in cls.mro:
                m = c.members.get(fn.name)
                if m is not None and m.node is fn:
                    kind = m.kind
                    break
            if kind in ('method', 'property'):
                self.selfname = allargs[0].arg
        self.family = set(c.name for c in repo.dataset_family(include_base=True))
        self.in_family = cls is not None and repo.dataset_base() in cls.mro
        self.ds = set()       # local names denoting a dataset
        self.dsseq = set()    # local names denoting a sequence of datasets
        self.iters = {}       # local name -> the DS expression source it iterates
        self.iterseq = set()
        self.selfcopy = set()  # names bound to self.copy(...)
        self._seed_params()
        self._infer()

    # --------------------------------------------------------------
    def _seed_params(self):
        fn, cls = self.fn, self.cls
        args = fn.args
        names = [a.arg for a in args.posonlyargs + args.args + args.kwonlyargs]
        if self.in_family and fn.name == '__init__':
            # parameters stored into the input attributes
            for st in A.walk_local(fn):
                if isinstance(st, ast.Assign) and len(st.targets) == 1 \
                        and A.is_self_attr(st.targets[0], None, self.selfname or 'self'):
                    if st.targets[0].attr == INPUT_ATTR and isinstance(st.value, ast.Name):
                        self.ds.add(st.value.id)
                    if st.targets[0].attr == INPUTS_ATTR and isinstance(st.value, ast.Name):
                        self.dsseq.add(st.value.id)
            if INPUT_ATTR in names:
                self.ds.add(INPUT_ATTR)
            if args.vararg and args.vararg.arg == INPUTS_ATTR:
                self.dsseq.add(INPUTS_ATTR)
        if cls is None:
            # module level factories: concatenate(*datasets) ...
            if args.vararg and args.vararg.arg in ('datasets', 'others', INPUTS_ATTR):
                self.dsseq.add(args.vararg.arg)
            for n in names:
                if n in ('dataset', INPUT_ATTR):
                    self.ds.add(n)
        elif cls is self.repo.dataset_base():
            if args.vararg and args.vararg.arg in ('others', 'datasets'):
                self.dsseq.add(args.vararg.arg)

    def is_self(self, e):
        return self.selfname is not None and A.is_name(e, self.selfname)

    def kind(self, e):
        """'SELF' | 'DS' | 'DSSEQ' | 'ITER' | 'ITERSEQ' | None"""
        if e is None:
            return None
        if self.is_self(e):
            return 'SELF' if self.in_family else None
        if isinstance(e, ast.Name):
            if e.id in self.ds:
                return 'DS'
            if e.id in self.dsseq:
                return 'DSSEQ'
            if e.id in self.iters:
                return 'ITER'
            if e.id in self.iterseq:
                return 'ITERSEQ'
            return None
        if isinstance(e, ast.Attribute):
            if self.in_family and self.is_self(e.value):
                if e.attr == INPUT_ATTR:
                    return 'DS'
                if e.attr == INPUTS_ATTR:
                    return 'DSSEQ'
            # attribute of a local object that holds inputs (ProfilingDataset.__init__)
            if e.attr == INPUT_ATTR and self.kind(e.value) in ('DS',):
                return 'DS'
            if e.attr == INPUTS_ATTR and self.kind(e.value) in ('DS',):
                return 'DSSEQ'
            return None
        if isinstance(e, ast.Subscript):
            k = self.kind(e.value)
            if k == 'DSSEQ':
                if isinstance(e.slice, ast.Slice):
                    return 'DSSEQ'
                return 'DS'
            if k == 'ITERSEQ':
                return 'ITER'
            return None
        if isinstance(e, ast.Starred):
            return self.kind(e.value)
        if isinstance(e, ast.Call):
            f = e.func
            if isinstance(f, ast.Attribute):
                rk = self.kind(f.value)
                if rk in ('DS', 'SELF'):
                    if f.attr == 'copy':
                        return 'DS'
                    if f.attr == '__iter__':
                        return 'ITER'
                    if f.attr == 'items':
                        return 'DS'
                    if f.attr in self._combinators() and f.attr not in (
                            'keys', 'split', 'groupby', '__len__', '__str__', '__repr__',
                            '__contains__', '__call__'):
                        return 'DS'
                    if f.attr == '__call__':
                        return 'ITER'
                # self.__class__(...) / self.__class__.concatenate
                if A.dotted(f) and A.dotted(f).endswith('__class__') and self.in_family:
                    return 'DS'
            dn = A.dotted(f)
            if dn is not None:
                if dn.split('.')[-1] in self.family and dn.split('.')[-1] != 'Dataset':
                    return 'DS'
                if dn.endswith('.__class__') and self.in_family:
                    return 'DS'
                full = self.module.resolve_name(dn)
                if full in ('iter',) and e.args and self.kind(e.args[0]) in ('DS', 'SELF'):
                    return 'ITER'
                if full in LAZY_ITER_FUNCS and any(
                        self.kind(a) in ('DS', 'SELF', 'ITER', 'DSSEQ') for a in e.args):
                    return 'ITER'
                if full in ('list', 'tuple') and e.args and self.kind(e.args[0]) == 'DSSEQ':
                    return 'DSSEQ'
            if isinstance(f, ast.Name) and self.is_self(f):
                return None
            # ds() -> iterator
            if self.kind(f) in ('DS',):
                return 'ITER'
            return None
        if isinstance(e, (ast.ListComp, ast.GeneratorExp)):
            # [ds.copy() for ds in self.input_datasets] -> DSSEQ ; [iter(ds) for ...] -> ITERSEQ
            sub = self._comp_ctx(e)
            k = sub.kind(e.elt)
            if k == 'DS':
                return 'DSSEQ'
            if k == 'ITER':
                return 'ITERSEQ'
            return None
        if isinstance(e, (ast.List, ast.Tuple)):
            ks = [self.kind(x) for x in e.elts]
            if ks and all(k in ('DS', 'SELF', 'DSSEQ') for k in ks):
                return 'DSSEQ'
            return None
        if isinstance(e, ast.BinOp) and isinstance(e.op, (ast.Add, ast.Mult)):
            ks = (self.kind(e.left), self.kind(e.right))
            if 'DSSEQ' in ks:
                return 'DSSEQ'
            return None
        if isinstance(e, ast.IfExp):
            a, b = self.kind(e.body), self.kind(e.orelse)
            return a or b
        return None

    _comb_cache = {}

    def _combinators(self):
        key = id(self.repo)
        if key not in FnCtx._comb_cache:
            FnCtx._comb_cache[key] = dataset_public_methods(self.repo)
        return FnCtx._comb_cache[key]

    def _comp_ctx(self, comp):
        sub = FnCtx.__new__(FnCtx)
        sub.__dict__.update(self.__dict__)
        sub.ds = set(self.ds)
        sub.dsseq = set(self.dsseq)
        sub.iters = dict(self.iters)
        sub.iterseq = set(self.iterseq)
        for g in comp.generators:
            sub._bind_loop(g.target, g.iter)
        return sub

    def _bind_loop(self, target, it):
        """names bound by `for target in it`"""
        k = self.kind(it)
        changed = False
        if k == 'DSSEQ' and isinstance(target, ast.Name):
            changed |= self._add(self.ds, target.id)
        elif k == 'ITERSEQ' and isinstance(target, ast.Name):
            changed |= self._addi(target.id, it)
        elif isinstance(it, ast.Call) and A.dotted(it.func) == 'enumerate' and it.args \
                and self.kind(it.args[0]) == 'DSSEQ' and isinstance(target, ast.Tuple) \
                and len(target.elts) == 2 and isinstance(target.elts[1], ast.Name):
            changed |= self._add(self.ds, target.elts[1].id)
        elif isinstance(it, ast.Call) and A.dotted(it.func) == 'zip' and isinstance(target, ast.Tuple):
            for a, t in zip(it.args, target.elts):
                if self.kind(a) == 'DSSEQ' and isinstance(t, ast.Name):
                    changed |= self._add(self.ds, t.id)
        return changed

    @staticmethod
    def _add(s, x):
        if x in s:
            return False
        s.add(x)
        return True

    def _addi(self, name, src_expr):
        if name in self.iters:
            return False
        self.iters[name] = A.src(src_expr)
        return True

    def _infer(self):
        for _ in range(6):
            changed = False
            for n in A.walk_local(self.fn):
                if isinstance(n, ast.Assign) and len(n.targets) == 1:
                    t, v = n.targets[0], n.value
                    if isinstance(t, ast.Name):
                        k = self.kind(v)
                        if k in ('DS', 'SELF'):
                            changed |= self._add(self.ds, t.id)
                            if isinstance(v, ast.Call) and isinstance(v.func, ast.Attribute) \
                                    and v.func.attr == 'copy' and self.is_self(v.func.value):
                                self.selfcopy.add(t.id)
                        elif k == 'DSSEQ':
                            changed |= self._add(self.dsseq, t.id)
                        elif k == 'ITER':
                            changed |= self._addi(t.id, v)
                        elif k == 'ITERSEQ':
                            changed |= self._add(self.iterseq, t.id)
                    elif isinstance(t, ast.Tuple) and isinstance(v, ast.Name) \
                            and len(t.elts) == 1 and isinstance(t.elts[0], ast.Name) \
                            and self.kind(v) == 'DSSEQ':
                        # datasets, = datasets
                        changed |= self._add(self.dsseq, t.elts[0].id)
                elif isinstance(n, (ast.For, ast.AsyncFor, ast.comprehension)):
                    changed |= self._bind_loop(n.target, n.iter)
            if not changed:
                break


# ======================================================================
class EffectAnalyser:
    def __init__(self, repo):
        self.repo = repo
        self._userfn = {}
        self._cache = {}

    # ---- user function attributes of a class ---------------------------
    def userfn_attrs(self, cls):
        """attributes set in __init__ (of the MRO) from a constructor parameter and used
        as a callable somewhere in the class hierarchy"""
        if cls in self._userfn:
            return self._userfn[cls]
        param_attrs = {}
        for c in reversed(cls.mro):
            init = c.members.get('__init__')
            if init is None or not init.is_function:
                continue
            params = {a.arg for a in init.node.args.posonlyargs + init.node.args.args
                      + init.node.args.kwonlyargs}
            for n in A.walk_local(init.node):
                if isinstance(n, ast.Assign) and len(n.targets) == 1 and \
                        A.is_self_attr(n.targets[0]):
                    used = set(A.names_in(n.value)) & params
                    if used:
                        param_attrs[n.targets[0].attr] = used
        called = set()
        for c in cls.mro:
            for mem in c.members.values():
                if not mem.is_function:
                    continue
                for n in ast.walk(mem.node):
                    if isinstance(n, ast.Call):
                        if A.is_self_attr(n.func) and n.func.attr in param_attrs:
                            called.add(n.func.attr)
                        dn = (A.dotted(n.func) or '').split('.')[-1]
                        for pos, a in enumerate(n.args):
                            if A.is_self_attr(a) and a.attr in param_attrs:
                                if (dn in ('map', 'filter', 'starmap', 'lazy_parallel_map') and pos == 0) \
                                        or dn == 'partial':
                                    called.add(a.attr)
                        for k in n.keywords:
                            a = k.value
                            if A.is_self_attr(a) and a.attr in param_attrs and k.arg in (
                                    'key', 'func', 'function', 'target', 'key_fn', 'map_fn'):
                                called.add(a.attr)
        out = {a for a in called if a not in (INPUT_ATTR, INPUTS_ATTR)}
        self._userfn[cls] = out
        return out

    # ---- effects of one function body (no closure) ---------------------
    def local_effects(self, fn, cls, module, stmts=None):
        key = (id(fn), id(cls), None if stmts is None else tuple(id(s) for s in stmts))
        if key in self._cache:
            return self._cache[key]
        ctx = FnCtx(self.repo, module, fn, cls)
        userfn = self.userfn_attrs(cls) if cls is not None else set()
        origin = self.repo.qualname_of(fn)
        out = []

        def eff(t, node, info=None):
            out.append(Effect(t, node, info, origin))

        nodes = A.walk_local(fn) if stmts is None else A.walk_stmts(stmts)
        # local aliases of mutable stage attributes:  buf = self._buf ; buf.append(x)
        alias = {}
        if ctx.selfname is not None:
            for a_n in A.walk_local(fn):
                if isinstance(a_n, ast.Assign) and len(a_n.targets) == 1 and isinstance(a_n.targets[0], ast.Name):
                    v = a_n.value
                    while isinstance(v, ast.Subscript):
                        v = v.value
                    if A.is_self_attr(v, None, ctx.selfname) and v.attr not in (INPUT_ATTR, INPUTS_ATTR) \
                            and ctx.kind(a_n.value) is None:
                        alias[a_n.targets[0].id] = v.attr
        for n in nodes:
            if isinstance(n, ast.Call):
                dn = A.dotted(n.func)
                full = module.resolve_name(dn) if dn else None
                # materialisers
                if full in MATERIALISERS or (isinstance(n.func, ast.Attribute) and n.func.attr == 'join'):
                    for a in n.args:
                        inner = a.value if isinstance(a, ast.Starred) else a
                        if self._iterates(ctx, inner):
                            eff('MATERIALISE', n, full or 'join')
                # star-unpacking of an iteration
                for a in n.args:
                    if isinstance(a, ast.Starred) and ctx.kind(a.value) in ('DS', 'SELF', 'ITER'):
                        eff('MATERIALISE', n, '*-unpack')
                # calls on datasets
                if isinstance(n.func, ast.Attribute):
                    rk = ctx.kind(n.func.value)
                    attr = n.func.attr
                    if rk in ('DS', 'SELF'):
                        if rk == 'SELF' and cls is not None and cls.resolve(attr) is not None \
                                and attr not in ('__iter__',) and cls is not self.repo.dataset_base():
                            eff('SELFCALL', n, attr)
                        elif attr in META_METHODS:
                            eff('META', n, attr)
                        elif attr == '__iter__':
                            eff('ITERATE', n, ('dunder_iter', None))
                        elif attr == '__getitem__':
                            eff('GETITEM', n, n.args[0] if n.args else None)
                        elif attr == 'items':
                            eff('COMBINATOR', n, 'items')
                        elif attr in ctx._combinators():
                            if rk == 'SELF':
                                eff('SELFCALL', n, attr)
                            else:
                                eff('COMBINATOR', n, attr)
                        else:
                            eff('OTHERCALL', n, attr)
                    elif rk == 'ITER' and attr == '__next__':
                        eff('ITERATE', n, ('next', None))
                    # user function call
                    if A.is_self_attr(n.func, None, ctx.selfname or '\0') and attr in userfn:
                        eff('CALL_USERFN', n, attr)
                    # mutator on self.*
                    base = n.func.value
                    root = base
                    while isinstance(root, (ast.Attribute, ast.Subscript)):
                        root = root.value
                    if attr in MUTATORS and ctx.is_self(root) and not ctx.is_self(base) \
                            and ctx.kind(base) not in ('DS', 'DSSEQ'):
                        a0 = base
                        while isinstance(a0, (ast.Subscript,)) or (
                                isinstance(a0, ast.Attribute) and not ctx.is_self(a0.value)):
                            a0 = a0.value
                        eff('WRITE_SELF', n, (a0.attr if isinstance(a0, ast.Attribute) else '?', 'mutcall:' + attr))
                    if attr in MUTATORS and isinstance(root, ast.Name) and root.id in alias \
                            and not ctx.is_self(root):
                        eff('WRITE_SELF', n, (alias[root.id], 'alias-mutcall:' + attr))
                    # rng draws
                    if attr in RNG_METHODS:
                        rdn = A.dotted(n.func.value)
                        rfull = module.resolve_name(rdn) if rdn else None
                        if rfull and (rfull.endswith('random') or 'rng' in rfull.split('.')[-1]
                                      or rfull in ('random',)):
                            eff('RNG_DRAW', n, (rfull, attr))
                        # in-place on self attribute: rng.shuffle(self.x)
                        if attr == 'shuffle' and n.args:
                            a = n.args[0]
                            if A.is_self_attr(a, None, ctx.selfname or '\0'):
                                eff('WRITE_SELF', n, (a.attr, 'inplace-arg:shuffle'))
                            elif isinstance(a, ast.Name) and a.id in alias:
                                eff('WRITE_SELF', n, (alias[a.id], 'alias-inplace-arg:shuffle'))
                if dn is not None:
                    if full in META_FUNCS and n.args and ctx.kind(n.args[0]) in ('DS', 'SELF'):
                        if ctx.kind(n.args[0]) == 'SELF' and full == 'len' and cls is not None \
                                and cls is not self.repo.dataset_base():
                            eff('SELFCALL', n, '__len__')
                        else:
                            eff('META', n, full)
                    elif full == 'next' and n.args and ctx.kind(n.args[0]) == 'ITER':
                        eff('ITERATE', n, ('next', None))
                    elif full in LAZY_ITER_FUNCS:
                        for a in n.args:
                            inner = a.value if isinstance(a, ast.Starred) else a
                            if ctx.kind(inner) in ('DS', 'SELF'):
                                eff('ITERATE', n, (full, None))
                            elif ctx.kind(inner) == 'DSSEQ' and isinstance(a, ast.Starred):
                                eff('ITERATE', n, (full + '(*inputs)', None))
                        for a in n.args:
                            if A.is_self_attr(a, None, ctx.selfname or '\0') and a.attr in userfn:
                                eff('PASS_USERFN', n, (a.attr, full))
                    elif full in INPLACE_FUNCS and n.args and \
                            A.is_self_attr(n.args[0], None, ctx.selfname or '\0'):
                        eff('WRITE_SELF', n, (n.args[0].attr, 'inplace-arg:' + full))
                    else:
                        # dataset escaping into another callable
                        last = dn.split('.')[-1]
                        for a in list(n.args) + [k.value for k in n.keywords]:
                            inner = a.value if isinstance(a, ast.Starred) else a
                            if ctx.kind(inner) in ('DS', 'SELF', 'DSSEQ', 'ITER') and full not in META_FUNCS \
                                    and full not in MATERIALISERS and not (
                                        isinstance(n.func, ast.Attribute) and ctx.kind(n.func.value) in ('DS', 'SELF')):
                                eff('ESCAPE', n, (last, ctx.kind(inner)))
                                break
                        for a in list(n.args) + [k.value for k in n.keywords]:
                            if A.is_self_attr(a, None, ctx.selfname or '\0') and a.attr in userfn:
                                eff('PASS_USERFN', n, (a.attr, last))
                # callable datasets: ds()
                if ctx.kind(n.func) == 'DS':
                    eff('ITERATE', n, ('call', None))
                # user function called with the whole dataset
            elif isinstance(n, (ast.For, ast.AsyncFor)):
                k = ctx.kind(n.iter)
                if k in ('DS', 'SELF'):
                    eff('ITERATE', n, ('for', None))
                elif k == 'ITER':
                    eff('ITERATE', n, ('for-iter', None))
            elif isinstance(n, ast.comprehension):
                k = ctx.kind(n.iter)
                if k in ('DS', 'SELF', 'ITER'):
                    par = A.parent(n)
                    eff('ITERATE', n.iter, ('comprehension', None))
                    if isinstance(par, (ast.ListComp, ast.SetComp, ast.DictComp)):
                        eff('MATERIALISE', par, 'comprehension')
            elif isinstance(n, ast.YieldFrom):
                k = ctx.kind(n.value)
                if k in ('DS', 'SELF'):
                    eff('ITERATE', n, ('yield_from', None))
            elif isinstance(n, ast.Subscript) and isinstance(n.ctx, ast.Load):
                k = ctx.kind(n.value)
                if k in ('DS', 'SELF'):
                    if k == 'SELF' and cls is not None and cls is not self.repo.dataset_base():
                        eff('SELFCALL', n, '__getitem__')
                    else:
                        eff('GETITEM', n, n.slice)
            elif isinstance(n, ast.Attribute) and isinstance(n.ctx, ast.Load):
                k = ctx.kind(n.value)
                if k in ('DS',) and n.attr in META_PROPS:
                    eff('META', n, n.attr)
                elif k == 'SELF' and cls is not None:
                    mem = cls.resolve(n.attr)
                    if mem is not None and mem.kind == 'property':
                        if cls is self.repo.dataset_base() or n.attr in META_PROPS and False:
                            eff('META', n, n.attr)
                        else:
                            eff('SELFPROP', n, n.attr)
                if n.attr in RNG_METHODS and not isinstance(A.parent(n), ast.Call):
                    pass
            # writes to self
            if isinstance(n, (ast.Assign, ast.AugAssign, ast.AnnAssign, ast.Delete)):
                targets = n.targets if isinstance(n, (ast.Assign, ast.Delete)) else [n.target]
                for t in targets:
                    for tt in ([t] if not isinstance(t, (ast.Tuple, ast.List)) else t.elts):
                        self._write(ctx, n, tt, eff, alias)
            elif isinstance(n, ast.NamedExpr):
                pass
            elif isinstance(n, ast.Call) and A.dotted(n.func) in ('setattr', 'delattr') and n.args \
                    and ctx.is_self(n.args[0]):
                eff('WRITE_SELF', n, (A.src(n.args[1]) if len(n.args) > 1 else '?', 'setattr'))
            elif isinstance(n, ast.Call) and isinstance(n.func, ast.Attribute) \
                    and n.func.attr in ('__setattr__', '__delattr__', 'update') \
                    and A.dotted(n.func.value) in ((ctx.selfname or '\0') + '.__dict__',
                                                   (ctx.selfname or '\0')):
                if n.func.attr != 'update' or A.dotted(n.func.value).endswith('__dict__'):
                    eff('WRITE_SELF', n, ('*', n.func.attr))
        self._cache[key] = (out, ctx)
        return out, ctx

    def _write(self, ctx, stmt, t, eff, alias=None):
        if ctx.selfname is None:
            return
        if alias and isinstance(t, (ast.Subscript, ast.Attribute)):
            r = t
            while isinstance(r, (ast.Subscript, ast.Attribute)):
                r = r.value
            if isinstance(r, ast.Name) and r.id in alias and not ctx.is_self(r):
                eff('WRITE_SELF', stmt, (alias[r.id], 'alias-store'))
                return
        how = 'aug' if isinstance(stmt, ast.AugAssign) else ('del' if isinstance(stmt, ast.Delete) else 'rebind')
        if A.is_self_attr(t, None, ctx.selfname):
            eff('WRITE_SELF', stmt, (t.attr, how))
            return
        # self.a[...] = / self.a.b = / self.a[0].c =
        root = t
        depth = 0
        first_attr = None
        while isinstance(root, (ast.Attribute, ast.Subscript)):
            if isinstance(root, ast.Attribute) and ctx.is_self(root.value):
                first_attr = root.attr
            root = root.value
            depth += 1
        if ctx.is_self(root) and depth >= 2 and first_attr is not None:
            if first_attr in (INPUT_ATTR, INPUTS_ATTR):
                eff('WRITE_INPUT', stmt, (first_attr, how))
            else:
                eff('WRITE_SELF', stmt, (first_attr, 'inplace:' + how))

    def _iterates(self, ctx, e):
        k = ctx.kind(e)
        if k in ('DS', 'SELF', 'ITER'):
            return True
        if isinstance(e, ast.GeneratorExp):
            return any(ctx.kind(g.iter) in ('DS', 'SELF', 'ITER') for g in e.generators)
        return False

    # ---- closure over self calls and properties -------------------------
    def closed_effects(self, cls, member_name, _seen=None, stmts=None, fn=None):
        """effects of cls.<member> including what it reaches through self.m()/self.p
        (resolved on cls's own MRO)."""
        _seen = _seen if _seen is not None else set()
        if fn is None:
            mem = cls.resolve(member_name)
            if mem is None or not mem.is_function:
                return []
            fn = mem.node
            owner = mem.owner
        else:
            owner = cls
        if (id(fn), stmts is None) in _seen:
            return []
        _seen.add((id(fn), stmts is None))
        local, ctx = self.local_effects(fn, cls if owner in cls.mro else owner, owner.module, stmts)
        out = []
        for e in local:
            out.append(e)
            if e.etype in ('SELFCALL', 'SELFPROP'):
                target = cls.resolve(e.info)
                if target is not None and target.is_function:
                    if e.info == '__iter__':
                        continue
                    out.extend(self.closed_effects(cls, e.info, _seen))
        return out
