"""Small AST helpers shared by all rules."""
import ast

FUNC_TYPES = (ast.FunctionDef, ast.AsyncFunctionDef)
SCOPE_TYPES = (ast.FunctionDef, ast.AsyncFunctionDef, ast.Lambda, ast.ClassDef)


def src(node):
    try:
        return ast.unparse(node)
    except Exception:  # pragma: no cover
        return '<%s>' % type(node).__name__


def short(node, n=90):
    s = ' '.join(src(node).split())
    return s if len(s) <= n else s[:n - 3] + '...'


def set_parents(tree):
    for node in ast.walk(tree):
        for child in ast.iter_child_nodes(node):
            child._parent = node
    tree._parent = None
    return tree


def clone(node):
    """deep copy of an AST node that does not follow the `_parent` back links"""
    if isinstance(node, list):
        return [clone(x) for x in node]
    if not isinstance(node, ast.AST):
        return node
    new = type(node)()
    for f, v in ast.iter_fields(node):
        setattr(new, f, clone(v))
    for a in ('lineno', 'col_offset', 'end_lineno', 'end_col_offset', '_src_line'):
        if hasattr(node, a):
            setattr(new, a, getattr(node, a))
    return new


def parent(node):
    return getattr(node, '_parent', None)


def ancestors(node):
    node = parent(node)
    while node is not None:
        yield node
        node = parent(node)


def in_loop_body(node, stop=None):
    """is node executed repeatedly, i.e. inside the body (or the test of a while) of a loop below `stop`?"""
    child = node
    for a in ancestors(node):
        if a is stop:
            break
        if isinstance(a, (ast.For, ast.AsyncFor)) and (any(child is s for s in a.body) or any(child is s for s in a.orelse)):
            if any(child is s for s in a.body):
                return True
        if isinstance(a, ast.While) and not any(child is s for s in a.orelse):
            return True
        if isinstance(a, (ast.ListComp, ast.SetComp, ast.DictComp, ast.GeneratorExp)) and child is not a.generators[0].iter \
                and not (isinstance(child, ast.comprehension) and child is a.generators[0] and False):
            if child is getattr(a, 'elt', None) or child is getattr(a, 'key', None) or child is getattr(a, 'value', None):
                return True
        child = a
    return False


def enclosing_function(node):
    for a in ancestors(node):
        if isinstance(a, FUNC_TYPES + (ast.Lambda,)):
            return a
    return None


def walk_local(node, into_comprehensions=True, include_root=True):
    """Walk `node` without entering nested function / lambda / class scopes.

    The root itself may be a function: its body is walked.
    """
    stack = [node]
    first = True
    while stack:
        n = stack.pop()
        if not first and isinstance(n, SCOPE_TYPES):
            # the nested scope's *decorators/defaults* are evaluated here
            if isinstance(n, FUNC_TYPES):
                for d in n.decorator_list:
                    stack.append(d)
                for d in n.args.defaults + [x for x in n.args.kw_defaults if x]:
                    stack.append(d)
            elif isinstance(n, ast.Lambda):
                for d in n.args.defaults + [x for x in n.args.kw_defaults if x]:
                    stack.append(d)
            yield n  # the def node itself is visible (so callers can see it)
            continue
        if first:
            first = False
            if include_root:
                yield n
            if isinstance(n, FUNC_TYPES):
                stack.extend(reversed(n.body))
                continue
            if isinstance(n, ast.Lambda):
                stack.append(n.body)
                continue
        else:
            yield n
        if not into_comprehensions and isinstance(
                n, (ast.ListComp, ast.SetComp, ast.DictComp, ast.GeneratorExp)):
            continue
        stack.extend(reversed(list(ast.iter_child_nodes(n))))


def walk_stmts(stmts, **kw):
    for s in stmts:
        yield from walk_local(s, **kw)


def dotted(expr):
    """'a.b.c' for Name/Attribute chains, else None."""
    parts = []
    while isinstance(expr, ast.Attribute):
        parts.append(expr.attr)
        expr = expr.value
    if isinstance(expr, ast.Name):
        parts.append(expr.id)
        return '.'.join(reversed(parts))
    return None


def is_name(expr, name=None):
    return isinstance(expr, ast.Name) and (name is None or expr.id == name)


def is_self_attr(expr, attr=None, selfname='self'):
    return (isinstance(expr, ast.Attribute) and is_name(expr.value, selfname)
            and (attr is None or expr.attr == attr
                 or (not isinstance(attr, str) and expr.attr in attr)))


def call_name(call):
    """dotted name of the callee of a Call, or None."""
    if isinstance(call, ast.Call):
        return dotted(call.func)
    return None


def is_const(expr, value=...):
    if not isinstance(expr, ast.Constant):
        return False
    return value is ... or (expr.value is value if isinstance(value, (bool, type(None)))
                            else (expr.value == value and type(expr.value) is type(value)))


def contains_yield(node):
    for n in walk_local(node):
        if isinstance(n, (ast.Yield, ast.YieldFrom)):
            return True
    return False


def yields_in(node):
    return [n for n in walk_local(node) if isinstance(n, (ast.Yield, ast.YieldFrom))]


def names_in(expr, ctx=None):
    out = []
    for n in ast.walk(expr):
        if isinstance(n, ast.Name) and (ctx is None or isinstance(n.ctx, ctx)):
            out.append(n.id)
    return out


def name_targets(target):
    """all Names bound by an assignment target (tuple unpacking aware)."""
    out = []
    if isinstance(target, ast.Name):
        out.append(target.id)
    elif isinstance(target, (ast.Tuple, ast.List)):
        for e in target.elts:
            out.extend(name_targets(e))
    elif isinstance(target, ast.Starred):
        out.extend(name_targets(target.value))
    return out


def same(a, b):
    """structural equality of two AST nodes (ignoring positions/ctx)."""
    if a is None or b is None:
        return a is b
    return ast.dump(a) == ast.dump(b)


def dump_noctx(n):
    return ast.dump(n)


# ---------------------------------------------------------------- comparisons
_FLIP = {ast.Lt: ast.Gt, ast.Gt: ast.Lt, ast.LtE: ast.GtE, ast.GtE: ast.LtE,
         ast.Eq: ast.Eq, ast.NotEq: ast.NotEq}
_NEG = {ast.Lt: ast.GtE, ast.Gt: ast.LtE, ast.LtE: ast.Gt, ast.GtE: ast.Lt,
        ast.Eq: ast.NotEq, ast.NotEq: ast.Eq, ast.Is: ast.IsNot,
        ast.IsNot: ast.Is, ast.In: ast.NotIn, ast.NotIn: ast.In}
_SYM = {ast.Lt: '<', ast.Gt: '>', ast.LtE: '<=', ast.GtE: '>=', ast.Eq: '==',
        ast.NotEq: '!=', ast.Is: 'is', ast.IsNot: 'is not', ast.In: 'in',
        ast.NotIn: 'not in'}


def strip_not(test):
    """returns (inner, negated)"""
    neg = False
    while isinstance(test, ast.UnaryOp) and isinstance(test.op, ast.Not):
        test = test.operand
        neg = not neg
    return test, neg


def atoms(test, negated=False):
    """Decompose a boolean test into a list of (lhs, opsym, rhs, conj) atoms.

    Returns (kind, atoms): kind 'and' means all atoms hold when the (possibly
    negated) test is true, 'or' means at least one holds. A single atom is
    'and'. Non-comparison leaves are returned as (expr, 'truthy'|'falsy', None).
    """
    test, neg = strip_not(test)
    negated = negated != neg
    if isinstance(test, ast.BoolOp):
        parts = [atoms(v, negated) for v in test.values]
        is_and = isinstance(test.op, ast.And) != negated  # De Morgan
        kind = 'and' if is_and else 'or'
        flat = []
        for k, a in parts:
            if len(a) == 1 or k == kind:
                flat.extend(a)
            else:
                flat.append(('compound', k, tuple(a)))
        return kind, flat
    if isinstance(test, ast.Compare) and len(test.ops) == 1:
        op = type(test.ops[0])
        if negated:
            op = _NEG.get(op, None)
        if op is None:
            return 'and', [(test, 'falsy' if negated else 'truthy', None)]
        return 'and', [(test.left, _SYM[op], test.comparators[0])]
    if isinstance(test, ast.Compare):
        # chained a < b < c -> conjunction
        if not negated:
            out = []
            left = test.left
            for op, right in zip(test.ops, test.comparators):
                out.append((left, _SYM[type(op)], right))
                left = right
            return 'and', out
        return 'and', [(test, 'falsy', None)]
    return 'and', [(test, 'falsy' if negated else 'truthy', None)]


def norm_cmp(lhs, op, rhs, subject_pred):
    """Orient a comparison so that the expression satisfying subject_pred is on
    the left. Returns (op, other) or None."""
    flip = {'<': '>', '>': '<', '<=': '>=', '>=': '<=', '==': '==', '!=': '!=',
            'is': 'is', 'is not': 'is not'}
    if rhs is None:
        return None
    if subject_pred(lhs):
        return op, rhs
    if subject_pred(rhs) and op in flip:
        return flip[op], lhs
    return None


def int_value(expr):
    """literal integer value (handles unary minus) or None"""
    if isinstance(expr, ast.Constant) and isinstance(expr.value, int) \
            and not isinstance(expr.value, bool):
        return expr.value
    if isinstance(expr, ast.UnaryOp) and isinstance(expr.op, ast.USub):
        v = int_value(expr.operand)
        return None if v is None else -v
    if isinstance(expr, ast.UnaryOp) and isinstance(expr.op, ast.UAdd):
        return int_value(expr.operand)
    return None
