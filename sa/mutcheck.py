"""development aid: run every mutation control and print applied / fired: python -m sa.mutcheck [Cxx ...]"""
import sys
from .model import Repo, AnalysisError, read_sources
from .report import Report
from .cli import Ctx, PROPERTIES, load_rules
from .controls_table import CONTROLS


def viol(pid, sources, root='/repo'):
    mod = load_rules(pid)
    repo = Repo(root, sources=sources)
    rep = Report(pid, 'quick', repo)
    mod.run(Ctx(repo, rep, 'quick'))
    return {(o.rule, o.key) for o in rep.violated()}


def main(only=None):
    src = read_sources('/repo')
    bad = 0
    for pid in PROPERTIES:
        if only and pid not in only:
            continue
        base = viol(pid, src)
        for c in CONTROLS.get(pid, []):
            try:
                new = c['mutate'](src)
            except Exception as e:
                print('%s %-70s MUTATOR-CRASH %r' % (pid, c['name'], e)); bad += 1; continue
            if new is None:
                print('%s %-70s NOT-APPLIED' % (pid, c['name'])); bad += 1; continue
            try:
                compile(new[[m for m in new if new[m] != src[m]][0]], 'x', 'exec')
            except Exception as e:
                print('%s %-70s MUTANT DOES NOT COMPILE %r' % (pid, c['name'], e)); bad += 1; continue
            try:
                v = viol(pid, new) - base
                err = None
            except AnalysisError as e:
                v, err = set(), str(e)
            hit = [k for k in v if c['expect'] in k[0] + ' ' + k[1]]
            if hit or (err and c.get('error_ok')):
                print('%s %-70s ok   %s' % (pid, c['name'], (hit[0][0] + ' ' + hit[0][1])[:70] if hit else 'ANALYSIS-ERROR ' + err[:50]))
            else:
                bad += 1
                print('%s %-70s MISSED fresh=%s err=%s' % (pid, c['name'], sorted(v)[:3], err))
    print('problems:', bad)


if __name__ == '__main__':
    main(set(sys.argv[1:]) or None)
