"""Systematic single-site mutation sweep over the functions a property is anchored in (thorough tier evidence and
development aid). For each generated mutant the property's rules are re-run on the in-memory tree; a mutant is
"noticed" when a fresh violation or an ANALYSIS-ERROR appears. Survivors are listed so that they can be triaged
(equivalent / outside the property / a gap in the rules). The sweep never decides a verdict.

  python -m sa.sweep C07 [--list]        # print survivors
"""
import ast
import copy
import sys
from concurrent.futures import ProcessPoolExecutor

from . import astutil as A
from .model import Repo, AnalysisError, read_sources
from .report import Report
from .mutate import _find

CMP_SWAP = {ast.Lt: ast.LtE, ast.LtE: ast.Lt, ast.Gt: ast.GtE, ast.GtE: ast.Gt, ast.Eq: ast.NotEq, ast.NotEq: ast.Eq,
            ast.Is: ast.IsNot, ast.IsNot: ast.Is, ast.In: ast.NotIn, ast.NotIn: ast.In}

ANCHORS = {
    'C01': [('core', c + '.__iter__') for c in (
        'DictDataset', 'ListDataset', 'MapDataset', 'ParMapDataset', 'SliceDataset', 'FilterDataset', 'ConcatenateDataset',
        'IntersperseDataset', 'ZipDataset', 'KeyZipDataset', 'ItemsDataset', 'BatchDataset', 'UnbatchDataset', 'CycleDataset',
        'CacheDataset', 'CatchExceptionDataset')] + [('core', 'IntersperseDataset.__init__'), ('core', 'SliceDataset.__init__')],
    'C02': [('core', c + '.' + m) for c in ('ConcatenateDataset', 'BatchDataset', 'SliceDataset', 'IntersperseDataset',
                                            'ZipDataset', 'KeyZipDataset', 'ItemsDataset', 'NumpySerializedList')
            for m in ('__getitem__', '__len__')] + [('core', 'PrefetchDataset.__len__'), ('core', 'CycleDataset.__getitem__')],
    'C03': [('core', c + '.' + m) for c in ('SliceDataset', 'ConcatenateDataset', 'IntersperseDataset', 'ItemsDataset',
                                            'KeyZipDataset', 'DictDataset')
            for m in ('keys', '__getitem__', '__iter__')] + [('core', 'PrefetchDataset.__iter__'), ('core', 'MapDataset.__iter__'),
                                                            ('core', 'FilterDataset.__iter__'), ('core', 'ReShuffleDataset.__iter__')],
    'C04': [('parallel_utils', 'lazy_parallel_map'), ('parallel_utils', 'single_thread_prefetch'), ('parallel_utils', '_dill_mp_helper'),
            ('core', 'PrefetchDataset.__iter__'), ('core', 'PrefetchDataset._single_thread_prefetch'), ('core', 'ParMapDataset.__iter__'),
            ('core', 'PrefetchDataset.__len__')],
    'C05': [('parallel_utils', 'lazy_parallel_map'), ('parallel_utils', 'single_thread_prefetch')],
    'C06': [('parallel_utils', 'lazy_parallel_map'), ('parallel_utils', 'single_thread_prefetch'),
            ('core', 'PrefetchDataset.__iter__'), ('core', 'PrefetchDataset._single_thread_prefetch'), ('core', 'PrefetchDataset.copy')],
    'C07': [('parallel_utils', 'lazy_parallel_map'), ('parallel_utils', 'single_thread_prefetch'), ('core', 'PrefetchDataset.__init__'),
            ('core', 'Dataset.prefetch'), ('core', 'Dataset.map'), ('core', 'Dataset.batch_map'), ('core', 'ParMapDataset.__init__'),
            ('core', 'ParMapDataset.__iter__'), ('core', 'PrefetchDataset.__iter__'), ('core', 'PrefetchDataset._single_thread_prefetch')],
    'C08': [('core', 'Dataset.' + m) for m in ('map', 'filter', 'shuffle', 'cache', 'apply', 'tile', 'concatenate', 'batch')] +
           [('core', c + '.' + m) for c in ('MapDataset', 'FilterDataset', 'BatchDataset', 'UnbatchDataset', 'SliceDataset',
                                            'ConcatenateDataset', 'KeyZipDataset', 'ZipDataset')
            for m in ('__iter__', '__getitem__', '__len__', '__init__')],
    'C09': [('core', '_get_serialize_and_deserialize'), ('core', 'from_dict'), ('core', 'from_list'), ('core', 'new'),
            ('core', 'NumpySerializedList.__init__'), ('core', 'NumpySerializedList.__getitem__'), ('core', '_CacheWrapper.__init__'),
            ('core', '_CacheWrapper.__getitem__'), ('core', '_CacheWrapper.__setitem__'), ('core', 'CacheDataset.__getitem__'),
            ('core', '_DiskCacheWrapper.__getitem__'), ('core', '_DiskCacheWrapper.__setitem__'), ('core', 'from_dataset')],
    'C10': [('core', 'CacheDataset.__getitem__'), ('core', 'CacheDataset.check'), ('core', 'CacheDataset.copy'),
            ('core', 'CacheDataset.__iter__'), ('core', 'Dataset.cache'), ('core', 'from_dataset'), ('core', '_CacheWrapper.__setitem__'),
            ('core', 'CacheDataset.__init__')],
    'C11': [('core', '_DiskCacheWrapper.__init__'), ('core', '_DiskCacheWrapper.__del__'), ('core', 'DiskCacheDataset.__init__'),
            ('core', 'DiskCacheDataset.copy'), ('core', 'Dataset.diskcache'), ('core', 'DiskCacheDataset.check')],
    'C12': [('core', 'Dataset.shuffle'), ('core', 'ReShuffleDataset.__init__'), ('core', 'ReShuffleDataset.permutation'),
            ('core', 'ReShuffleDataset.__iter__'), ('core', 'ReShuffleDataset.copy'), ('core', 'LocalShuffleDataset.__iter__'),
            ('core', 'Dataset.tile'), ('core', 'Dataset.random_choice')],
    'C13': [('core', c + '.copy') for c in ('MapDataset', 'ParMapDataset', 'ApplyDataset', 'CatchExceptionDataset', 'PrefetchDataset',
                                            'ReShuffleDataset', 'LocalShuffleDataset', 'SliceDataset', 'FilterDataset',
                                            'ConcatenateDataset', 'IntersperseDataset', 'ZipDataset', 'KeyZipDataset', 'ItemsDataset',
                                            'BatchDataset', 'UnbatchDataset', 'DynamicBucketDataset', 'CacheDataset',
                                            'DiskCacheDataset', 'ProfilingDataset', 'DictDataset', 'ListDataset')] +
           [('core', 'Dataset.shuffle'), ('core', 'ReShuffleDataset.ordered'), ('core', 'LocalShuffleDataset.ordered'),
            ('core', 'PrefetchDataset.__iter__'), ('core', 'ReShuffleDataset.permutation')],
    'C14': [('core', 'CatchExceptionDataset.__iter__'), ('core', 'FilterDataset.__iter__'), ('core', 'FilterDataset.__getitem__'),
            ('core', 'Dataset.filter'), ('core', 'Dataset.catch'), ('core', 'CatchExceptionDataset.__init__')],
    'C15': [('core', 'Dataset.split'), ('core', 'Dataset.shard')],
    'C17': [('core', 'DynamicBucketDataset.__iter__'), ('core', 'DynamicBucket.is_completed'), ('core', 'DynamicBucket.maybe_append'),
            ('core', 'DynamicBucket._append'), ('core', 'DynamicBucket.__init__')],
    'C18': [('core', 'Dataset.sort'), ('core', 'Dataset.groupby')],
    'C19': [('database', 'Database.alias'), ('database', 'Database.get_examples'), ('database', 'Database._get_dataset'),
            ('database', '_merge_database_dicts'), ('database', 'JsonDatabase.__reduce__'), ('database', 'JsonDatabase.data'),
            ('database', 'DictDatabase.__init__'), ('database', 'Database.__init__')],
    'C20': [('core', 'ProfilingDataset.' + m) for m in ('__init__', '__iter__', '__getitem__', 'copy', '__len__', 'keys',
                                                       'indexable', 'ordered')],
}


def _is_doc(st):
    return isinstance(st, ast.Expr) and isinstance(st.value, ast.Constant) and isinstance(st.value.value, str)


def _sites(fn):
    """enumerate (kind, index) mutation sites inside fn (in document order, stable across copies)"""
    sites = []
    nodes = [n for n in ast.walk(fn)]
    for i, n in enumerate(nodes):
        if isinstance(n, ast.Compare) and len(n.ops) == 1 and type(n.ops[0]) in CMP_SWAP:
            sites.append(('cmp', i))
        if isinstance(n, ast.BoolOp):
            sites.append(('boolop', i))
        if isinstance(n, ast.UnaryOp) and isinstance(n.op, ast.Not):
            sites.append(('not', i))
        if isinstance(n, ast.Constant) and type(n.value) in (int, bool) and not _is_doc(A.parent(n) or n):
            sites.append(('const', i))
        if isinstance(n, ast.Call):
            for k in range(len(n.keywords)):
                if n.keywords[k].arg is not None:
                    sites.append(('dropkw:%d' % k, i))
            if len(n.args) >= 2 and not any(isinstance(a, ast.Starred) for a in n.args[:2]):
                sites.append(('swapargs', i))
        if isinstance(n, (ast.Expr, ast.Assign, ast.AugAssign, ast.Raise, ast.Break, ast.Continue, ast.Assert)) and not _is_doc(n):
            if not (isinstance(n, ast.Expr) and isinstance(n.value, (ast.Yield, ast.YieldFrom))):
                sites.append(('delstmt', i))
            else:
                sites.append(('delyield', i))
        if isinstance(n, ast.If) and not n.orelse:
            sites.append(('unguard', i))       # if c: body  ->  body
        if isinstance(n, ast.BinOp) and isinstance(n.op, (ast.Add, ast.Sub)) :
            sites.append(('addsub', i))
    return sites


def _apply(fn, kind, idx):
    """mutate (a deep copy's) node number idx; returns description or None if not applicable"""
    nodes = [n for n in ast.walk(fn)]
    n = nodes[idx]
    desc = None
    if kind == 'cmp':
        old = type(n.ops[0])
        n.ops = [CMP_SWAP[old]()]
        desc = 'comparison %s -> %s in `%s`' % (old.__name__, type(n.ops[0]).__name__, A.short(n, 60))
    elif kind == 'boolop':
        n.op = ast.Or() if isinstance(n.op, ast.And) else ast.And()
        desc = 'and<->or in `%s`' % A.short(n, 60)
    elif kind == 'not':
        desc = 'drop `not` in `%s`' % A.short(n, 60)
        n.op = ast.UAdd() if False else n.op
        # replace by operand: done through parent
        par = getattr(n, '_sweep_parent', None)
        return ('replace', n, n.operand, desc)
    elif kind == 'const':
        old = n.value
        n.value = (not old) if isinstance(old, bool) else (old + 1)
        desc = 'constant %r -> %r' % (old, n.value)
    elif kind.startswith('dropkw:'):
        k = int(kind.split(':')[1])
        desc = 'drop keyword %s= from `%s`' % (n.keywords[k].arg, A.short(n, 60))
        del n.keywords[k]
    elif kind == 'swapargs':
        desc = 'swap first two arguments of `%s`' % A.short(n, 60)
        n.args[0], n.args[1] = n.args[1], n.args[0]
    elif kind in ('delstmt', 'delyield'):
        desc = 'delete statement `%s`' % A.short(n, 70)
        return ('replace', n, ast.Pass(), desc)
    elif kind == 'unguard':
        desc = 'remove guard `if %s`' % A.short(n.test, 60)
        return ('replace_stmts', n, n.body, desc)
    elif kind == 'addsub':
        n.op = ast.Sub() if isinstance(n.op, ast.Add) else ast.Add()
        desc = '+ <-> - in `%s`' % A.short(n, 60)
    return ('inplace', n, None, desc)


class _Repl(ast.NodeTransformer):
    def __init__(self, target, new):
        self.target = target
        self.new = new

    def visit(self, node):
        if node is self.target:
            return self.new
        return self.generic_visit(node)


def generate(sources, anchors):
    """yield (module, qualpath, description, new sources)"""
    for module, path in anchors:
        if module not in sources:
            continue
        base = ast.parse(sources[module])
        A.set_parents(base)
        fn0 = _find(base, path)
        if fn0 is None:
            continue
        for kind, idx in _sites(fn0):
            tree = ast.parse(sources[module])
            A.set_parents(tree)
            fn = _find(tree, path)
            res = _apply(fn, kind, idx)
            if res is None:
                continue
            how, node, new, desc = res
            if how in ('replace', 'replace_stmts'):
                _Repl(node, new).visit(tree)
            ast.fix_missing_locations(tree)
            try:
                text = ast.unparse(tree)
                compile(text, 'm', 'exec')
            except Exception:
                continue
            out = dict(sources)
            out[module] = text
            yield module, path, desc, out


def _verdict(args):
    pid, sources, root = args
    from .cli import Ctx, load_rules
    mod = load_rules(pid)
    try:
        repo = Repo(root, sources=sources)
        rep = Report(pid, 'quick', repo)
        mod.run(Ctx(repo, rep, 'quick'))
        return sorted({(o.rule, o.key.split('#')[0]) for o in rep.violated()}), None
    except AnalysisError as e:
        return [], str(e)
    except Exception as e:    # checker crash on a mutant: counts as noticed but is reported
        return [], 'CRASH %r' % (e,)


def sweep(pid, root='/repo', jobs=16):
    sources = read_sources(root)
    base, err = _verdict((pid, sources, root))
    if err:
        raise AnalysisError('sweep: base tree not analysable: %s' % err)
    muts = list(generate(sources, ANCHORS.get(pid, [])))
    with ProcessPoolExecutor(max_workers=jobs) as ex:
        res = list(ex.map(_verdict, [(pid, m[3], root) for m in muts], chunksize=8))
    noticed, survivors, crashes = [], [], []
    for (module, path, desc, _src), (v, e) in zip(muts, res):
        fresh = [x for x in v if tuple(x) not in {tuple(b) for b in base}]
        if e and e.startswith('CRASH'):
            crashes.append((module, path, desc, e))
        if fresh or e:
            noticed.append((module, path, desc, fresh[:1] or e))
        else:
            survivors.append((module, path, desc))
    return muts, noticed, survivors, crashes


if __name__ == '__main__' and sys.argv[1] != 'ALL':
    pid = sys.argv[1]
    muts, noticed, survivors, crashes = sweep(pid)
    print('%s: %d single-site mutants of %d anchored functions, %d noticed, %d survive, %d checker crashes' % (
        pid, len(muts), len(ANCHORS.get(pid, [])), len(noticed), len(survivors), len(crashes)))
    for c in crashes:
        print('  CRASH', c)
    if '--list' in sys.argv:
        for s in survivors:
            print('  survivor %s.%s: %s' % s)


def _verdict_all(args):
    sources, root, pids = args
    out = {}
    for pid in pids:
        out[pid] = _verdict((pid, sources, root))
    return out


def sweep_all(root='/repo', jobs=16, keep_sources=False):
    from .cli import PROPERTIES
    sources = read_sources(root)
    base = _verdict_all((sources, root, PROPERTIES))
    anchors = sorted({a for p in PROPERTIES for a in ANCHORS.get(p, [])})
    muts = list(generate(sources, anchors))
    with ProcessPoolExecutor(max_workers=jobs) as ex:
        res = list(ex.map(_verdict_all, [(m[3], root, PROPERTIES) for m in muts], chunksize=4))
    rows = []
    for (module, path, desc, _s), r in zip(muts, res):
        by = []
        for pid in PROPERTIES:
            v, e = r[pid]
            bv = {tuple(x) for x in base[pid][0]}
            fresh = [x for x in v if tuple(x) not in bv]
            if fresh:
                by.append(pid)
            elif e:
                by.append(pid + '!')
        rows.append((module, path, desc, by) + ((_s,) if keep_sources else ()))
    return rows


if __name__ == '__main__' and sys.argv[1] == 'ALL':
    rows = sweep_all()
    surv = [r for r in rows if not r[3]]
    print('ALL: %d mutants, %d noticed by at least one check, %d survive' % (len(rows), len(rows) - len(surv), len(surv)))
    for r in rows:
        print('%s %s.%s: %s' % (','.join(r[3]) or 'SURVIVOR', r[0], r[1], r[2]))
