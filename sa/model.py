"""Program model of the analysed package: modules, classes, MRO, members."""
import ast
import hashlib
import os

from . import astutil as A


class AnalysisError(Exception):
    """The analysis itself cannot proceed (anchor vanished, undecidable shape,
    cross-check disagreement). Reported as ANALYSIS-ERROR, exit 2."""


PACKAGE = 'lazy_dataset'
MODULES = ['__init__', 'core', 'database', 'database_cli', 'parallel_utils']


class Member:
    __slots__ = ('name', 'kind', 'node', 'owner', 'value')

    def __init__(self, name, kind, node, owner, value=None):
        self.name = name      # member name
        self.kind = kind      # method | property | staticmethod | classmethod | attr
        self.node = node      # FunctionDef or Assign
        self.owner = owner    # ClassInfo
        self.value = value    # for attr: value expr

    @property
    def is_function(self):
        return isinstance(self.node, A.FUNC_TYPES)

    @property
    def is_generator(self):
        return self.is_function and A.contains_yield(self.node)

    @property
    def qualname(self):
        return '%s.%s.%s' % (self.owner.module.name, self.owner.name, self.name)

    def __repr__(self):
        return '<Member %s %s>' % (self.kind, self.qualname)


class ClassInfo:
    def __init__(self, module, node):
        self.module = module
        self.node = node
        self.name = node.name
        self.base_names = [A.dotted(b) for b in node.bases]
        self.members = {}
        self.bases = []   # resolved ClassInfo (package-internal)
        self.mro = []
        for st in node.body:
            if isinstance(st, A.FUNC_TYPES):
                kind = 'method'
                for d in st.decorator_list:
                    dn = A.dotted(d)
                    if dn in ('property', 'functools.cached_property', 'cached_property'):
                        kind = 'property'
                    elif dn == 'staticmethod':
                        kind = 'staticmethod'
                    elif dn == 'classmethod':
                        kind = 'classmethod'
                    elif dn and dn.endswith('.setter'):
                        kind = 'property-setter'
                if kind == 'property-setter':
                    continue
                self.members[st.name] = Member(st.name, kind, st, self)
            elif isinstance(st, ast.Assign):
                for t in st.targets:
                    if isinstance(t, ast.Name):
                        self.members[t.id] = Member(t.id, 'attr', st, self, st.value)
            elif isinstance(st, ast.AnnAssign) and isinstance(st.target, ast.Name) \
                    and st.value is not None:
                self.members[st.target.id] = Member(st.target.id, 'attr', st, self, st.value)

    @property
    def qualname(self):
        return '%s.%s' % (self.module.name, self.name)

    def resolve(self, name):
        for c in self.mro:
            if name in c.members:
                return c.members[name]
        return None

    def own(self, name):
        return self.members.get(name)

    def is_subclass_of(self, other):
        return other in self.mro

    def __repr__(self):
        return '<Class %s>' % self.qualname


class ModuleInfo:
    def __init__(self, name, path, source, normalise=True):
        self.name = name
        self.path = path
        self.source = source
        self.sha256 = hashlib.sha256(source.encode()).hexdigest()
        self.tree = ast.parse(source, filename=path)
        self.normalisation = {}
        if normalise:
            from .normalise import normalise as _norm
            self.normalisation = _norm(self.tree)
        self.tree = A.set_parents(self.tree)
        self.nodes = sum(1 for _ in ast.walk(self.tree))
        self.lines = source.count('\n') + 1
        self.imports = {}     # local name -> dotted target
        self.functions = {}   # top-level name -> FunctionDef
        self.classes = {}     # name -> ClassInfo
        self.constants = {}   # top-level name -> value expr
        for n in ast.walk(self.tree):
            if isinstance(n, ast.Import):
                for a in n.names:
                    self.imports[a.asname or a.name.split('.')[0]] = \
                        a.name if a.asname else a.name.split('.')[0]
            elif isinstance(n, ast.ImportFrom):
                mod = ('.' * n.level) + (n.module or '')
                for a in n.names:
                    self.imports[a.asname or a.name] = (mod + '.' + a.name).lstrip('.') \
                        if not mod.startswith('.') else mod + ('.' if mod.strip('.') else '') + a.name
        for st in self.tree.body:
            if isinstance(st, A.FUNC_TYPES):
                self.functions[st.name] = st
            elif isinstance(st, ast.ClassDef):
                self.classes[st.name] = ClassInfo(self, st)
            elif isinstance(st, ast.Assign):
                for t in st.targets:
                    if isinstance(t, ast.Name):
                        self.constants[t.id] = st.value

    def resolve_name(self, dotted_name):
        """expand the first component through the import table"""
        if dotted_name is None:
            return None
        head, _, rest = dotted_name.partition('.')
        if head in self.imports:
            full = self.imports[head]
            return full + ('.' + rest if rest else '')
        return dotted_name


def _c3(cls, seen=()):
    if cls in seen:
        raise AnalysisError('inheritance cycle at %s' % cls.qualname)
    seqs = [list(_c3(b, seen + (cls,))) for b in cls.bases] + [list(cls.bases)]
    res = [cls]
    while True:
        seqs = [s for s in seqs if s]
        if not seqs:
            return res
        for s in seqs:
            cand = s[0]
            if not any(cand in t[1:] for t in seqs):
                break
        else:
            raise AnalysisError('inconsistent MRO for %s' % cls.qualname)
        res.append(cand)
        for s in seqs:
            if s[0] is cand:
                del s[0]


def read_sources(root):
    pkg = os.path.join(root, PACKAGE)
    if not os.path.isdir(pkg):
        raise AnalysisError('package directory %s missing' % pkg)
    out = {}
    for f in sorted(os.listdir(pkg)):
        if f.endswith('.py'):
            with open(os.path.join(pkg, f), encoding='utf-8') as fh:
                out[f[:-3]] = fh.read()
    return out


class Repo:
    def __init__(self, root='/repo', sources=None, normalise=True):
        """`sources` (module name -> text) overrides what is on disk: used by the in-memory
        mutation / variant controls; everything else reads the working tree."""
        self.root = root
        self.modules = {}
        pkg = os.path.join(root, PACKAGE)
        self.sources = dict(read_sources(root) if sources is None else sources)
        found = sorted(self.sources)
        for m in MODULES:
            if m not in found:
                raise AnalysisError('module %s.%s vanished' % (PACKAGE, m))
        for m in found:
            path = os.path.join(pkg, m + '.py')
            text = self.sources[m]
            try:
                self.modules[m] = ModuleInfo(m, path, text, normalise)
            except SyntaxError as e:
                raise AnalysisError('syntax error in %s: %s' % (path, e))
        # resolve bases inside the package
        self.classes = {}
        for m in self.modules.values():
            for c in m.classes.values():
                self.classes[c.qualname] = c
        for c in self.classes.values():
            for bn in c.base_names:
                b = self._lookup_class(c.module, bn)
                if b is not None:
                    c.bases.append(b)
        for c in self.classes.values():
            c.mro = _c3(c)

    # ------------------------------------------------------------------
    def _lookup_class(self, module, name):
        if name is None:
            return None
        if name in module.classes:
            return module.classes[name]
        full = module.resolve_name(name)
        for pref in (PACKAGE + '.', '.', ''):
            if full.startswith(pref):
                rest = full[len(pref):]
                parts = rest.split('.')
                if len(parts) == 2 and parts[0] in self.modules \
                        and parts[1] in self.modules[parts[0]].classes:
                    return self.modules[parts[0]].classes[parts[1]]
        return None

    def module(self, name):
        if name not in self.modules:
            raise AnalysisError('module %s vanished' % name)
        return self.modules[name]

    def cls(self, qual):
        """'core.MapDataset'"""
        if qual not in self.classes:
            raise AnalysisError('anchor vanished: class %s' % qual)
        return self.classes[qual]

    def func(self, qual):
        """'parallel_utils.lazy_parallel_map' or 'core.Dataset.sort' -> FunctionDef"""
        parts = qual.split('.')
        m = self.module(parts[0])
        if len(parts) == 2:
            if parts[1] not in m.functions:
                raise AnalysisError('anchor vanished: function %s' % qual)
            return m.functions[parts[1]]
        c = self.cls(parts[0] + '.' + parts[1])
        mem = c.own(parts[2])
        if mem is None or not mem.is_function:
            raise AnalysisError('anchor vanished: method %s' % qual)
        return mem.node

    def dataset_base(self):
        return self.cls('core.Dataset')

    def dataset_family(self, include_base=False):
        base = self.dataset_base()
        out = [c for c in self.classes.values() if base in c.mro
               and (include_base or c is not base)]
        return sorted(out, key=lambda c: c.node.lineno if c.module.name == 'core'
                      else 10 ** 6 + c.node.lineno)

    def subclasses(self, cls, strict=True):
        return [c for c in self.classes.values() if cls in c.mro and (c is not cls or not strict)]

    def where(self, node, module=None):
        """file:line of an ast node"""
        if module is None:
            module = self.module_of(node)
        return '%s:%s' % (os.path.relpath(module.path, self.root) if module else '?',
                          getattr(node, '_src_line', getattr(node, 'lineno', '?')))

    def module_of(self, node):
        n = node
        while A.parent(n) is not None:
            n = A.parent(n)
        for m in self.modules.values():
            if m.tree is n:
                return m
        return None

    def qualname_of(self, node):
        """module.Class.func.inner for a def/lambda/any node inside"""
        parts = []
        n = node
        if isinstance(n, A.FUNC_TYPES + (ast.ClassDef,)):
            parts.append(n.name)
        elif isinstance(n, ast.Lambda):
            parts.append('<lambda>')
        for a in A.ancestors(node):
            if isinstance(a, A.FUNC_TYPES + (ast.ClassDef,)):
                parts.append(a.name)
            elif isinstance(a, ast.Lambda):
                parts.append('<lambda>')
        m = self.module_of(node)
        parts.append(m.name if m else '?')
        return '.'.join(reversed(parts))

    @staticmethod
    def is_new_private_helper(fn):
        """a private helper that does not exist on the pinned tree: its calls were inlined by the normaliser, so its
        body is analysed in the context of its callers, not on its own"""
        from .normalise import PINNED_PRIVATE
        n = getattr(fn, 'name', '')
        return n.startswith('_') and not n.startswith('__') and n not in PINNED_PRIVATE and getattr(fn, '_fully_inlined', False)

    def coverage(self):
        return [{'module': PACKAGE + '.' + m.name, 'path': m.path, 'sha256': m.sha256,
                 'lines': m.lines, 'ast_nodes': m.nodes, 'normalisation': m.normalisation,
                 'classes': len(m.classes), 'functions': len(m.functions)}
                for m in self.modules.values()]

    def all_functions(self):
        """every def and lambda in the package: (module, node)"""
        for m in self.modules.values():
            for n in ast.walk(m.tree):
                if isinstance(n, A.FUNC_TYPES + (ast.Lambda,)):
                    yield m, n
