"""In-memory controls: mutation controls (a rule must fire on a mutated tree) and
behaviour-preserving variants (all rules must stay silent). See DESIGN.md section 6."""
import ast

from .model import Repo, AnalysisError
from .report import Report


def run_rules_on(mod, sources, root, tier='quick'):
    from .cli import Ctx
    repo = Repo(root, sources=sources)
    rep = Report(mod.META['id'], tier, repo)
    ctx = Ctx(repo, rep, tier)
    mod.run(ctx)
    return rep


def rewrite(source, transformer):
    """apply an ast.NodeTransformer to module text; returns new text or None if the
    transformer reports that it changed nothing (attribute .hits == 0)"""
    tree = ast.parse(source)
    tree = transformer.visit(tree)
    if getattr(transformer, 'hits', 0) == 0:
        return None
    ast.fix_missing_locations(tree)
    return ast.unparse(tree)


def run_controls(pid, mod, ctx, tier):
    from .controls_table import CONTROLS as TABLE
    from . import mutate as M
    controls = list(getattr(mod, 'CONTROLS', [])) + list(TABLE.get(pid, []))
    if tier == 'thorough':
        for vname, vfn in (('reformat (ast.unparse round trip)', M.reformat), ('rename all locals', M.rename_locals),
                           ('a>=b -> not a<b', M.flip_comparisons), ('swap if/else arms', M.swap_if_else),
                           ('x+=y -> x=x+y', M.aug_to_assign)):
            controls.append({'name': 'variant: ' + vname, 'kind': 'variant', 'mutate': vfn, 'tier': 'thorough'})
    base_viol = {(o.rule, o.key) for o in ctx.report.violated()}
    for c in controls:
        if c.get('tier', 'quick') == 'thorough' and tier != 'thorough':
            continue
        sources = dict(ctx.repo.sources)
        try:
            new = c['mutate'](sources)
        except AnalysisError:
            raise
        if new is None:
            ctx.report.controls.append({'control': c['name'], 'applied': False,
                                        'detail': 'mutation target not found on this tree; control skipped'})
            continue
        try:
            rep = run_rules_on(mod, new, ctx.repo.root, 'quick')
            viol = {(o.rule, o.key) for o in rep.violated()}
            err = None
        except AnalysisError as e:
            viol = set()
            err = str(e)
        fresh = viol - base_viol
        if c.get('kind', 'mutant') == 'mutant':
            want = c.get('expect')
            hit = [k for k in fresh if want is None or want in k[0] + ' ' + k[1]]
            # an ANALYSIS-ERROR on the mutant also counts as "not silently passed"
            fired = bool(hit) or (err is not None and c.get('error_ok', False))
            ctx.report.controls.append({'control': c['name'], 'kind': 'mutant', 'applied': True,
                                        'fired': fired, 'reported': sorted('%s %s' % k for k in hit)[:4],
                                        'analysis_error': err})
            if not fired:
                raise AnalysisError('mutation control %r: the rule did not fire on the mutated tree '
                                    '(fresh violations: %s; error: %s)' % (c['name'], sorted(fresh)[:5], err))
        else:
            ctx.report.controls.append({'control': c['name'], 'kind': 'variant', 'applied': True,
                                        'silent': not fresh and err is None, 'analysis_error': err,
                                        'reported': sorted('%s %s' % k for k in fresh)[:4]})
            if fresh or err:
                raise AnalysisError('variant control %r: a behaviour-preserving rewrite changed the verdict '
                                    '(%s %s)' % (c['name'], sorted(fresh)[:5], err or ''))
