"""Source normalisation applied to every parsed module before any rule looks at it.

It undoes the three most common behaviour-preserving refactorings so that rules phrased over the idioms of the
pinned tree keep deciding refactored trees instead of raising alarms:

  1. extract-method: a call to a *new* private helper (a `_name` function / method / staticmethod of the package that
     does not exist on the pinned tree) is inlined at its call site when the helper is non-recursive, not a
     generator and every `return` in it is in tail position;
  2. local alias of an attribute chain that is assigned exactly once (`put = q.put`, `cache_dir = self._cache.cache.directory`)
     is substituted at its uses;
  3. `xs = []` immediately followed by `for t in it: xs.append(e)` is rewritten to `xs = [e for t in it]`.

The transformation is purely syntactic, works on a copy of the tree and keeps the line numbers of the moved nodes, so
reports still point at real source lines. Helper definitions stay in the tree (they are still analysed as members).
"""
import ast
import copy

from . import astutil as A

# private names that exist on the pinned tree: rules may anchor on them, they are never inlined
PINNED_PRIVATE = {
    '_BatchMapWrapper', '_CacheWrapper', '_DiskCacheWrapper', '_FilteredExample', '_ItemsNotDefined', '_append', '_c',
    '_dill_mp_helper', '_enumerate', '_get_dataset', '_get_memory_size', '_get_serialize_and_deserialize',
    '_merge_database_dicts', '_serialize', '_single_thread_prefetch', '_with_key_map_function', '_zip',
}

_counter = [0]


def _is_doc(st):
    return isinstance(st, ast.Expr) and isinstance(st.value, ast.Constant) and isinstance(st.value.value, str)


def _body(fn):
    b = list(fn.body)
    if b and _is_doc(b[0]):
        b = b[1:]
    return b


def _returns_in_tail(stmts):
    """every Return inside stmts is in tail position"""
    for i, st in enumerate(stmts):
        last = i == len(stmts) - 1
        if isinstance(st, ast.Return):
            if not last:
                return False
            continue
        has_ret = any(isinstance(x, ast.Return) for x in A.walk_stmts([st]))
        if not has_ret:
            continue
        if not last:
            # an early `if c: return x` followed by more code: allowed only as guard clause; handled by _tailify
            if isinstance(st, ast.If) and not st.orelse and _returns_in_tail(st.body):
                continue
            return False
        if isinstance(st, ast.If):
            if not (_returns_in_tail(st.body) and _returns_in_tail(st.orelse)):
                return False
        else:
            return False
    return True


def _guard_to_nested(stmts):
    """`if c: <returns>` ; rest   ->   if c: <returns> else: rest    (so that all returns are in tail position)"""
    out = []
    for i, st in enumerate(stmts):
        if isinstance(st, ast.If) and not st.orelse and i < len(stmts) - 1 and \
                any(isinstance(x, ast.Return) for x in A.walk_stmts(st.body)) and _ends_with_return(st.body):
            new = ast.If(test=st.test, body=_guard_to_nested(st.body), orelse=_guard_to_nested(stmts[i + 1:]))
            ast.copy_location(new, st)
            out.append(new)
            return out
        if isinstance(st, ast.If):
            new = ast.If(test=st.test, body=_guard_to_nested(st.body), orelse=_guard_to_nested(st.orelse))
            ast.copy_location(new, st)
            out.append(new)
        else:
            out.append(st)
    return out


def _ends_with_return(stmts):
    if not stmts:
        return False
    last = stmts[-1]
    if isinstance(last, (ast.Return, ast.Raise)):
        return True
    if isinstance(last, ast.If) and last.orelse:
        return _ends_with_return(last.body) and _ends_with_return(last.orelse)
    return False


def _replace_returns(stmts, make):
    """replace every tail `return e` by make(e) (list of statements)"""
    out = []
    for st in stmts:
        if isinstance(st, ast.Return):
            out.extend(make(st))
        elif isinstance(st, ast.If):
            new = ast.If(test=st.test, body=_replace_returns(st.body, make) or [ast.Pass()],
                         orelse=_replace_returns(st.orelse, make))
            ast.copy_location(new, st)
            out.append(new)
        else:
            out.append(st)
    return out


class _Subst(ast.NodeTransformer):
    def __init__(self, mapping, rename):
        self.mapping = mapping    # param name -> expr
        self.rename = rename      # local name -> new name

    def visit_Name(self, n):
        if n.id in self.mapping and isinstance(n.ctx, ast.Load):
            return ast.copy_location(A.clone(self.mapping[n.id]), n)
        if n.id in self.rename:
            return ast.copy_location(ast.Name(id=self.rename[n.id], ctx=n.ctx), n)
        return n

    def _inner(self, params, body_nodes):
        """substitute inside a nested scope: names bound there (its parameters) shadow the mapping"""
        shadow = set(params)
        sub = _Subst({k: v for k, v in self.mapping.items() if k not in shadow},
                     {k: v for k, v in self.rename.items() if k not in shadow})
        return [sub.visit(x) for x in body_nodes]

    def visit_FunctionDef(self, n):
        # the nested function is a binding of the enclosing scope (renamed like any local) and a closure over it
        if n.name in self.rename:
            n.name = self.rename[n.name]
        params = [a.arg for a in n.args.posonlyargs + n.args.args + n.args.kwonlyargs] + (
            [n.args.vararg.arg] if n.args.vararg else []) + ([n.args.kwarg.arg] if n.args.kwarg else [])
        local_stores = {x.id for s_ in n.body for x in ast.walk(s_) if isinstance(x, ast.Name) and isinstance(x.ctx, ast.Store)} - {
            t for s_ in n.body for x in ast.walk(s_) if isinstance(x, (ast.Nonlocal, ast.Global)) for t in x.names}
        n.body = self._inner(params + sorted(local_stores), n.body)
        n.args.defaults = [self.visit(d) for d in n.args.defaults]
        return n

    def visit_Lambda(self, n):
        params = [a.arg for a in n.args.posonlyargs + n.args.args + n.args.kwonlyargs]
        n.body = self._inner(params, [n.body])[0]
        return n


def _simple(e):
    return isinstance(e, (ast.Name, ast.Constant)) or (isinstance(e, ast.Attribute) and _simple(e.value)) or (
        isinstance(e, ast.Starred) and _simple(e.value))


def _as_expression(body):
    """a helper body that is only a chain of `if t: return a` ... `return z` (else arms allowed) as one expression
    `a if t else (... z)`; None if it is anything else"""
    if not body:
        return None
    st = body[0]
    if isinstance(st, ast.Return) and st.value is not None and len(body) == 1:
        return st.value
    if isinstance(st, ast.If) and len(st.body) == 1 and isinstance(st.body[0], ast.Return) and st.body[0].value is not None:
        rest = st.orelse if st.orelse else body[1:]
        if st.orelse and body[1:]:
            return None
        other = _as_expression(rest)
        if other is None:
            return None
        e = ast.IfExp(test=st.test, body=st.body[0].value, orelse=other)
        return ast.copy_location(e, st)
    return None


class Inliner:
    def __init__(self, tree):
        self.tree = tree
        self.helpers = {}      # name -> (FunctionDef, kind, class name or None)
        self.anywhere_returns = set()
        self.generators = set()      # private generator helpers: inlined only at `yield from helper(...)`
        for st in tree.body:
            if isinstance(st, A.FUNC_TYPES):
                self._cand(st, 'function', None)
            elif isinstance(st, ast.ClassDef):
                for m in st.body:
                    if isinstance(m, A.FUNC_TYPES):
                        kind = 'method'
                        for d in m.decorator_list:
                            if A.dotted(d) == 'staticmethod':
                                kind = 'staticmethod'
                            elif A.dotted(d) in ('classmethod', 'property'):
                                kind = None
                        if kind:
                            self._cand(m, kind, st.name)
        self.count = 0

    def _cand(self, fn, kind, cls):
        n = fn.name
        if not n.startswith('_') or n.startswith('__') or n in PINNED_PRIVATE:
            return
        if fn.args.vararg or fn.args.kwarg:
            return
        if A.contains_yield(fn):
            self.generators.add(n)
        if any(isinstance(x, A.FUNC_TYPES + (ast.Lambda,)) for x in A.walk_stmts(fn.body)
               if x is not fn) and False:
            return
        # non recursive
        if any(isinstance(x, ast.Call) and (A.dotted(x.func) or '').split('.')[-1] == n for x in ast.walk(fn)):
            return
        body = _guard_to_nested(_body(fn))
        if not _returns_in_tail(body):
            # still usable where the call is the whole value of a `return` statement: there the helper's returns
            # simply become the caller's returns, wherever they are
            body = _body(fn)
            self.anywhere_returns.add(n)
        if any(isinstance(x, (ast.Global, ast.Nonlocal)) for x in ast.walk(fn)):
            return
        # several classes may each have a private method of this name: kept per class, resolved at the call site
        self.helpers.setdefault(n, []).append((fn, kind, cls, body))

    def _match(self, call):
        """-> (helper entry, bound args mapping) or None"""
        if not isinstance(call, ast.Call):
            return None
        f = call.func
        name = None
        via_self = False
        if isinstance(f, ast.Name):
            name = f.id
        elif isinstance(f, ast.Attribute) and isinstance(f.value, ast.Name):
            name = f.attr
            via_self = True
        elif isinstance(f, ast.Attribute) and isinstance(f.value, ast.Attribute) and f.value.attr == '__class__':
            name = f.attr
            via_self = True
        cands = self.helpers.get(name) or []
        h = None
        if len(cands) == 1:
            h = cands[0]
        elif cands:
            cur = getattr(self, '_cur_cls', None)
            mine = [c_ for c_ in cands if c_[2] is not None and c_[2] == cur]
            h = mine[0] if len(mine) == 1 else None
        if not h:
            return None
        fn, kind, cls, body = h
        if kind == 'function' and via_self:
            return None
        if kind in ('method', 'staticmethod') and not via_self:
            return None
        params = [a.arg for a in fn.args.posonlyargs + fn.args.args]
        mapping = {}
        if kind == 'method':
            if not params:
                return None
            mapping[params[0]] = f.value
            params = params[1:]
        if any(isinstance(a, ast.Starred) for a in call.args) or any(k.arg is None for k in call.keywords):
            return None
        if len(call.args) > len(params):
            return None
        for p, a in zip(params, call.args):
            mapping[p] = a
        kwonly = [a.arg for a in fn.args.kwonlyargs]
        for k in call.keywords:
            if k.arg not in params + kwonly or k.arg in mapping:
                return None
            mapping[k.arg] = k.value
        # defaults
        nd = len(fn.args.defaults)
        allp = [a.arg for a in fn.args.posonlyargs + fn.args.args]
        for p, d in zip(allp[len(allp) - nd:], fn.args.defaults):
            mapping.setdefault(p, d)
        for a, d in zip(fn.args.kwonlyargs, fn.args.kw_defaults):
            if d is not None:
                mapping.setdefault(a.arg, d)
        if any(p not in mapping for p in params + kwonly):
            return None
        return h, mapping

    def _instantiate(self, h, mapping, caller_returns=False, rename_override=None, reuse=()):
        fn, kind, cls, body = h
        _counter[0] += 1
        tag = '__inl%d' % _counter[0]
        pre = []
        subst = {}
        for p, e in mapping.items():
            stored = any(isinstance(x, ast.Name) and x.id == p and isinstance(x.ctx, ast.Store) for x in ast.walk(fn))
            if _simple(e) and not stored:
                subst[p] = e
            else:
                tmp = p + tag
                if caller_returns and isinstance(e, ast.Call) and len(e.args) == 1 and isinstance(e.args[0], ast.Name) \
                        and not e.keywords and self._match(e) is not None:
                    # `return f(g(x))`: x is dead after the statement, so g's result may take its name (x = g(x))
                    tmp = e.args[0].id
                pre.append(ast.Assign(targets=[ast.Name(id=tmp, ctx=ast.Store())], value=A.clone(e)))
                subst[p] = ast.Name(id=tmp, ctx=ast.Load())
                if stored:
                    pass
        locals_ = {x.id for x in ast.walk(fn) if isinstance(x, ast.Name) and isinstance(x.ctx, ast.Store)}
        for n in ast.walk(fn):
            if isinstance(n, (ast.For, ast.comprehension)):
                locals_.update(A.name_targets(n.target))
        rename = {l: l + tag for l in locals_ if l not in mapping}
        if rename_override:
            rename.update({k: v for k, v in rename_override.items() if k in rename})
        # parameters that are re-assigned inside the helper become locals too
        for p in list(subst):
            if p in locals_:
                if (caller_returns or p in reuse) and isinstance(mapping[p], ast.Name):
                    # `return helper(x)`: the caller is done with x, the helper may rebind it in place
                    subst[p] = mapping[p]
                    rename[p] = mapping[p].id
                    pre[:] = [s_ for s_ in pre if not (isinstance(s_, ast.Assign) and A.is_name(s_.targets[0], p + tag))]
                    continue
                tmp = p + tag
                if not (pre and any(isinstance(s, ast.Assign) and A.is_name(s.targets[0], tmp) for s in pre)):
                    pre.append(ast.Assign(targets=[ast.Name(id=tmp, ctx=ast.Store())], value=A.clone(mapping[p])))
                subst[p] = ast.Name(id=tmp, ctx=ast.Load())
                rename[p] = tmp
        new_body = [_Subst(subst, rename).visit(A.clone(s)) for s in body]
        for s in pre:
            ast.copy_location(s, fn)
            ast.fix_missing_locations(s)
        return pre, new_body

    def _instantiate_named(self, h, mapping, names):
        """instantiate the helper body renaming the given locals (also nested defs / import aliases) to chosen names"""
        fn, kind, cls, body = h
        pre, new_body = self._instantiate(h, mapping, rename_override=names)
        # nested function definitions and import aliases are bindings too
        for s_ in new_body:
            for x in ast.walk(s_):
                if isinstance(x, A.FUNC_TYPES) and x.name in names:
                    x.name = names[x.name]
                if isinstance(x, (ast.Import, ast.ImportFrom)):
                    for al in x.names:
                        if (al.asname or al.name) in names and '.' not in (al.asname or al.name):
                            al.asname = names[al.asname or al.name]
        return pre, new_body

    # ---------------------------------------------------------------- statement level
    def _inline_stmt(self, st):
        """returns replacement list or None"""
        call = None
        mode = None
        yf = False
        if isinstance(st, ast.Expr) and isinstance(st.value, ast.YieldFrom) and isinstance(st.value.value, ast.Call):
            call, mode, yf = st.value.value, 'expr', True
        elif isinstance(st, ast.Assign) and len(st.targets) == 1 and isinstance(st.value, ast.YieldFrom) \
                and isinstance(st.value.value, ast.Call) and isinstance(st.targets[0], (ast.Name, ast.Attribute, ast.Tuple)):
            call, mode, yf = st.value.value, 'assign', True
        elif isinstance(st, ast.Expr) and isinstance(st.value, ast.Call):
            call, mode = st.value, 'expr'
        elif isinstance(st, ast.Return) and isinstance(st.value, ast.Call):
            call, mode = st.value, 'return'
        elif isinstance(st, ast.Assign) and len(st.targets) == 1 and isinstance(st.value, ast.Call) \
                and isinstance(st.targets[0], (ast.Name, ast.Attribute)):
            call, mode = st.value, 'assign'
        elif isinstance(st, ast.Assign) and len(st.targets) == 1 and isinstance(st.value, ast.Call) \
                and isinstance(st.targets[0], ast.Tuple) and all(isinstance(e, ast.Name) for e in st.targets[0].elts):
            # `a, b, c = helper(...)` where the helper ends in `return x, y, z` (its only return): the helper's locals
            # x, y, z simply become a, b, c
            m0 = self._match(st.value)
            if m0 is not None and m0[0][0].name not in self.anywhere_returns and m0[0][0].name not in self.generators:
                hb = m0[0][3]
                rets = [x for x in A.walk_stmts(hb) if isinstance(x, ast.Return)]
                tg = [e.id for e in st.targets[0].elts]
                if len(rets) == 1 and rets[0] is hb[-1] and isinstance(rets[0].value, ast.Tuple) \
                        and len(rets[0].value.elts) == len(tg) and all(isinstance(e, ast.Name) for e in rets[0].value.elts) \
                        and len({e.id for e in rets[0].value.elts}) == len(tg):
                    hfn = m0[0][0]
                    used_in_helper = {x.id for x in ast.walk(hfn) if isinstance(x, ast.Name)} | {
                        x.name for x in ast.walk(hfn) if isinstance(x, A.FUNC_TYPES + (ast.ClassDef,))} | {
                        al.asname or al.name for x in ast.walk(hfn) if isinstance(x, (ast.Import, ast.ImportFrom)) for al in x.names}
                    rn = {}
                    ok_ = True
                    for r_, t_ in zip(rets[0].value.elts, tg):
                        if t_ != r_.id and t_ in used_in_helper:
                            ok_ = False
                        rn[r_.id] = t_
                    if ok_ and not (set(rn) & set(m0[1])):
                        pre, body = self._instantiate_named(m0[0], m0[1], rn)
                        out = pre + body[:-1]
                        for s_ in out:
                            ast.fix_missing_locations(s_)
                        self.count += 1
                        return out or [ast.copy_location(ast.Pass(), st)]
        if call is None:
            return None
        m = self._match(call)
        if m is None:
            return None
        h, mapping = m
        if (h[0].name in self.generators) != yf:
            return None         # a generator helper is inlined exactly where it is delegated to with `yield from`
        if h[0].name in self.anywhere_returns and mode != 'return':
            return None
        reuse = ()
        if mode == 'assign' and isinstance(st.targets[0], ast.Name):
            # `x = helper(x)`: the helper may update its parameter in place of the caller's x
            reuse = tuple(p_ for p_, a_ in mapping.items() if isinstance(a_, ast.Name) and a_.id == st.targets[0].id)
        pre, body = self._instantiate(h, mapping, caller_returns=(mode == 'return'), reuse=reuse)
        if mode == 'return':
            out = pre + body
            if not _ends_with_return(out):
                r = ast.Return(value=None)
                out.append(ast.copy_location(r, st))
        elif mode == 'expr':
            out = pre + _replace_returns(body, lambda r: [ast.copy_location(ast.Expr(value=r.value), r)] if r.value is not None else [ast.copy_location(ast.Pass(), r)])
        else:
            tgt = st.targets[0]

            def mk(r):
                v = r.value if r.value is not None else ast.Constant(value=None)
                return [ast.copy_location(ast.Assign(targets=[A.clone(tgt)], value=v), r)]
            out = pre + _replace_returns(body, mk)
            if not _ends_with_return(body):
                out.append(ast.copy_location(ast.Assign(targets=[A.clone(tgt)], value=ast.Constant(value=None)), st))
                # keep order: default None first would be wrong; a helper falling off the end returns None
                out = pre + [out[-1]] + _replace_returns(body, mk) if False else out
        for s in out:
            ast.fix_missing_locations(s)
        self.count += 1
        return out or [ast.copy_location(ast.Pass(), st)]

    def _inline_exprs(self, node):
        """expression level: helper that is a single `return expr`"""
        inl = self

        class T(ast.NodeTransformer):
            def visit_Call(self, c):
                self.generic_visit(c)
                m = inl._match(c)
                if m is None:
                    return c
                h, mapping = m
                fn, kind, cls, body = h
                if fn.name in inl.anywhere_returns or fn.name in inl.generators:
                    return c
                expr = _as_expression(_body(fn))
                if expr is not None:
                    locals_ = {x.id for x in ast.walk(expr) if isinstance(x, ast.Name) and isinstance(x.ctx, ast.Store)}
                    if locals_ & set(mapping):
                        return c
                    inl.count += 1
                    return ast.copy_location(_Subst(mapping, {}).visit(A.clone(expr)), c)
                return c

            def visit_FunctionDef(self, n):
                return n
            visit_Lambda = visit_FunctionDef
        return T().visit(node)

    def _inline_search(self, st, nxt):
        """`x = helper(args)` + `if x is not None: BODY(always exits)` where the helper is a first-match search
        (`for v in it: if c: return e` / `return None`)  ->  `for v in it: if c: x = e; BODY`"""
        if not (isinstance(st, ast.Assign) and len(st.targets) == 1 and isinstance(st.targets[0], ast.Name)
                and isinstance(st.value, ast.Call) and isinstance(nxt, ast.If) and not nxt.orelse):
            return None
        x = st.targets[0].id
        t = nxt.test
        if not (isinstance(t, ast.Compare) and len(t.ops) == 1 and isinstance(t.ops[0], ast.IsNot) and A.is_name(t.left, x)
                and isinstance(t.comparators[0], (ast.Constant, ast.Name))):
            return None
        miss = t.comparators[0]        # what the helper answers when nothing matches: None or a module level marker
        last = nxt.body[-1] if nxt.body else None
        if not isinstance(last, (ast.Return, ast.Raise)):
            return None
        m = self._match(st.value)
        if m is None or m[0][0].name in self.generators:
            return None
        h, mapping = m
        body = _body(h[0])
        if not (1 <= len(body) <= 2 and isinstance(body[0], ast.For) and not body[0].orelse and len(body[0].body) == 1
                and isinstance(body[0].body[0], ast.If) and not body[0].body[0].orelse
                and len(body[0].body[0].body) == 1 and isinstance(body[0].body[0].body[0], ast.Return)
                and body[0].body[0].body[0].value is not None
                and (len(body) == 1 or isinstance(body[1], ast.Return))):
            return None
        ret_miss = body[1].value if len(body) == 2 else None
        if isinstance(miss, ast.Constant) and miss.value is None:
            if not (ret_miss is None or A.is_const(ret_miss, None)):
                return None
        elif not (isinstance(miss, ast.Name) and isinstance(ret_miss, ast.Name) and ret_miss.id == miss.id
                  and miss.id not in mapping and miss.id not in [a.arg for a in h[0].args.args]):
            return None
        saved = h[3]
        h2 = (h[0], h[1], h[2], body)
        pre, new_body = self._instantiate(h2, mapping)
        loop = new_body[0]
        hit = loop.body[0]
        found = hit.body[0].value
        if isinstance(found, ast.Name) and getattr(self, '_cur_fn', None) is not None and not any(
                isinstance(y, ast.Name) and y.id == x and isinstance(y.ctx, ast.Load)
                and not any(y is z for z in ast.walk(nxt)) and getattr(y, 'lineno', 0) > getattr(nxt, 'end_lineno', 0)
                for y in ast.walk(self._cur_fn)):
            # x is only read inside BODY: use the found object directly
            hit.body = [_AliasSubst({x: found}).visit(s_) for s_ in nxt.body]
        else:
            asg = ast.Assign(targets=[ast.Name(id=x, ctx=ast.Store())], value=found)
            ast.copy_location(asg, hit.body[0])
            hit.body = [asg] + nxt.body
        for s_ in pre + [loop]:
            ast.fix_missing_locations(s_)
        self.count += 1
        return pre + [loop]

    def run_block(self, stmts):
        out = []
        skip = False
        for k_, st in enumerate(stmts):
            if skip:
                skip = False
                continue
            if k_ + 1 < len(stmts):
                rs = self._inline_search(st, stmts[k_ + 1])
                if rs is not None:
                    out.extend(self.run_block(rs))
                    skip = True
                    continue
            rep = self._inline_stmt(st)
            if rep is not None:
                out.extend(self.run_block(rep))     # helpers calling helpers
                continue
            for field in ('body', 'orelse', 'finalbody'):
                blk = getattr(st, field, None)
                if isinstance(blk, list) and blk and isinstance(blk[0], ast.stmt) and not isinstance(st, A.FUNC_TYPES + (ast.ClassDef,)):
                    setattr(st, field, self.run_block(blk))
            if isinstance(st, ast.Try):
                for h in st.handlers:
                    h.body = self.run_block(h.body)
            if isinstance(st, A.FUNC_TYPES):
                prev_fn = getattr(self, '_cur_fn', None)
                self._cur_fn = st
                st.body = self.run_block(st.body)
                self._cur_fn = prev_fn
            elif isinstance(st, ast.ClassDef):
                prev_cls = getattr(self, '_cur_cls', None)
                self._cur_cls = st.name
                st.body = self.run_block(st.body)
                self._cur_cls = prev_cls
            else:
                # expression level inside this statement (not inside nested blocks, already done)
                for fname, val in list(ast.iter_fields(st)):
                    if isinstance(val, ast.expr):
                        setattr(st, fname, self._inline_exprs(val))
                    elif isinstance(val, list) and val and isinstance(val[0], ast.expr):
                        setattr(st, fname, [self._inline_exprs(v) for v in val])
            out.append(st)
        return out

    def run(self):
        if not self.helpers:
            return 0
        self.tree.body = self.run_block(self.tree.body)
        # a helper all of whose uses were inlined is analysed through its callers only
        for name, h in [(n_, c_) for n_, cs in self.helpers.items() for c_ in cs]:
            fn = h[0]
            left = [x for x in ast.walk(self.tree) if ((isinstance(x, ast.Name) and x.id == name) or (
                isinstance(x, ast.Attribute) and x.attr == name)) and not any(x is y for y in ast.walk(fn))]
            fn._fully_inlined = not left
        return self.count


# ---------------------------------------------------------------- local aliases of attribute chains
def _attr_chain(e):
    while isinstance(e, ast.Attribute):
        e = e.value
    return isinstance(e, ast.Name)


class _AliasSubst(ast.NodeTransformer):
    def __init__(self, defs):
        self.defs = defs

    def visit_Name(self, n):
        if isinstance(n.ctx, ast.Load) and n.id in self.defs:
            return ast.copy_location(A.clone(self.defs[n.id]), n)
        return n

    def visit_FunctionDef(self, n):
        # nested functions see the alias as a free variable: substitute there too (unless they rebind it)
        stores = {x.id for x in ast.walk(n) if isinstance(x, ast.Name) and isinstance(x.ctx, ast.Store)}
        params = {a.arg for a in n.args.posonlyargs + n.args.args + n.args.kwonlyargs}
        sub = _AliasSubst({k: v for k, v in self.defs.items() if k not in stores and k not in params})
        n.body = [sub.visit(s) for s in n.body]
        return n

    def visit_Lambda(self, n):
        return n


def inline_aliases(fn):
    """x = a.b.c (assigned once, a not rebound afterwards in fn) -> uses of x replaced by a.b.c"""
    stores = {}
    for n in ast.walk(fn):
        if isinstance(n, ast.Name) and isinstance(n.ctx, ast.Store):
            stores[n.id] = stores.get(n.id, 0) + 1
    for n in ast.walk(fn):
        if isinstance(n, (ast.For, ast.comprehension)):
            for t in A.name_targets(n.target):
                stores[t] = stores.get(t, 0) + 5
        if isinstance(n, (ast.AugAssign,)) and isinstance(n.target, ast.Name):
            stores[n.target.id] = stores.get(n.target.id, 0) + 5
        if isinstance(n, (ast.Nonlocal, ast.Global)):
            for t in n.names:
                stores[t] = stores.get(t, 0) + 5
    params = {a.arg for a in fn.args.posonlyargs + fn.args.args + fn.args.kwonlyargs}
    defs = {}
    for st in fn.body:
        if isinstance(st, ast.Assign) and len(st.targets) == 1 and isinstance(st.targets[0], ast.Name):
            name = st.targets[0].id
            v = st.value
            if stores.get(name) == 1 and name not in params and isinstance(v, ast.Attribute) and _attr_chain(v):
                root = v
                while isinstance(root, ast.Attribute):
                    root = root.value
                # the root must be stable: a parameter or a local assigned once
                if root.id in params or stores.get(root.id, 0) <= 1:
                    # only method-ish aliases and deep chains: a plain `self.x` alias may be a deliberate snapshot
                    if isinstance(v.value, ast.Attribute) or v.attr in ('put', 'get', 'get_nowait', 'put_nowait', 'qsize', 'empty',
                                                                         'append', 'pop', 'keys', 'shuffle', 'choice'):
                        defs[name] = v
            # `b = a`: a second name for a local that is itself bound exactly once (left over from helper inlining)
            if stores.get(name) == 1 and name not in params and isinstance(v, ast.Name) and v.id not in params \
                    and stores.get(v.id) == 1 and v.id != name:
                defs[name] = v
    if not defs:
        return 0
    sub = _AliasSubst(defs)
    new_body = []
    for st in fn.body:
        if isinstance(st, ast.Assign) and len(st.targets) == 1 and isinstance(st.targets[0], ast.Name) \
                and st.targets[0].id in defs:
            continue
        new_body.append(sub.visit(st))
    fn.body = new_body or [ast.Pass()]
    return len(defs)


# ---------------------------------------------------------------- loop-append -> comprehension
def _append_body(body, name, gens=None):
    """body of `for`: `name.append(e)` possibly below else-less `if c:` filters and nested `for` loops
    -> (e, ifs of the outermost generator, [further generators]) or None"""
    ifs = []
    more = []
    cur_ifs = ifs
    while len(body) == 1:
        st = body[0]
        if isinstance(st, ast.If) and not st.orelse:
            cur_ifs.append(st.test)
            body = st.body
        elif isinstance(st, ast.For) and not st.orelse:
            g = ast.comprehension(target=st.target, iter=st.iter, ifs=[], is_async=0)
            more.append(g)
            cur_ifs = g.ifs
            body = st.body
        else:
            break
    if len(body) == 1 and isinstance(body[0], ast.Expr) and isinstance(body[0].value, ast.Call) \
            and isinstance(body[0].value.func, ast.Attribute) and body[0].value.func.attr == 'append' \
            and A.is_name(body[0].value.func.value, name) and len(body[0].value.args) == 1 and not body[0].value.keywords \
            and not any(A.is_name(x, name) for x in ast.walk(body[0].value.args[0])) \
            and not any(A.is_name(x, name) for c in ifs for x in ast.walk(c)) \
            and not any(A.is_name(x, name) for g in more for x in ast.walk(g)):
        return body[0].value.args[0], ifs, more
    return None


def _dict_store_body(body, name):
    """`name[k] = v` below optional else-less filters -> (k, v, ifs) or None"""
    ifs = []
    while len(body) == 1 and isinstance(body[0], ast.If) and not body[0].orelse:
        ifs.append(body[0].test)
        body = body[0].body
    if len(body) == 1 and isinstance(body[0], ast.Assign) and len(body[0].targets) == 1 \
            and isinstance(body[0].targets[0], ast.Subscript) and A.is_name(body[0].targets[0].value, name) \
            and not any(A.is_name(x, name) for x in ast.walk(body[0].value)) \
            and not any(A.is_name(x, name) for x in ast.walk(body[0].targets[0].slice)) \
            and not any(A.is_name(x, name) for c in ifs for x in ast.walk(c)):
        return body[0].targets[0].slice, body[0].value, ifs
    return None


def sink_call_into_branches(fn):
    """`if a: f = X  elif b: f = Y  else: raise ...` ; `return f(args)`  ->  the call is made in every branch
    (`return X(args)` ...). f is bound only in that chain and read only by the following statement."""
    done = 0
    for blk in _block_lists(fn):
        i = 0
        while i < len(blk) - 1:
            st, nxt = blk[i], blk[i + 1]
            if isinstance(st, ast.If) and isinstance(nxt, (ast.Return, ast.Assign, ast.Expr)):
                arms = []
                cur = st
                ok = True
                while True:
                    arms.append((cur, 'body'))
                    if len(cur.orelse) == 1 and isinstance(cur.orelse[0], ast.If):
                        cur = cur.orelse[0]
                    else:
                        arms.append((cur, 'orelse'))
                        break
                names = set()
                for node, field in arms:
                    b_ = getattr(node, field)
                    if b_ and isinstance(b_[-1], ast.Raise):
                        continue
                    if len(b_) == 1 and isinstance(b_[0], ast.Assign) and len(b_[0].targets) == 1 \
                            and isinstance(b_[0].targets[0], ast.Name) and isinstance(b_[0].value, (ast.Name, ast.Attribute)):
                        names.add(b_[0].targets[0].id)
                    else:
                        ok = False
                if ok and len(names) == 1:
                    f = names.pop()
                    loads = [x for x in ast.walk(fn) if isinstance(x, ast.Name) and x.id == f and isinstance(x.ctx, ast.Load)]
                    stores = [x for x in ast.walk(fn) if isinstance(x, ast.Name) and x.id == f and isinstance(x.ctx, ast.Store)]
                    n_assign = sum(1 for node, field in arms if getattr(node, field) and not isinstance(getattr(node, field)[-1], ast.Raise))
                    callsite = [x for x in ast.walk(nxt) if isinstance(x, ast.Call) and A.is_name(x.func, f)]
                    if len(loads) == 1 and len(callsite) == 1 and len(stores) == n_assign:
                        for node, field in arms:
                            b_ = getattr(node, field)
                            if b_ and isinstance(b_[-1], ast.Raise):
                                continue
                            repl = _AliasSubst({f: b_[0].value}).visit(A.clone(nxt))
                            ast.copy_location(repl, b_[0])
                            for x in ast.walk(repl):
                                if hasattr(x, 'lineno'):
                                    x.lineno = b_[0].lineno
                            setattr(node, field, [repl])
                        del blk[i + 1]
                        done += 1
                        continue
            i += 1
    return done


def loops_to_comprehensions(block):
    out = []
    i = 0
    n = 0
    while i < len(block):
        st = block[i]
        nxt = block[i + 1] if i + 1 < len(block) else None
        if isinstance(st, ast.Assign) and len(st.targets) == 1 and isinstance(st.targets[0], ast.Name) and (
                (isinstance(st.value, ast.List) and not st.value.elts) or
                (isinstance(st.value, ast.Call) and A.dotted(st.value.func) == 'list' and not st.value.args)) \
                and isinstance(nxt, ast.For) and not nxt.orelse and _append_body(nxt.body, st.targets[0].id) is not None \
                and not any(A.is_name(x, st.targets[0].id) for x in ast.walk(nxt.iter)):
            elt_, ifs_, more_ = _append_body(nxt.body, st.targets[0].id)
            comp = ast.ListComp(elt=elt_,
                                generators=[ast.comprehension(target=nxt.target, iter=nxt.iter, ifs=ifs_, is_async=0)] + more_)
            new = ast.Assign(targets=st.targets, value=comp)
            ast.copy_location(new, nxt)
            ast.copy_location(comp, nxt)
            ast.fix_missing_locations(new)
            out.append(new)
            i += 2
            n += 1
            continue
        if isinstance(st, ast.Assign) and len(st.targets) == 1 and isinstance(st.targets[0], ast.Name) and (
                (isinstance(st.value, ast.Dict) and not st.value.keys) or
                (isinstance(st.value, ast.Call) and A.dotted(st.value.func) == 'dict' and not st.value.args and not st.value.keywords)) \
                and isinstance(nxt, ast.For) and not nxt.orelse and _dict_store_body(nxt.body, st.targets[0].id) is not None \
                and not any(A.is_name(x, st.targets[0].id) for x in ast.walk(nxt.iter)):
            k_, v_, ifs_ = _dict_store_body(nxt.body, st.targets[0].id)
            comp = ast.DictComp(key=k_, value=v_,
                                generators=[ast.comprehension(target=nxt.target, iter=nxt.iter, ifs=ifs_, is_async=0)])
            new = ast.Assign(targets=st.targets, value=comp)
            ast.copy_location(new, nxt)
            ast.copy_location(comp, nxt)
            ast.fix_missing_locations(new)
            out.append(new)
            i += 2
            n += 1
            continue
        for field in ('body', 'orelse', 'finalbody'):
            blk = getattr(st, field, None)
            if isinstance(blk, list) and blk and isinstance(blk[0], ast.stmt):
                nb, k = loops_to_comprehensions(blk)
                setattr(st, field, nb)
                n += k
        if isinstance(st, ast.Try):
            for h in st.handlers:
                h.body, k = loops_to_comprehensions(h.body)
                n += k
        out.append(st)
        i += 1
    return out, n


# ---------------------------------------------------------------- single-use locals ("inline variable")
def _block_lists(fn):
    """all statement lists inside fn (not descending into nested functions / classes)"""
    out = [fn.body]
    stack = list(fn.body)
    while stack:
        st = stack.pop()
        if isinstance(st, A.FUNC_TYPES + (ast.ClassDef,)):
            continue
        for field in ('body', 'orelse', 'finalbody'):
            blk = getattr(st, field, None)
            if isinstance(blk, list) and blk and isinstance(blk[0], ast.stmt):
                out.append(blk)
                stack.extend(blk)
        if isinstance(st, ast.Try):
            for h in st.handlers:
                out.append(h.body)
                stack.extend(h.body)
    return out


def _use_path_ok(stmt, name):
    """the single Load of `name` inside `stmt` is evaluated exactly once when `stmt` runs: it is not in a loop body,
    a comprehension element, a lambda, a nested def or a nested block of a compound statement. The iterable of a
    `for` header and of the first generator of a comprehension are evaluated once and are fine."""
    def find(node, blocked):
        for f, v in ast.iter_fields(node):
            vals = v if isinstance(v, list) else [v]
            for x in vals:
                if not isinstance(x, ast.AST):
                    continue
                if isinstance(x, ast.Name) and x.id == name and isinstance(x.ctx, ast.Load):
                    return not blocked
                b2 = blocked
                if isinstance(node, (ast.ListComp, ast.SetComp, ast.DictComp, ast.GeneratorExp)):
                    # only generators[0].iter is evaluated once
                    if not (isinstance(x, ast.comprehension) and x is node.generators[0]):
                        b2 = True
                elif isinstance(node, ast.comprehension):
                    if x is not node.iter:
                        b2 = True
                elif isinstance(node, (ast.For, ast.AsyncFor)):
                    if x is not node.iter:
                        b2 = True
                elif isinstance(node, (ast.While, ast.Lambda, ast.FunctionDef, ast.AsyncFunctionDef, ast.Try, ast.With, ast.ClassDef)):
                    b2 = True
                elif isinstance(node, ast.If) and isinstance(x, ast.stmt):
                    b2 = True
                r = find(x, b2)
                if r is not None:
                    return r
        return None
    if isinstance(stmt, (ast.While, ast.Try, ast.With, ast.FunctionDef, ast.AsyncFunctionDef, ast.ClassDef)):
        return False
    return find(stmt, False) is True


def adjacent_pairs_only(fn, name):
    """every store of `name` in fn is a plain `name = expr` statement whose next statement in the same block is a
    `return` holding the only load until the next store (so each def/use pair is independent of the others)"""
    pairs = 0
    for blk in _block_lists(fn):
        for i, st in enumerate(blk):
            if isinstance(st, ast.Assign) and len(st.targets) == 1 and A.is_name(st.targets[0], name):
                if i + 1 >= len(blk) or not _use_path_ok(blk[i + 1], name):
                    return False
                if sum(1 for x in ast.walk(blk[i + 1]) if isinstance(x, ast.Name) and x.id == name) != 1:
                    return False
                if any(isinstance(x, ast.Name) and x.id == name for x in ast.walk(st.value)):
                    return False
                pairs += 1
    total_stores = sum(1 for x in ast.walk(fn) if isinstance(x, ast.Name) and x.id == name and isinstance(x.ctx, ast.Store))
    total_loads = sum(1 for x in ast.walk(fn) if isinstance(x, ast.Name) and x.id == name and isinstance(x.ctx, ast.Load))
    return pairs == total_stores == total_loads


def inline_single_use_locals(fn):
    """`x = <expr>` followed, in the same block, by the only use of x -> the use is replaced by <expr>.
    Undoes "introduce explaining variable" so that one shape covers both spellings."""
    total = 0
    for _round in range(4):
        loads, stores = {}, {}
        for n in ast.walk(fn):
            if isinstance(n, ast.Name):
                d = loads if isinstance(n.ctx, ast.Load) else stores
                d[n.id] = d.get(n.id, 0) + 1
            elif isinstance(n, (ast.Nonlocal, ast.Global)):
                for t in n.names:
                    stores[t] = stores.get(t, 0) + 9
        params = {a.arg for a in fn.args.posonlyargs + fn.args.args + fn.args.kwonlyargs}
        done = 0
        for blk in _block_lists(fn):
            i = 0
            while i < len(blk) - 1:
                st = blk[i]
                if isinstance(st, ast.Assign) and len(st.targets) == 1 and isinstance(st.targets[0], ast.Name):
                    name = st.targets[0].id
                    nxt_loads = sum(1 for x in ast.walk(blk[i + 1]) if isinstance(x, ast.Name) and x.id == name
                                    and isinstance(x.ctx, ast.Load))
                    nxt_stores = sum(1 for x in ast.walk(blk[i + 1]) if isinstance(x, ast.Name) and x.id == name
                                     and isinstance(x.ctx, ast.Store))
                    if stores.get(name, 0) > 1 and stores.get(name) == loads.get(name) and name not in params \
                            and nxt_loads == 1 and nxt_stores == 0 \
                            and adjacent_pairs_only(fn, name) \
                            and not any(isinstance(x, (ast.Yield, ast.YieldFrom, ast.Await, ast.NamedExpr)) for x in ast.walk(st.value)):
                        # a temporary that is defined several times, each time returned by the very next statement
                        blk[i + 1] = _AliasSubst({name: st.value}).visit(blk[i + 1])
                        del blk[i]
                        done += 1
                        stores[name] -= 1
                        loads[name] -= 1
                        continue
                    if stores.get(name) == 1 and loads.get(name) == 1 and name not in params \
                            and not any(isinstance(x, (ast.Yield, ast.YieldFrom, ast.Await, ast.NamedExpr)) for x in ast.walk(st.value)):
                        # the (only) use in a later statement of the same block; the statements in between must not
                        # rebind anything the defining expression reads
                        reads = {x.id for x in ast.walk(st.value) if isinstance(x, ast.Name)}
                        # moving the evaluation over other statements is only done for expressions whose value cannot
                        # depend on what those statements do: a snapshot of mutable state (`n = q.qsize()`) stays where it is
                        state_reading = any(isinstance(x, (ast.Call, ast.Attribute, ast.Subscript)) for x in ast.walk(st.value))
                        j = i + 1
                        while j < len(blk) and not any(isinstance(x, ast.Name) and x.id == name for x in ast.walk(blk[j])):
                            writes = {x.id for x in ast.walk(blk[j]) if isinstance(x, ast.Name) and isinstance(x.ctx, ast.Store)}
                            effects = state_reading and any(
                                isinstance(x, (ast.Call, ast.AugAssign, ast.Delete, ast.Yield, ast.YieldFrom, ast.Await))
                                or (isinstance(x, (ast.Attribute, ast.Subscript)) and isinstance(x.ctx, ast.Store))
                                for x in ast.walk(blk[j]))
                            if effects or writes & reads or isinstance(blk[j], (ast.For, ast.While, ast.Try, ast.With, ast.If)) and j - i > 3:
                                j = len(blk)
                                break
                            j += 1
                        if j < len(blk) and _use_path_ok(blk[j], name):
                            blk[j] = _AliasSubst({name: st.value}).visit(blk[j])
                            del blk[i]
                            done += 1
                            loads[name] = 0
                            continue
                i += 1
        total += done
        if not done:
            break
    return total


# nested functions of the pinned tree: rules bind roles to them, they are never inlined
PINNED_NESTED = {'PoolExecutor', '_enumerate', '_serialize', 'catcher', 'function', 'get_files', 'group_break', 'read_text',
                 'result', 'submit', 'terminate', 'worker'}


def inline_nested_closures(fn):
    """a *new* nested closure `def name(p...): return <expr>` that is only ever called (never passed around) is
    substituted at its call sites: closures read their free variables at call time, so evaluating <expr> at the call
    site is the same computation. The definition is removed."""
    done = 0
    for blk in _block_lists(fn):
        for d in [x for x in blk if isinstance(x, ast.FunctionDef)]:
            if d.name in PINNED_NESTED or d.decorator_list or d.args.vararg or d.args.kwarg or d.args.kwonlyargs \
                    or d.args.defaults or A.contains_yield(d):
                continue
            body = _body(d)
            if len(body) != 1 or not isinstance(body[0], ast.Return) or body[0].value is None:
                continue
            binds = [x for x in ast.walk(fn) if (isinstance(x, ast.FunctionDef) and x.name == d.name)
                     or (isinstance(x, ast.Name) and x.id == d.name and isinstance(x.ctx, (ast.Store, ast.Del)))]
            scope = fn
            if len(binds) != 1:
                # several definitions of the name: fine when this one and everything that uses the name after it live in
                # one arm of an `if` whose other arm has its own definition (after loop unswitching)
                owner = [n_ for n_ in ast.walk(fn) if isinstance(n_, ast.If) and (blk is n_.body or blk is n_.orelse)]
                in_blk = [x for x in binds if any(x is y for s_ in blk for y in ast.walk(s_))]
                outside_loads = [x for x in ast.walk(fn) if isinstance(x, ast.Name) and x.id == d.name and isinstance(x.ctx, ast.Load)
                                 and not any(x is y for n_ in owner for y in ast.walk(n_))]
                if not owner or len(in_blk) != 1 or outside_loads or blk[0] is not d and not isinstance(blk[0], (ast.Assign, ast.FunctionDef)):
                    continue
                scope = ast.Module(body=blk, type_ignores=[])
            params = [a.arg for a in d.args.posonlyargs + d.args.args]
            uses = [x for x in ast.walk(scope) if isinstance(x, ast.Name) and x.id == d.name and isinstance(x.ctx, ast.Load)
                    and not any(x is y for y in ast.walk(d))]
            calls = [x for x in ast.walk(scope) if isinstance(x, ast.Call) and isinstance(x.func, ast.Name) and x.func.id == d.name
                     and not any(x is y for y in ast.walk(d))]
            if not calls or len(calls) != len(uses):
                continue
            if any(len(c.args) != len(params) or c.keywords or any(isinstance(a, ast.Starred) for a in c.args) for c in calls):
                continue
            expr = body[0].value
            nuse = {p_: sum(1 for x in ast.walk(expr) if isinstance(x, ast.Name) and x.id == p_) for p_ in params}
            if any(not _simple(a) and nuse[p_] != 1 for c in calls for p_, a in zip(params, c.args)):
                continue
            if any(isinstance(x, ast.Name) and isinstance(x.ctx, ast.Store) for x in ast.walk(expr)):
                continue

            class T(ast.NodeTransformer):
                def visit_Call(self, c):
                    self.generic_visit(c)
                    if isinstance(c.func, ast.Name) and c.func.id == d.name and any(c is y for y in calls):
                        return ast.copy_location(_Subst(dict(zip(params, c.args)), {}).visit(A.clone(expr)), c)
                    return c
            for i_, st in enumerate(blk):
                if st is not d:
                    blk[i_] = T().visit(st)
            # call sites in other blocks of the function
            for other in _block_lists(fn):
                if other is not blk:
                    for i_, st in enumerate(other):
                        other[i_] = T().visit(st)
            blk.remove(d)
            if not blk:
                blk.append(ast.copy_location(ast.Pass(), d))
            done += 1
    return done


def expand_nested_def_aliases(fn):
    """`name = shared` where `shared` is a nested function defined once in fn (a callback shared between branches) is
    replaced by a copy of the definition under the name `name`; a shared definition that is only used this way is
    removed. Restores "each branch defines its own callbacks"."""
    done = 0
    nested = {}
    for blk in _block_lists(fn):
        for d in blk:
            if isinstance(d, ast.FunctionDef):
                nested.setdefault(d.name, []).append((d, blk))
    for name, defs in nested.items():
        if len(defs) != 1 or name in PINNED_NESTED:
            continue
        d, dblk = defs[0]
        if any(isinstance(x, ast.Name) and x.id == name and isinstance(x.ctx, ast.Store) for x in ast.walk(fn)):
            continue
        loads = [x for x in ast.walk(fn) if isinstance(x, ast.Name) and x.id == name and isinstance(x.ctx, ast.Load)
                 and not any(x is y for y in ast.walk(d))]
        alias_sites = []
        for blk in _block_lists(fn):
            for i_, st in enumerate(blk):
                if isinstance(st, ast.Assign) and len(st.targets) == 1 and isinstance(st.targets[0], ast.Name) \
                        and isinstance(st.value, ast.Name) and st.value.id == name:
                    alias_sites.append((blk, i_, st))
        if not alias_sites or len(alias_sites) != len(loads):
            continue
        for blk, i_, st in alias_sites:
            new = A.clone(d)
            new.name = st.targets[0].id
            ast.copy_location(new, st)
            for x in ast.walk(new):
                if hasattr(x, 'lineno'):
                    x.lineno = st.lineno
                    x.end_lineno = st.lineno
            blk[blk.index(st)] = new
            done += 1
        dblk.remove(d)
        if not dblk:
            dblk.append(ast.copy_location(ast.Pass(), d))
    return done


def inline_nested_procedures(fn):
    """a *new* nested function without parameters and without `return <value>` that is called exactly once, as a
    statement, in the function that defines it: the body is placed at the call (its `nonlocal` declarations name
    variables of this very function and are dropped)."""
    done = 0
    for blk in _block_lists(fn):
        for d in [x for x in blk if isinstance(x, ast.FunctionDef)]:
            if d.name in PINNED_NESTED or d.decorator_list or d.args.posonlyargs or d.args.vararg \
                    or d.args.kwarg or d.args.kwonlyargs or d.args.defaults or A.contains_yield(d):
                continue
            pparams = [a.arg for a in d.args.args]
            if any(isinstance(x, ast.Name) and x.id in pparams and isinstance(x.ctx, ast.Store) for x in ast.walk(d)):
                continue
            if any(isinstance(x, ast.Return) for x in A.walk_stmts(d.body)):
                continue
            if any(isinstance(x, A.FUNC_TYPES + (ast.Lambda, ast.ClassDef)) for x in A.walk_stmts(d.body)):
                continue
            loads = [x for x in ast.walk(fn) if isinstance(x, ast.Name) and x.id == d.name and not any(x is y for y in ast.walk(d))]
            if len(loads) != 1:
                continue
            # the name must have this one definition only (callbacks defined per branch are NOT procedures to inline)
            if len([x for x in ast.walk(fn) if isinstance(x, ast.FunctionDef) and x.name == d.name]) != 1:
                continue
            site = None
            for b2 in _block_lists(fn):
                for st in b2:
                    if isinstance(st, ast.Expr) and isinstance(st.value, ast.Call) and st.value.func is loads[0] \
                            and len(st.value.args) == len(pparams) and all(_simple(a) and not isinstance(a, ast.Starred) for a in st.value.args) \
                            and not st.value.keywords:
                        site = (b2, st)
            if site is None:
                continue
            # names the procedure binds locally (not nonlocal) would become locals of fn: only allowed if fn does not
            # use them otherwise
            nonlocals = {n_ for x in d.body if isinstance(x, ast.Nonlocal) for n_ in x.names}
            own = {x.id for x in ast.walk(d) if isinstance(x, ast.Name) and isinstance(x.ctx, ast.Store)} - nonlocals
            outer = {x.id for x in ast.walk(fn) if isinstance(x, ast.Name) and not any(x is y for y in ast.walk(d))}
            if own & outer:
                continue
            b2_, st_ = site
            pmap = dict(zip(pparams, st_.value.args))
            body = [_Subst(pmap, {}).visit(A.clone(x)) if pmap else A.clone(x) for x in _body(d) if not isinstance(x, (ast.Nonlocal, ast.Global))]
            if not body:
                body = [ast.copy_location(ast.Pass(), d)]
            b2, st = site
            k = b2.index(st)
            b2[k:k + 1] = body
            blk.remove(d)
            if not blk:
                blk.append(ast.copy_location(ast.Pass(), d))
            done += 1
    return done


def suppress_to_try(tree):
    """`with contextlib.suppress(E...): body`  ->  `try: body / except (E...): pass` (same control flow)"""
    done = 0

    class T(ast.NodeTransformer):
        def visit_With(self, n):
            nonlocal done
            self.generic_visit(n)
            if len(n.items) == 1 and n.items[0].optional_vars is None and isinstance(n.items[0].context_expr, ast.Call) \
                    and (A.dotted(n.items[0].context_expr.func) or '').split('.')[-1] == 'suppress' \
                    and n.items[0].context_expr.args and not n.items[0].context_expr.keywords:
                args = n.items[0].context_expr.args
                typ = args[0] if len(args) == 1 else ast.Tuple(elts=list(args), ctx=ast.Load())
                h = ast.ExceptHandler(type=typ, name=None, body=[ast.copy_location(ast.Pass(), n)])
                ast.copy_location(h, n)
                new = ast.Try(body=n.body, handlers=[h], orelse=[], finalbody=[])
                done += 1
                return ast.copy_location(new, n)
            return n
    T().visit(tree)
    return done


def flatten_else_after_exit(tree):
    """canonical form: `if c: A else: B` with A always leaving (return / raise / continue / break on every path) becomes
    `if c: A` followed by B. Both spellings then look the same to every rule."""
    done = 0

    def exits(stmts):
        if not stmts:
            return False
        last = stmts[-1]
        if isinstance(last, (ast.Return, ast.Raise, ast.Break)):
            return True
        if isinstance(last, ast.If) and last.orelse:
            return exits(last.body) and exits(last.orelse)
        return False

    def fix(blk):
        nonlocal done
        out = []
        for st in blk:
            for field in ('body', 'orelse', 'finalbody'):
                b_ = getattr(st, field, None)
                if isinstance(b_, list) and b_ and isinstance(b_[0], ast.stmt):
                    setattr(st, field, fix(b_))
            if isinstance(st, ast.Try):
                for h in st.handlers:
                    h.body = fix(h.body)
            if isinstance(st, ast.If) and st.orelse and exits(st.body):
                rest = st.orelse
                st.orelse = []
                out.append(st)
                out.extend(rest)
                done += 1
            else:
                out.append(st)
        return out
    tree.body = fix(tree.body)
    return done


def fold_constant_ifs(tree):
    """after a helper with a flag parameter was inlined its tests are constants: `if True: A else: B` -> A"""
    done = 0

    def const_truth(t):
        if isinstance(t, ast.Constant):
            return bool(t.value)
        if isinstance(t, ast.UnaryOp) and isinstance(t.op, ast.Not):
            r = const_truth(t.operand)
            return None if r is None else not r
        if isinstance(t, ast.Compare) and len(t.ops) == 1 and isinstance(t.left, ast.Constant) and isinstance(t.comparators[0], ast.Constant):
            l_, r_ = t.left.value, t.comparators[0].value
            if isinstance(t.ops[0], (ast.Is, ast.Eq)) and (l_ is None or r_ is None or isinstance(l_, bool) or isinstance(r_, bool)):
                return l_ is r_
            if isinstance(t.ops[0], (ast.IsNot, ast.NotEq)) and (l_ is None or r_ is None or isinstance(l_, bool) or isinstance(r_, bool)):
                return l_ is not r_
        return None

    def fix(blk):
        nonlocal done
        out = []
        for st in blk:
            for field in ('body', 'orelse', 'finalbody'):
                b_ = getattr(st, field, None)
                if isinstance(b_, list) and b_ and isinstance(b_[0], ast.stmt):
                    setattr(st, field, fix(b_) or [ast.copy_location(ast.Pass(), st)])
            if isinstance(st, ast.Try):
                for h in st.handlers:
                    h.body = fix(h.body) or [ast.copy_location(ast.Pass(), st)]
            if isinstance(st, ast.If):
                r = const_truth(st.test)
                if r is not None:
                    out.extend(st.body if r else st.orelse)
                    done += 1
                    continue
            out.append(st)
        return out
    tree.body = fix(tree.body)
    return done


def self_ifexp_to_if(tree):
    """`t = a if c else t` -> `if c: t = a`;  `t = t if c else b` -> `if not c: t = b`  (t a plain name)"""
    done = 0

    def fix(blk):
        nonlocal done
        out = []
        for st in blk:
            for field in ('body', 'orelse', 'finalbody'):
                b_ = getattr(st, field, None)
                if isinstance(b_, list) and b_ and isinstance(b_[0], ast.stmt):
                    setattr(st, field, fix(b_))
            if isinstance(st, ast.Try):
                for h in st.handlers:
                    h.body = fix(h.body)
            if isinstance(st, ast.Assign) and len(st.targets) == 1 and isinstance(st.targets[0], ast.Name) \
                    and isinstance(st.value, ast.IfExp):
                t = st.targets[0].id
                v = st.value
                new = None
                if A.is_name(v.orelse, t) and not A.is_name(v.body, t):
                    new = ast.If(test=v.test, body=[ast.Assign(targets=st.targets, value=v.body)], orelse=[])
                elif A.is_name(v.body, t) and not A.is_name(v.orelse, t):
                    new = ast.If(test=ast.UnaryOp(op=ast.Not(), operand=v.test),
                                 body=[ast.Assign(targets=st.targets, value=v.orelse)], orelse=[])
                if new is not None:
                    ast.copy_location(new, st)
                    ast.copy_location(new.body[0], st)
                    ast.fix_missing_locations(new)
                    out.append(new)
                    done += 1
                    continue
            out.append(st)
        return out
    for fn in [n for n in ast.walk(tree) if isinstance(n, A.FUNC_TYPES)]:
        fn.body = fix(fn.body)
    return done


def inline_partials(fn):
    """`g = functools.partial(f, a, b)` (positional simple arguments only, g bound once and only ever called) ->
    every `g(x...)` becomes `f(a, b, x...)`; the binding is removed"""
    done = 0
    for blk in _block_lists(fn):
        for st in list(blk):
            if not (isinstance(st, ast.Assign) and len(st.targets) == 1 and isinstance(st.targets[0], ast.Name)
                    and isinstance(st.value, ast.Call) and (A.dotted(st.value.func) or '').split('.')[-1] == 'partial'
                    and st.value.args and all(k.arg is not None and _simple(k.value) for k in st.value.keywords)
                    and all(_simple(a) for a in st.value.args)
                    and not any(isinstance(a, ast.Starred) for a in st.value.args)):
                continue
            g = st.targets[0].id
            stores = [x for x in ast.walk(fn) if isinstance(x, ast.Name) and x.id == g and isinstance(x.ctx, ast.Store)]
            loads = [x for x in ast.walk(fn) if isinstance(x, ast.Name) and x.id == g and isinstance(x.ctx, ast.Load)]
            calls = [x for x in ast.walk(fn) if isinstance(x, ast.Call) and A.is_name(x.func, g)]
            if len(stores) != 1 or not calls or len(calls) != len(loads):
                continue
            # the bound arguments must still denote the same objects at the calls
            bound_names = {n_.id for a in list(st.value.args) + [k.value for k in st.value.keywords]
                           for n_ in ast.walk(a) if isinstance(n_, ast.Name) and n_.id != 'self'}
            rebinds = [x for x in ast.walk(fn) if isinstance(x, ast.Name) and x.id in bound_names and isinstance(x.ctx, ast.Store)
                       and getattr(x, 'lineno', 0) > st.lineno]
            if rebinds:
                continue
            f, pre = st.value.args[0], st.value.args[1:]
            if st.value.keywords and any(k.arg is None for c in calls for k in c.keywords):
                continue        # `**kw` at the call could collide with the partial's keywords
            for c in calls:
                c.func = A.clone(f)
                c.args = [A.clone(a) for a in pre] + c.args
                own = {k.arg for k in c.keywords}
                c.keywords = c.keywords + [A.clone(k) for k in st.value.keywords if k.arg not in own]
            blk.remove(st)
            if not blk:
                blk.append(ast.copy_location(ast.Pass(), st))
            done += 1
    return done


def rotate_priming_loops(tree):
    """`x = E` ; `while T(x): BODY ; x = E`   ->   `while True: x = E ; if not T(x): break ; BODY`
    (no `continue` in BODY, no else clause: the two loops perform the same sequence of evaluations)"""
    done = 0
    NEG = {ast.Is: ast.IsNot, ast.IsNot: ast.Is, ast.Eq: ast.NotEq, ast.NotEq: ast.Eq, ast.Lt: ast.GtE, ast.GtE: ast.Lt,
           ast.Gt: ast.LtE, ast.LtE: ast.Gt, ast.In: ast.NotIn, ast.NotIn: ast.In}

    def negate(t):
        if isinstance(t, ast.UnaryOp) and isinstance(t.op, ast.Not):
            return t.operand
        if isinstance(t, ast.Compare) and len(t.ops) == 1 and type(t.ops[0]) in NEG:
            return ast.Compare(left=t.left, ops=[NEG[type(t.ops[0])]()], comparators=t.comparators)
        return ast.UnaryOp(op=ast.Not(), operand=t)

    def fix(blk):
        nonlocal done
        out = []
        i = 0
        while i < len(blk):
            st = blk[i]
            nxt = blk[i + 1] if i + 1 < len(blk) else None
            if isinstance(st, ast.Assign) and len(st.targets) == 1 and isinstance(st.targets[0], ast.Name) \
                    and isinstance(nxt, ast.While) and not nxt.orelse and len(nxt.body) >= 2 \
                    and isinstance(nxt.body[-1], ast.Assign) and ast.dump(nxt.body[-1].targets[0]) == ast.dump(st.targets[0]) \
                    and ast.dump(nxt.body[-1].value) == ast.dump(st.value) \
                    and any(A.is_name(x, st.targets[0].id) for x in ast.walk(nxt.test)) \
                    and not any(isinstance(x, ast.Continue) for x in A.walk_stmts(nxt.body)):
                brk = ast.If(test=negate(nxt.test), body=[ast.Break()], orelse=[])
                new = ast.While(test=ast.Constant(value=True), body=[st, brk] + fix(nxt.body[:-1]), orelse=[])
                ast.copy_location(new, nxt)
                ast.copy_location(brk, nxt)
                ast.copy_location(brk.body[0], nxt)
                ast.fix_missing_locations(new)
                out.append(new)
                done += 1
                i += 2
                continue
            for field in ('body', 'orelse', 'finalbody'):
                b_ = getattr(st, field, None)
                if isinstance(b_, list) and b_ and isinstance(b_[0], ast.stmt):
                    setattr(st, field, fix(b_))
            if isinstance(st, ast.Try):
                for h in st.handlers:
                    h.body = fix(h.body)
            out.append(st)
            i += 1
        return out
    for fn in [n for n in ast.walk(tree) if isinstance(n, A.FUNC_TYPES)]:
        fn.body = fix(fn.body)
    return done


def tidy_after_inlining(tree):
    """`x = x` is dropped; `if c: <nothing> else: B` -> `if not c: B`; `a, _ = E` (placeholders never read) -> `a = E[k]`"""
    done = 0
    NEG = {ast.Is: ast.IsNot, ast.IsNot: ast.Is, ast.Eq: ast.NotEq, ast.NotEq: ast.Eq, ast.Lt: ast.GtE, ast.GtE: ast.Lt,
           ast.Gt: ast.LtE, ast.LtE: ast.Gt, ast.In: ast.NotIn, ast.NotIn: ast.In}

    def negate(t):
        if isinstance(t, ast.UnaryOp) and isinstance(t.op, ast.Not):
            return t.operand
        if isinstance(t, ast.Compare) and len(t.ops) == 1 and type(t.ops[0]) in NEG:
            return ast.copy_location(ast.Compare(left=t.left, ops=[NEG[type(t.ops[0])]()], comparators=t.comparators), t)
        return ast.copy_location(ast.UnaryOp(op=ast.Not(), operand=t), t)

    def fix(blk, fn):
        nonlocal done
        out = []
        for st in blk:
            for field in ('body', 'orelse', 'finalbody'):
                b_ = getattr(st, field, None)
                if isinstance(b_, list) and b_ and isinstance(b_[0], ast.stmt) and not isinstance(st, A.FUNC_TYPES + (ast.ClassDef,)):
                    nb = fix(b_, fn)
                    if not nb and field == 'body':
                        nb = [ast.copy_location(ast.Pass(), st)]
                    setattr(st, field, nb)
            if isinstance(st, ast.Try):
                for h in st.handlers:
                    h.body = fix(h.body, fn) or [ast.copy_location(ast.Pass(), st)]
            if isinstance(st, ast.Assign) and len(st.targets) == 1 and isinstance(st.targets[0], ast.Name) \
                    and A.is_name(st.value, st.targets[0].id):
                done += 1
                continue
            if isinstance(st, ast.If) and st.orelse and all(isinstance(x, ast.Pass) for x in st.body):
                st.test = negate(st.test)
                st.body, st.orelse = st.orelse, []
                done += 1
            if isinstance(st, ast.Assign) and len(st.targets) == 1 and isinstance(st.targets[0], ast.Tuple) \
                    and all(isinstance(e, ast.Name) for e in st.targets[0].elts) and not isinstance(st.value, ast.Tuple):
                names = [e.id for e in st.targets[0].elts]
                real = [k for k, n_ in enumerate(names) if not n_.startswith('_')]
                if len(real) == 1 and len(names) >= 2 and fn is not None and not any(
                        isinstance(x, ast.Name) and x.id.startswith('_') and x.id in names and isinstance(x.ctx, ast.Load)
                        for x in ast.walk(fn)):
                    k = real[0]
                    new = ast.Assign(targets=[ast.Name(id=names[k], ctx=ast.Store())],
                                     value=ast.Subscript(value=st.value, slice=ast.Constant(value=k), ctx=ast.Load()))
                    ast.copy_location(new, st)
                    ast.fix_missing_locations(new)
                    out.append(new)
                    done += 1
                    continue
            out.append(st)
        return out
    for fn in [n for n in ast.walk(tree) if isinstance(n, A.FUNC_TYPES)]:
        fn.body = fix(fn.body, fn) or [ast.copy_location(ast.Pass(), fn)]
    return done


def merge_nested_ifs(tree):
    """canonical form: `if a:` whose whole body is one else-less `if b: S` becomes `if a and b: S`"""
    done = 0
    for n in ast.walk(tree):
        if isinstance(n, ast.If):
            while not n.orelse and len(n.body) == 1 and isinstance(n.body[0], ast.If) and not n.body[0].orelse:
                inner = n.body[0]
                vals = (n.test.values if isinstance(n.test, ast.BoolOp) and isinstance(n.test.op, ast.And) else [n.test]) + (
                    inner.test.values if isinstance(inner.test, ast.BoolOp) and isinstance(inner.test.op, ast.And) else [inner.test])
                n.test = ast.copy_location(ast.BoolOp(op=ast.And(), values=vals), n.test)
                n.body = inner.body
                done += 1
    return done


def ifexp_assign_to_if(tree):
    """canonical form: `t = a if c else b` -> `if c: t = a  else: t = b` (plain name / attribute target)"""
    done = 0

    def fix(blk):
        nonlocal done
        out = []
        for st in blk:
            for field in ('body', 'orelse', 'finalbody'):
                b_ = getattr(st, field, None)
                if isinstance(b_, list) and b_ and isinstance(b_[0], ast.stmt) and not isinstance(st, ast.ClassDef):
                    setattr(st, field, fix(b_))
            if isinstance(st, ast.Try):
                for h in st.handlers:
                    h.body = fix(h.body)
            if isinstance(st, ast.Return) and isinstance(st.value, ast.IfExp):
                r1 = ast.Return(value=st.value.body)
                r2 = ast.Return(value=st.value.orelse)
                new = ast.If(test=st.value.test, body=[r1], orelse=[])
                for x in (new, r1, r2):
                    ast.copy_location(x, st)
                ast.fix_missing_locations(new)
                ast.fix_missing_locations(r2)
                out.append(new)
                out.append(r2)
                done += 1
                continue
            if isinstance(st, ast.Assign) and len(st.targets) == 1 and isinstance(st.targets[0], (ast.Name, ast.Attribute)) \
                    and isinstance(st.value, ast.IfExp):
                a_ = ast.Assign(targets=[A.clone(st.targets[0])], value=st.value.body)
                b_ = ast.Assign(targets=[A.clone(st.targets[0])], value=st.value.orelse)
                new = ast.If(test=st.value.test, body=[a_], orelse=[b_])
                for x in (new, a_, b_):
                    ast.copy_location(x, st)
                ast.fix_missing_locations(new)
                out.append(new)
                done += 1
            else:
                out.append(st)
        return out
    for fn in [n for n in ast.walk(tree) if isinstance(n, A.FUNC_TYPES)]:
        fn.body = fix(fn.body)
    return done


def continue_to_else(tree):
    """inside a loop body: `if c: A ; continue` followed by REST  ->  `if c: A  else: REST`; a `continue` that ends an
    arm of the last statement of a loop body is dropped"""
    done = 0

    def fix_loop_body(body):
        nonlocal done
        for i, st in enumerate(body):
            if isinstance(st, ast.If) and not st.orelse and st.body and isinstance(st.body[-1], ast.Continue) and body[i + 1:] \
                    and not any(isinstance(x, ast.Continue) for s_ in st.body[:-1] for x in A.walk_stmts([s_])):
                st.body = st.body[:-1] or [ast.copy_location(ast.Pass(), st)]
                st.orelse = fix_loop_body(body[i + 1:])
                done += 1
                return body[:i + 1]
        if body and isinstance(body[-1], ast.If):
            last = body[-1]
            for field in ('body', 'orelse'):
                b_ = getattr(last, field)
                if len(b_) > 1 and isinstance(b_[-1], ast.Continue):
                    setattr(last, field, b_[:-1])
                    done += 1
        return body
    for n in ast.walk(tree):
        if isinstance(n, (ast.For, ast.While)):
            n.body = fix_loop_body(n.body)
    return done


def unswitch_loops(tree):
    """`if c: <bindings A>  else: <bindings B>` directly followed by a loop that uses those bindings  ->
    `if c: <A>; loop  else: <B>; loop'`  (loop unswitching; the arms only bind names - assignments to plain names and
    nested function definitions -, so evaluating them first and then looping is what both forms do)"""
    done = 0

    def binds_only(stmts):
        return bool(stmts) and all((isinstance(s_, ast.Assign) and len(s_.targets) == 1 and isinstance(s_.targets[0], ast.Name))
                                   or isinstance(s_, ast.FunctionDef) for s_ in stmts)

    def bound(stmts):
        return {s_.targets[0].id if isinstance(s_, ast.Assign) else s_.name for s_ in stmts}

    def fix(blk):
        nonlocal done
        out = []
        i = 0
        while i < len(blk):
            st = blk[i]
            nxt = blk[i + 1] if i + 1 < len(blk) else None
            if isinstance(st, ast.If) and st.orelse and binds_only(st.body) and binds_only(st.orelse) \
                    and isinstance(nxt, (ast.For, ast.While)) and not nxt.orelse \
                    and any(isinstance(s_, ast.FunctionDef) for s_ in st.body + st.orelse):
                names = bound(st.body) & bound(st.orelse)
                used = {x.id for x in ast.walk(nxt) if isinstance(x, ast.Name) and isinstance(x.ctx, ast.Load)}
                if names and names & used:
                    st.body = st.body + [nxt]
                    st.orelse = st.orelse + [A.clone(nxt)]
                    out.append(st)
                    done += 1
                    i += 2
                    continue
            for field in ('body', 'orelse', 'finalbody'):
                b_ = getattr(st, field, None)
                if isinstance(b_, list) and b_ and isinstance(b_[0], ast.stmt) and not isinstance(st, ast.ClassDef):
                    setattr(st, field, fix(b_))
            if isinstance(st, ast.Try):
                for h in st.handlers:
                    h.body = fix(h.body)
            out.append(st)
            i += 1
        return out
    for fn in [n for n in ast.walk(tree) if isinstance(n, A.FUNC_TYPES)]:
        fn.body = fix(fn.body)
    return done


def simplify_bool_tests(tree):
    """in a test position only the truth value counts: `False if a else b` -> `not a and b`, `True if a else b` -> `a or b`,
    `b if a else False` -> `a and b`, `b if a else True` -> `not a or b` (what an inlined chain of `if …: return False`
    guards turns into)"""
    done = 0
    NEG = {ast.Is: ast.IsNot, ast.IsNot: ast.Is, ast.Eq: ast.NotEq, ast.NotEq: ast.Eq, ast.Lt: ast.GtE, ast.GtE: ast.Lt,
           ast.Gt: ast.LtE, ast.LtE: ast.Gt, ast.In: ast.NotIn, ast.NotIn: ast.In}

    def negate(t):
        if isinstance(t, ast.UnaryOp) and isinstance(t.op, ast.Not):
            return t.operand
        if isinstance(t, ast.Compare) and len(t.ops) == 1 and type(t.ops[0]) in NEG:
            return ast.copy_location(ast.Compare(left=t.left, ops=[NEG[type(t.ops[0])]()], comparators=t.comparators), t)
        return ast.copy_location(ast.UnaryOp(op=ast.Not(), operand=t), t)

    def boolop(op, vals, at):
        flat = []
        for v in vals:
            if isinstance(v, ast.BoolOp) and isinstance(v.op, type(op)):
                flat.extend(v.values)
            else:
                flat.append(v)
        return ast.copy_location(ast.BoolOp(op=op, values=flat), at)

    def simp(e):
        nonlocal done
        if isinstance(e, ast.IfExp):
            a, b, c = simp(e.test), e.body, e.orelse
            if isinstance(b, ast.Constant) and b.value is False:
                done += 1
                return boolop(ast.And(), [negate(a), simp(c)], e)
            if isinstance(b, ast.Constant) and b.value is True:
                done += 1
                return boolop(ast.Or(), [a, simp(c)], e)
            if isinstance(c, ast.Constant) and c.value is False:
                done += 1
                return boolop(ast.And(), [a, simp(b)], e)
            if isinstance(c, ast.Constant) and c.value is True:
                done += 1
                return boolop(ast.Or(), [negate(a), simp(b)], e)
            return e
        if isinstance(e, ast.BoolOp):
            e.values = [simp(v) for v in e.values]
            return e
        if isinstance(e, ast.UnaryOp) and isinstance(e.op, ast.Not):
            e.operand = simp(e.operand)
            return e
        return e
    for n in ast.walk(tree):
        if isinstance(n, (ast.If, ast.While)):
            n.test = simp(n.test)
        elif isinstance(n, ast.Assert):
            n.test = simp(n.test)
    return done


def unswitch_on_flag(tree):
    """a loop whose body tests a parameter that is never rebound (`if with_key:` inside `for …`) is duplicated under that
    test (`if with_key: loop[True] else: loop[False]`), and adjacent `if p: … else: …` statements on the same unmodified
    parameter are merged: the merged-loop spelling of a stage becomes the two-loop spelling"""
    done = 0

    def flag_tests(node, p):
        out = []
        for x in A.walk_stmts([node]):
            if isinstance(x, ast.If):
                t, _neg = A.strip_not(x.test)
                if A.is_name(t, p):
                    out.append(x)
        return out

    def specialise(loop, p, value):
        new = A.clone(loop)
        for x in A.walk_stmts([new]):
            if isinstance(x, ast.If):
                t, neg = A.strip_not(x.test)
                if A.is_name(t, p):
                    x.test = ast.copy_location(ast.Constant(value=(value != neg)), x.test)
        return new

    for fn in [n for n in ast.walk(tree) if isinstance(n, A.FUNC_TYPES)]:
        params = [a.arg for a in fn.args.posonlyargs + fn.args.args + fn.args.kwonlyargs]
        stored = {x.id for x in ast.walk(fn) if isinstance(x, ast.Name) and isinstance(x.ctx, (ast.Store, ast.Del))}
        flags = [p for p in params[1:] if p not in stored]
        if not flags:
            continue
        for blk in _block_lists(fn):
            i = 0
            while i < len(blk):
                st = blk[i]
                if isinstance(st, (ast.For, ast.While)) and not st.orelse:
                    for p in flags:
                        if flag_tests(st, p) and not any(isinstance(x, A.FUNC_TYPES + (ast.Lambda,)) for x in A.walk_stmts(st.body)):
                            new = ast.If(test=ast.Name(id=p, ctx=ast.Load()), body=[specialise(st, p, True)],
                                         orelse=[specialise(st, p, False)])
                            ast.copy_location(new, st)
                            ast.copy_location(new.test, st)
                            blk[i] = new
                            done += 1
                            break
                i += 1
        # merge adjacent ifs on the same flag
        for blk in _block_lists(fn):
            i = 0
            while i < len(blk) - 1:
                a_, b_ = blk[i], blk[i + 1]
                if isinstance(a_, ast.If) and isinstance(b_, ast.If):
                    ta, na = A.strip_not(a_.test)
                    tb, nb = A.strip_not(b_.test)
                    if isinstance(ta, ast.Name) and isinstance(tb, ast.Name) and ta.id == tb.id and ta.id in flags \
                            and not (len(a_.orelse) == 1 and isinstance(a_.orelse[0], ast.If)) \
                            and not (len(b_.orelse) == 1 and isinstance(b_.orelse[0], ast.If)):
                        b_true, b_false = (b_.orelse, b_.body) if nb else (b_.body, b_.orelse)
                        if na:
                            a_.orelse = a_.orelse + b_true
                            a_.body = a_.body + b_false
                        else:
                            a_.body = a_.body + b_true
                            a_.orelse = a_.orelse + b_false
                        if not a_.body:
                            a_.body = [ast.copy_location(ast.Pass(), a_)]
                        del blk[i + 1]
                        done += 1
                        continue
                i += 1
    return done


def while_true_break_to_condition(tree):
    """`while True: if c: break; REST`  ->  `while not c: REST`   (the exit test is the first statement, else-less, and
    the loop has no else clause; `priming` loops produced by rotate_priming_loops start with an assignment and are not
    touched)"""
    done = 0
    NEG = {ast.Is: ast.IsNot, ast.IsNot: ast.Is, ast.Eq: ast.NotEq, ast.NotEq: ast.Eq, ast.Lt: ast.GtE, ast.GtE: ast.Lt,
           ast.Gt: ast.LtE, ast.LtE: ast.Gt, ast.In: ast.NotIn, ast.NotIn: ast.In}
    for n in ast.walk(tree):
        if isinstance(n, ast.While) and isinstance(n.test, ast.Constant) and n.test.value is True and not n.orelse \
                and len(n.body) >= 2 and isinstance(n.body[0], ast.If) and not n.body[0].orelse \
                and len(n.body[0].body) == 1 and isinstance(n.body[0].body[0], ast.Break):
            t = n.body[0].test
            if isinstance(t, ast.UnaryOp) and isinstance(t.op, ast.Not):
                nt = t.operand
            elif isinstance(t, ast.Compare) and len(t.ops) == 1 and type(t.ops[0]) in NEG:
                nt = ast.copy_location(ast.Compare(left=t.left, ops=[NEG[type(t.ops[0])]()], comparators=t.comparators), t)
            else:
                nt = ast.copy_location(ast.UnaryOp(op=ast.Not(), operand=t), t)
            n.test = nt
            n.body = n.body[1:]
            done += 1
    return done


def expand_module_def_aliases(tree):
    """inside a function: `name = _helper` where `_helper` is a *new* private module-level function (a callback lifted out
    of the function because it needs no closure) -> a nested definition of `_helper`'s body under the name `name`"""
    done = 0
    mod_defs = {st.name: st for st in tree.body if isinstance(st, ast.FunctionDef) and st.name.startswith('_')
                and not st.name.startswith('__') and st.name not in PINNED_PRIVATE}
    if not mod_defs:
        return 0
    for fn in [n for n in ast.walk(tree) if isinstance(n, A.FUNC_TYPES)]:
        if fn.name in mod_defs and fn in tree.body:
            continue
        for blk in _block_lists(fn):
            for i_, st in enumerate(blk):
                if isinstance(st, ast.Assign) and len(st.targets) == 1 and isinstance(st.targets[0], ast.Name) \
                        and isinstance(st.value, ast.Name) and st.value.id in mod_defs \
                        and not any(isinstance(x, (ast.Global, ast.Nonlocal)) for x in ast.walk(mod_defs[st.value.id])):
                    new = A.clone(mod_defs[st.value.id])
                    new.name = st.targets[0].id
                    new.decorator_list = []
                    ast.copy_location(new, st)
                    blk[i_] = new
                    done += 1
    if done:
        # definitions that are no longer referenced are analysed through their copies
        for name, d in mod_defs.items():
            left = [x for x in ast.walk(tree) if isinstance(x, ast.Name) and x.id == name and isinstance(x.ctx, ast.Load)]
            if not left:
                d._fully_inlined = True
    return done


def normalise(tree):
    """in-place normalisation of a module tree; returns statistics"""
    stats = {'helpers_inlined': 0, 'aliases_inlined': 0, 'loops_to_comprehensions': 0}
    stats['suppress_to_try'] = suppress_to_try(tree)
    stats['self_ifexp_to_if'] = self_ifexp_to_if(tree)
    stats['priming_loops_rotated'] = rotate_priming_loops(tree)
    stats['while_true_break'] = while_true_break_to_condition(tree)
    stats['else_after_exit_flattened'] = flatten_else_after_exit(tree)
    # helper bodies are brought into their own canonical form first (a helper that only builds a list in a loop and returns
    # it becomes a single `return [comprehension]` and can then be inlined as an expression)
    tree.body, _k0 = loops_to_comprehensions(tree.body)
    for hf in [n for n in ast.walk(tree) if isinstance(n, ast.FunctionDef) and n.name.startswith('_')
               and not n.name.startswith('__') and n.name not in PINNED_PRIVATE]:
        inline_single_use_locals(hf)
    stats['helpers_inlined'] = Inliner(tree).run()
    stats['unswitched_on_flag'] = unswitch_on_flag(tree)
    stats['bool_tests_simplified'] = simplify_bool_tests(tree)
    stats['constant_ifs_folded'] = fold_constant_ifs(tree)
    stats['tidied'] = tidy_after_inlining(tree)
    stats['nested_ifs_merged'] = merge_nested_ifs(tree)
    stats['ifexp_assign_to_if'] = ifexp_assign_to_if(tree)
    stats['continue_to_else'] = continue_to_else(tree)
    stats['tidied'] += tidy_after_inlining(tree)
    stats['module_def_aliases'] = expand_module_def_aliases(tree)
    stats['loops_unswitched'] = unswitch_loops(tree)
    stats['nested_closures_inlined'] = 0
    for fn in [n for n in ast.walk(tree) if isinstance(n, A.FUNC_TYPES)]:
        stats['nested_closures_inlined'] += sink_call_into_branches(fn)
        stats['nested_closures_inlined'] += inline_partials(fn)
        stats['nested_closures_inlined'] += expand_nested_def_aliases(fn)
        stats['nested_closures_inlined'] += inline_nested_closures(fn)
        stats['nested_closures_inlined'] += inline_nested_procedures(fn)
    for fn in [n for n in ast.walk(tree) if isinstance(n, A.FUNC_TYPES)]:
        stats['aliases_inlined'] += inline_aliases(fn)
    tree.body, k = loops_to_comprehensions(tree.body)
    stats['loops_to_comprehensions'] = k
    stats['single_use_locals_inlined'] = 0
    for fn in [n for n in ast.walk(tree) if isinstance(n, A.FUNC_TYPES)]:
        stats['single_use_locals_inlined'] += inline_single_use_locals(fn)
    ast.fix_missing_locations(tree)
    renumber(tree)
    return stats


def renumber(tree):
    """After inlining, the `lineno` of a moved statement is the line it has in the helper it came from, so line numbers
    no longer say which statement comes first. Every node keeps its real source line in `_src_line` (used for reports)
    and gets a strictly increasing `lineno` in document order (used by rules that ask "is A before B")."""
    counter = [0]

    def visit(node):
        if hasattr(node, 'lineno'):
            if not hasattr(node, '_src_line'):
                node._src_line = node.lineno
            counter[0] += 1
            node.lineno = counter[0]
        last = counter[0]
        for child in ast.iter_child_nodes(node):
            visit(child)
        if hasattr(node, 'end_lineno'):
            node.end_lineno = max(counter[0], getattr(node, 'lineno', counter[0]))
    visit(tree)
