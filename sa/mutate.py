"""AST mutation / rewrite operators applied to the in-memory sources (never to files).

A control is a dict {name, kind: 'mutant'|'variant', mutate: sources->sources|None, expect: substr, tier}.
`mutate` returns None when its target construct does not exist on the analysed tree (control skipped, reported).
"""
import ast
import copy
import symtable

from . import astutil as A


def _find(tree, path):
    """locate Class.method.inner inside a module tree; `name#k` picks the k-th (1-based) definition of that
    name in document order below the previous component"""
    node = tree
    for part in path.split('.'):
        name, _, k = part.partition('#')
        k = int(k) if k else 1
        found = [n for n in ast.walk(node) if isinstance(n, (ast.ClassDef,) + A.FUNC_TYPES)
                 and n.name == name and n is not node]
        found.sort(key=lambda n: (n.lineno, n.col_offset))
        if len(found) < k:
            return None
        node = found[k - 1]
    return node


class _Op(ast.NodeTransformer):
    """generic single-purpose transformer: `match(node)` selects, `apply(node)` returns the replacement
    (a node, a list of statements, or None to delete). Applies to at most `limit` matches."""

    def __init__(self, match, apply, limit=1, skip=0):
        self.match = match
        self.apply = apply
        self.limit = limit
        self.skip = skip
        self.hits = 0
        self._seen = 0

    def visit(self, node):
        if self.hits < self.limit:
            try:
                ok = self.match(node)
            except Exception:
                ok = False
            if ok:
                if self._seen < self.skip:
                    self._seen += 1
                else:
                    self.hits += 1
                    return self.apply(node)
        return self.generic_visit(node)


def in_function(module, qualpath, match, apply, limit=1, skip=0):
    """mutation restricted to one function/class (qualpath like 'Dataset.sort', 'lazy_parallel_map.submit#3';
    '' = whole module)"""
    def mutate(sources):
        if module not in sources:
            return None
        tree = ast.parse(sources[module])
        A.set_parents(tree)
        target = _find(tree, qualpath) if qualpath else tree
        if target is None:
            return None
        op = _Op(match, apply, limit, skip)
        op.generic_visit(target)
        if op.hits == 0:
            return None
        ast.fix_missing_locations(tree)
        out = dict(sources)
        out[module] = ast.unparse(tree)
        return out
    return mutate


def parse_stmt(src):
    return ast.parse(src).body


def parse_expr(src):
    return ast.parse(src, mode='eval').body


# ---- frequently used matchers -------------------------------------------------
def is_call_to(name):
    return lambda n: isinstance(n, ast.Call) and (A.dotted(n.func) or '').split('.')[-1] == name


def call_named(dotted_name):
    return lambda n: isinstance(n, ast.Call) and A.dotted(n.func) == dotted_name


def drop_keyword(kw):
    def apply(n):
        n.keywords = [k for k in n.keywords if k.arg != kw]
        return n
    return apply


def has_keyword(pred, kw):
    return lambda n: pred(n) and any(k.arg == kw for k in n.keywords)


def set_cmp_op(new_op):
    def apply(n):
        n.ops = [new_op()]
        return n
    return apply


def cmp_src(src):
    return lambda n: isinstance(n, ast.Compare) and A.src(n) == src


def stmt_src(src):
    return lambda n: isinstance(n, ast.stmt) and A.src(n) == src


def stmt_startswith(prefix):
    return lambda n: isinstance(n, ast.stmt) and A.src(n).startswith(prefix)


def expr_src(src):
    return lambda n: isinstance(n, ast.expr) and A.src(n) == src


def replace_with_expr(src):
    return lambda n: parse_expr(src)


def replace_with_stmts(src):
    return lambda n: parse_stmt(src)


def delete(_n):
    return None


def delete_keep_pass(_n):
    return ast.Pass()


# ---- behaviour preserving rewrites ------------------------------------------------
class _RenameLocals(ast.NodeTransformer):
    """rename every local variable of a function that is neither a parameter nor shared with a nested scope"""

    def __init__(self, names):
        self.names = names

    def visit_Name(self, n):
        if n.id in self.names:
            return ast.copy_location(ast.Name(id=self.names[n.id], ctx=n.ctx), n)
        return n

    def visit_FunctionDef(self, n):
        return n   # do not descend into nested functions (they have their own pass)

    visit_AsyncFunctionDef = visit_FunctionDef
    visit_Lambda = visit_FunctionDef
    visit_ClassDef = visit_FunctionDef


def rename_locals(sources, modules=('core', 'parallel_utils', 'database'), suffix='_rn'):
    out = dict(sources)
    for m in modules:
        if m not in sources:
            continue
        src = sources[m]
        tree = ast.parse(src)
        st = symtable.symtable(src, m + '.py', 'exec')

        def walk_tables(t, acc):
            for c in t.get_children():
                acc.append(c)
                walk_tables(c, acc)
        tables = []
        walk_tables(st, tables)
        by_line = {}
        for t in tables:
            if t.get_type() == 'function':
                by_line.setdefault((t.get_name(), t.get_lineno()), t)
        total = 0
        for fn in ast.walk(tree):
            if not isinstance(fn, A.FUNC_TYPES):
                continue
            t = by_line.get((fn.name, fn.lineno))
            if t is None:
                # decorators shift lineno: try decorator line
                for k, v in by_line.items():
                    if k[0] == fn.name and abs(k[1] - fn.lineno) <= len(fn.decorator_list) + 1:
                        t = v
                if t is None:
                    continue
            shared = set()
            for c in t.get_children():
                for s in c.get_symbols():
                    if s.is_free():
                        shared.add(s.get_name())
                # nested comprehensions are children too: names they use from us are 'free' there
            params = set(t.get_parameters())
            names = {}
            for s in t.get_symbols():
                n = s.get_name()
                if s.is_local() and not s.is_parameter() and n not in shared and n not in params \
                        and not s.is_imported() and not n.startswith('__') and not s.is_namespace():
                    names[n] = n + suffix
            # names used in nested comprehension scopes are free there -> excluded above
            if not names:
                continue
            r = _RenameLocals(names)
            fn.body = [r.visit(s) for s in fn.body]
            total += len(names)
        ast.fix_missing_locations(tree)
        out[m] = ast.unparse(tree)
    return out


class _FlipCompare(ast.NodeTransformer):
    """a >= b -> not a < b ; a <= b -> not a > b ; a > b -> not a <= b; a < b -> not a >= b (ints / totally ordered)"""
    MAP = {ast.GtE: ast.Lt, ast.LtE: ast.Gt, ast.Gt: ast.LtE, ast.Lt: ast.GtE}

    def __init__(self):
        self.hits = 0

    def visit_Compare(self, n):
        self.generic_visit(n)
        if len(n.ops) == 1 and type(n.ops[0]) in self.MAP and not isinstance(A.parent(n) if hasattr(n, '_parent') else None, ast.Assert):
            self.hits += 1
            return ast.UnaryOp(op=ast.Not(), operand=ast.Compare(left=n.left, ops=[self.MAP[type(n.ops[0])]()],
                                                                 comparators=n.comparators))
        return n


def flip_comparisons(sources, modules=('core', 'parallel_utils')):
    out = dict(sources)
    for m in modules:
        if m in sources:
            tree = ast.parse(sources[m])
            tree = _FlipCompare().visit(tree)
            ast.fix_missing_locations(tree)
            out[m] = ast.unparse(tree)
    return out


class _SwapIfElse(ast.NodeTransformer):
    """if c: A else: B  ->  if not c: B else: A   (only plain two-armed ifs whose else is not an elif)"""

    def __init__(self):
        self.hits = 0

    def visit_If(self, n):
        self.generic_visit(n)
        if n.orelse and not (len(n.orelse) == 1 and isinstance(n.orelse[0], ast.If)) and not (
                isinstance(n.test, ast.Call) and A.dotted(n.test.func) == 'isinstance'):
            self.hits += 1
            return ast.If(test=ast.UnaryOp(op=ast.Not(), operand=n.test), body=n.orelse, orelse=n.body)
        return n


def swap_if_else(sources, modules=('core', 'parallel_utils')):
    out = dict(sources)
    for m in modules:
        if m in sources:
            tree = ast.parse(sources[m])
            tree = _SwapIfElse().visit(tree)
            ast.fix_missing_locations(tree)
            out[m] = ast.unparse(tree)
    return out


class _AugToAssign(ast.NodeTransformer):
    def __init__(self):
        self.hits = 0

    def visit_AugAssign(self, n):
        if isinstance(n.target, ast.Name):
            self.hits += 1
            return ast.Assign(targets=[ast.Name(id=n.target.id, ctx=ast.Store())],
                              value=ast.BinOp(left=ast.Name(id=n.target.id, ctx=ast.Load()), op=n.op, right=n.value))
        return n


def aug_to_assign(sources, modules=('core', 'parallel_utils')):
    out = dict(sources)
    for m in modules:
        if m in sources:
            tree = ast.parse(sources[m])
            tree = _AugToAssign().visit(tree)
            ast.fix_missing_locations(tree)
            out[m] = ast.unparse(tree)
    return out


def reformat(sources):
    """round trip through ast.unparse: drops comments, changes line numbers and layout"""
    return {m: ast.unparse(ast.parse(s)) for m, s in sources.items()}


# ------------------------------------------------------------------ structural variants (whole package, mechanical)
def _always_exits(stmts):
    if not stmts:
        return False
    last = stmts[-1]
    if isinstance(last, (ast.Return, ast.Raise, ast.Continue, ast.Break)):
        return True
    if isinstance(last, ast.If) and last.orelse:
        return _always_exits(last.body) and _always_exits(last.orelse)
    return False


def _map_blocks(tree, fn):
    """apply fn(list of statements) -> new list to every statement list of the tree, innermost first"""
    for node in ast.walk(tree):
        for field in ('body', 'orelse', 'finalbody'):
            blk = getattr(node, field, None)
            if isinstance(blk, list) and blk and isinstance(blk[0], ast.stmt):
                setattr(node, field, fn(blk, node, field))
        if isinstance(node, ast.Try):
            for h in node.handlers:
                h.body = fn(h.body, h, 'body')
    return tree


def _variant(sources, transform, modules=('core', 'parallel_utils', 'database')):
    out = dict(sources)
    for m in modules:
        if m in sources:
            tree = ast.parse(sources[m])
            tree = transform(tree)
            ast.fix_missing_locations(tree)
            text = ast.unparse(tree)
            compile(text, m, 'exec')
            out[m] = text
    return out


def else_to_early_exit(sources):
    """if c: A(always exits) else: B   ->   if c: A ; B"""
    def f(blk, owner, field):
        out = []
        for st in blk:
            if isinstance(st, ast.If) and st.orelse and _always_exits(st.body) and not (
                    len(st.orelse) == 1 and isinstance(st.orelse[0], ast.If) and field == 'orelse'):
                rest = st.orelse
                st.orelse = []
                out.append(st)
                out.extend(rest)
            else:
                out.append(st)
        return out
    return _variant(sources, lambda t: _map_blocks(t, f))


def early_exit_to_else(sources):
    """if c: A(always exits) ; rest   ->   if c: A else: rest     (no else before, rest non-empty)"""
    def f(blk, owner, field):
        for i, st in enumerate(blk):
            if isinstance(st, ast.If) and not st.orelse and _always_exits(st.body) and blk[i + 1:] \
                    and not any(isinstance(x, (ast.FunctionDef, ast.ClassDef, ast.Import, ast.ImportFrom)) for x in blk[i + 1:]):
                st.orelse = f(blk[i + 1:], owner, field)
                return blk[:i + 1]
        return blk
    return _variant(sources, lambda t: _map_blocks(t, f))


def name_call_results(sources):
    """return f(...)  ->  result__ = f(...); return result__     (only where the function does not use that name)"""
    def f(blk, owner, field):
        out = []
        for st in blk:
            if isinstance(st, ast.Return) and isinstance(st.value, ast.Call):
                tmp = ast.Name(id='result__', ctx=ast.Store())
                out.append(ast.copy_location(ast.Assign(targets=[tmp], value=st.value), st))
                out.append(ast.copy_location(ast.Return(value=ast.Name(id='result__', ctx=ast.Load())), st))
            else:
                out.append(st)
        return out
    return _variant(sources, lambda t: _map_blocks(t, f))


def ifexp_to_statement(sources):
    """x = a if c else b   ->   if c: x = a  else: x = b     (single Name / attribute target)"""
    def f(blk, owner, field):
        out = []
        for st in blk:
            if isinstance(st, ast.Assign) and len(st.targets) == 1 and isinstance(st.targets[0], (ast.Name, ast.Attribute)) \
                    and isinstance(st.value, ast.IfExp):
                import copy as _c
                a = ast.Assign(targets=[_c.deepcopy(st.targets[0])], value=st.value.body)
                b = ast.Assign(targets=[_c.deepcopy(st.targets[0])], value=st.value.orelse)
                out.append(ast.copy_location(ast.If(test=st.value.test, body=[a], orelse=[b]), st))
            else:
                out.append(st)
        return out
    return _variant(sources, lambda t: _map_blocks(t, f))


def comprehension_to_loop(sources):
    """x = [e for t in it if c]   ->   x = [] ; for t in it: if c: x.append(e)      (Name target, one generator whose
    target names do not occur elsewhere in the enclosing function, no walrus)"""
    def transform(tree):
        A.set_parents(tree)

        def f(blk, owner, field):
            out = []
            for st in blk:
                v = st.value if isinstance(st, ast.Assign) else None
                if isinstance(st, ast.Assign) and len(st.targets) == 1 and isinstance(st.targets[0], ast.Name) \
                        and isinstance(v, ast.ListComp) and len(v.generators) == 1 and not v.generators[0].is_async:
                    g = v.generators[0]
                    fn = A.enclosing_function(st)
                    names = set(A.name_targets(g.target))
                    scope = fn if fn is not None else tree
                    elsewhere = {x.id for x in ast.walk(scope) if isinstance(x, ast.Name) and not any(x is y for y in ast.walk(v))}
                    tgt = st.targets[0].id
                    if fn is None or names & elsewhere or tgt in {x.id for x in ast.walk(v) if isinstance(x, ast.Name)} \
                            or any(isinstance(x, ast.NamedExpr) for x in ast.walk(v)):
                        out.append(st)
                        continue
                    app = ast.Expr(value=ast.Call(func=ast.Attribute(value=ast.Name(id=tgt, ctx=ast.Load()), attr='append', ctx=ast.Load()),
                                                  args=[v.elt], keywords=[]))
                    body = [app]
                    for c in reversed(g.ifs):
                        body = [ast.If(test=c, body=body, orelse=[])]
                    out.append(ast.copy_location(ast.Assign(targets=[ast.Name(id=tgt, ctx=ast.Store())], value=ast.List(elts=[], ctx=ast.Load())), st))
                    out.append(ast.copy_location(ast.For(target=g.target, iter=g.iter, body=body, orelse=[]), st))
                else:
                    out.append(st)
            return out
        return _map_blocks(tree, f)
    return _variant(sources, transform)
