"""Parameter binding and constructor/attribute flow helpers."""
import ast

from . import astutil as A

MISSING = object()


class Binding:
    """result of binding a Call to a function signature"""

    def __init__(self):
        self.args = {}        # param name -> arg expr
        self.defaulted = []   # params left to their default
        self.unbound = []     # params without default and without argument
        self.star = None      # expr of *seq argument (binds vararg or remaining positionals)
        self.dstar = None     # expr of **map argument
        self.vararg = None    # list of exprs bound to *vararg param (may include Starred)
        self.kwextra = {}     # keywords going to **kwargs param
        self.errors = []


def signature(fn, skip_self=True):
    a = fn.args
    pos = [x.arg for x in a.posonlyargs + a.args]
    if skip_self and pos:
        pos = pos[1:]
    ndef = len(a.defaults)
    allpos = [x.arg for x in a.posonlyargs + a.args]
    defaults = {}
    for name, d in zip(allpos[len(allpos) - ndef:], a.defaults):
        defaults[name] = d
    for x, d in zip(a.kwonlyargs, a.kw_defaults):
        if d is not None:
            defaults[x.arg] = d
    return {'pos': pos, 'kwonly': [x.arg for x in a.kwonlyargs], 'defaults': defaults,
            'vararg': a.vararg.arg if a.vararg else None,
            'kwarg': a.kwarg.arg if a.kwarg else None}


def bind(call, fn, skip_self=True):
    sig = signature(fn, skip_self)
    b = Binding()
    pos = list(sig['pos'])
    i = 0
    extra_pos = []
    for arg in call.args:
        if isinstance(arg, ast.Starred):
            b.star = arg.value
            extra_pos.append(arg)
            continue
        if i < len(pos) and b.star is None:
            b.args[pos[i]] = arg
            i += 1
        else:
            extra_pos.append(arg)
    if extra_pos:
        if sig['vararg']:
            b.vararg = extra_pos
        elif b.star is None:
            b.errors.append('too many positional arguments')
    for kw in call.keywords:
        if kw.arg is None:
            b.dstar = kw.value
            continue
        if kw.arg in pos or kw.arg in sig['kwonly']:
            if kw.arg in b.args:
                b.errors.append('duplicate argument %s' % kw.arg)
            b.args[kw.arg] = kw.value
        elif sig['kwarg']:
            b.kwextra[kw.arg] = kw.value
        else:
            b.errors.append('unexpected keyword %s' % kw.arg)
    for p in pos + sig['kwonly']:
        if p in b.args:
            continue
        if b.star is not None and p in pos and not sig['vararg']:
            continue   # may be filled by *seq
        if p in sig['defaults']:
            b.defaulted.append(p)
        elif b.dstar is not None and not sig['kwarg']:
            continue
        else:
            b.unbound.append(p)
    b.sig = sig
    return b


def init_chain(cls):
    """the __init__ functions that run when cls is constructed, following super().__init__
    calls: list of (owner ClassInfo, FunctionDef, {param of this init -> expr in terms of the
    params of the *first* init}). Only simple name forwarding is tracked."""
    out = []
    mem = cls.resolve('__init__')
    if mem is None or not mem.is_function:
        return out
    first = mem.node
    ident = {p: ast.Name(id=p, ctx=ast.Load()) for p in signature(first)['pos'] + signature(first)['kwonly']}
    if first.args.vararg:
        ident[first.args.vararg.arg] = ast.Name(id=first.args.vararg.arg, ctx=ast.Load())
    if first.args.kwarg:
        ident[first.args.kwarg.arg] = ast.Name(id=first.args.kwarg.arg, ctx=ast.Load())
    work = [(mem.owner, first, ident)]
    seen = set()
    while work:
        owner, fn, env = work.pop(0)
        if id(fn) in seen:
            continue
        seen.add(id(fn))
        out.append((owner, fn, env))
        for n in A.walk_local(fn):
            if isinstance(n, ast.Call) and isinstance(n.func, ast.Attribute) \
                    and n.func.attr == '__init__' and isinstance(n.func.value, ast.Call) \
                    and A.dotted(n.func.value.func) == 'super':
                idx = cls.mro.index(owner) if owner in cls.mro else -1
                nxt = None
                for c in cls.mro[idx + 1:]:
                    m = c.members.get('__init__')
                    if m is not None and m.is_function:
                        nxt = m
                        break
                if nxt is None:
                    continue
                b = bind(n, nxt.node)
                env2 = {}
                for p, e in b.args.items():
                    if isinstance(e, ast.Name) and e.id in env:
                        env2[p] = env[e.id]
                    else:
                        env2[p] = e
                work.append((nxt.owner, nxt.node, env2))
    return out


def init_attrs(cls):
    """instance attributes written by the constructor chain of cls:
    attr -> set of first-init parameter names the stored value depends on"""
    attrs = {}
    for owner, fn, env in init_chain(cls):
        selfname = (fn.args.posonlyargs + fn.args.args)[0].arg
        for n in A.walk_local(fn):
            targets = []
            if isinstance(n, ast.Assign):
                targets = n.targets
                value = n.value
            elif isinstance(n, (ast.AugAssign, ast.AnnAssign)) and n.value is not None:
                targets = [n.target]
                value = n.value
            for t in targets:
                for tt in (t.elts if isinstance(t, (ast.Tuple, ast.List)) else [t]):
                    if A.is_self_attr(tt, None, selfname):
                        deps = set()
                        for name in A.names_in(value):
                            if name in env:
                                deps |= set(A.names_in(env[name]))
                        attrs.setdefault(tt.attr, set()).update(deps)
    return attrs


def param_attrs(cls):
    """first-init parameter -> set of attrs whose stored value depends on it"""
    out = {}
    for attr, deps in init_attrs(cls).items():
        for d in deps:
            out.setdefault(d, set()).add(attr)
    return out


def assigned_names(fn):
    """local name -> list of value exprs assigned to it (simple assignments)"""
    out = {}
    for n in A.walk_local(fn):
        if isinstance(n, ast.Assign):
            for t in n.targets:
                if isinstance(t, ast.Name):
                    out.setdefault(t.id, []).append(n.value)
        elif isinstance(n, ast.AnnAssign) and isinstance(n.target, ast.Name) and n.value is not None:
            out.setdefault(n.target.id, []).append(n.value)
    return out


def copy_prop(expr, fn, depth=3):
    """replace a Name by its unique local definition (if it has exactly one)"""
    defs = assigned_names(fn)
    for _ in range(depth):
        if isinstance(expr, ast.Name) and expr.id in defs and len(defs[expr.id]) == 1:
            expr = defs[expr.id][0]
        else:
            break
    return expr


def always_exits(stmts):
    """does every path through this statement list leave the enclosing block (return/raise/continue/break)?"""
    for st in stmts:
        if isinstance(st, (ast.Return, ast.Raise, ast.Continue, ast.Break)):
            return True
        if isinstance(st, ast.If) and st.orelse and always_exits(st.body) and always_exits(st.orelse):
            return True
        if isinstance(st, ast.Try) and not st.handlers and always_exits(st.body):
            return True
        if isinstance(st, ast.With) and always_exits(st.body):
            return True
    return False


def guards_of(node, fn):
    """path conditions of `node` inside `fn`: list of (test expr, truth) — innermost first.
    * enclosing if / while / conditional-expression tests with the branch taken,
    * and the negation of every *earlier sibling* `if` whose taken branch always leaves the block
      (guard-clause / early-return style):   if c: return ...      <node>        => (c, False)"""
    out = []
    child = node
    for a in A.ancestors(node):
        # earlier siblings of `child` in the block of `a` that always exit
        for field in ('body', 'orelse', 'finalbody'):
            block = getattr(a, field, None)
            if isinstance(block, list) and any(child is s for s in block):
                for s in block:
                    if s is child:
                        break
                    if isinstance(s, ast.If):
                        if always_exits(s.body) and not always_exits(s.orelse):
                            out.append((s.test, False))
                        elif s.orelse and always_exits(s.orelse) and not always_exits(s.body):
                            out.append((s.test, True))
        if isinstance(a, ast.ExceptHandler):
            pass
        if a is fn:
            break
        if isinstance(a, (ast.If, ast.While)):
            if any(child is s for s in a.body):
                out.append((a.test, True))
            elif any(child is s for s in a.orelse):
                out.append((a.test, False))
        elif isinstance(a, ast.IfExp):
            if child is a.body:
                out.append((a.test, True))
            elif child is a.orelse:
                out.append((a.test, False))
        child = a
    return out


def enclosing_guards(node, fn):
    """only the tests of the if/while/conditional-expressions that lexically enclose `node`"""
    out = []
    child = node
    for a in A.ancestors(node):
        if a is fn:
            break
        if isinstance(a, (ast.If, ast.While)):
            if any(child is s for s in a.body):
                out.append((a.test, True))
            elif any(child is s for s in a.orelse):
                out.append((a.test, False))
        elif isinstance(a, ast.IfExp):
            if child is a.body:
                out.append((a.test, True))
            elif child is a.orelse:
                out.append((a.test, False))
        child = a
    return out


class _Expand(ast.NodeTransformer):
    def __init__(self, defs, helpers, depth):
        self.defs = defs
        self.helpers = helpers
        self.depth = depth

    def visit_Name(self, n):
        if isinstance(n.ctx, ast.Load) and n.id in self.defs and self.depth > 0:
            d = self.defs[n.id]
            if d is not None:
                sub = _Expand({k: v for k, v in self.defs.items() if k != n.id}, self.helpers, self.depth - 1)
                return sub.visit(A.clone(d))
        return n

    def visit_Lambda(self, n):
        return n


def expand(expr, fn, depth=4):
    """copy of `expr` in which every local that has exactly one (simple, non self-referential) definition in `fn`
    is replaced by that definition, recursively: undoes "named intermediate" refactorings for shape recognition.
    Positions of the original node are kept on the root."""
    import copy as _c
    defs = {}
    an = assigned_names(fn)
    loopvars = set()
    for n in A.walk_local(fn):
        if isinstance(n, (ast.For, ast.comprehension)):
            loopvars.update(A.name_targets(n.target))
        elif isinstance(n, ast.AugAssign) and isinstance(n.target, ast.Name):
            loopvars.add(n.target.id)
        elif isinstance(n, (ast.With,)):
            for it in n.items:
                if it.optional_vars is not None:
                    loopvars.update(A.name_targets(it.optional_vars))
    params = {a.arg for a in fn.args.posonlyargs + fn.args.args + fn.args.kwonlyargs} if hasattr(fn, 'args') else set()
    for name, vals in an.items():
        if len(vals) == 1 and name not in loopvars and name not in params and name not in A.names_in(vals[0]):
            defs[name] = vals[0]
    new = _Expand(defs, None, depth).visit(A.clone(expr))
    ast.copy_location(new, expr)
    ast.fix_missing_locations(new)
    return new


def all_defs_satisfy(expr, fn, pred, depth=3):
    """expr satisfies pred, or is a local Name all of whose definitions (recursively) satisfy pred"""
    if pred(expr):
        return True
    if isinstance(expr, ast.Name) and depth > 0:
        defs = assigned_names(fn).get(expr.id)
        if defs:
            return all(all_defs_satisfy(d, fn, pred, depth - 1) for d in defs)
    if isinstance(expr, ast.IfExp):
        return all_defs_satisfy(expr.body, fn, pred, depth) and all_defs_satisfy(expr.orelse, fn, pred, depth)
    return False


def aliases_caller_object(expr, fn, depth=3):
    """does expr denote (an alias of) an object the caller handed in / a stored raw attribute, rather than a newly
    computed one? Names are followed through their local definitions."""
    params = {a.arg for a in fn.args.posonlyargs + fn.args.args + fn.args.kwonlyargs}
    if isinstance(expr, ast.Name):
        if expr.id in params:
            return True
        defs = assigned_names(fn).get(expr.id)
        if defs and depth > 0:
            return any(aliases_caller_object(d, fn, depth - 1) for d in defs)
        return False
    if isinstance(expr, ast.Attribute):
        return True
    if isinstance(expr, ast.Call) and (A.dotted(expr.func) or '').endswith('asarray'):
        return True
    return False


def list_built_over(expr, fn):
    """If `expr` denotes a list with exactly one element per element of an iterable, in order, return that iterable:
       * [f(t) for t in IT]  (no filter), list(map(f, IT)), or
       * a local `xs = []` that is only extended by one unconditional `xs.append(...)` in the body of `for t in IT:`
         (no break / continue in that loop).
    Otherwise None."""
    e = expr
    if isinstance(e, ast.Starred):
        e = e.value
    if isinstance(e, (ast.ListComp, ast.GeneratorExp)) and len(e.generators) == 1 and not e.generators[0].ifs:
        return e.generators[0].iter
    if isinstance(e, ast.Call) and A.dotted(e.func) in ('list', 'tuple') and len(e.args) == 1:
        inner = e.args[0]
        if isinstance(inner, ast.Call) and A.dotted(inner.func) == 'map' and len(inner.args) == 2:
            return inner.args[1]
        return list_built_over(inner, fn)
    if isinstance(e, ast.Name):
        defs = assigned_names(fn).get(e.id, [])
        if len(defs) == 1:
            d = defs[0]
            empty = (isinstance(d, ast.List) and not d.elts) or (isinstance(d, ast.Call) and A.dotted(d.func) == 'list' and not d.args)
            if not empty:
                return list_built_over(d, fn)
            appends = [c for c in A.walk_local(fn) if isinstance(c, ast.Call) and isinstance(c.func, ast.Attribute)
                       and A.is_name(c.func.value, e.id) and c.func.attr in ('append', 'extend', 'insert', 'pop', 'remove', 'clear')]
            if len(appends) == 1 and appends[0].func.attr == 'append':
                stmt = A.parent(appends[0])
                loop = A.parent(stmt) if isinstance(stmt, ast.Expr) else None
                if isinstance(loop, ast.For) and any(stmt is s for s in loop.body) and not loop.orelse \
                        and not any(isinstance(x, (ast.Break, ast.Continue)) for x in A.walk_stmts(loop.body)) \
                        and not any(isinstance(x, ast.Return) for x in A.walk_stmts(loop.body)):
                    return loop.iter
    return None


def returns_of(fn):
    return [n for n in A.walk_local(fn) if isinstance(n, ast.Return)]


# ------------------------------------------------------------------ tiny symbolic evaluation of straight-line code
def run_under(fn, decide):
    """the straight-line statement sequence `fn` executes when every `if` test is decided by `decide(test)` ->
    True / False (None = cannot decide: the result is None). Loops / try / with stop the evaluation (None).
    Returns (statements, returned expression or None)."""
    out = []

    def run(stmts):
        for st in stmts:
            if isinstance(st, ast.If):
                r = decide(st.test)
                if r is None:
                    return 'stop'
                k = run(st.body if r else st.orelse)
                if k:
                    return k
            elif isinstance(st, ast.Return):
                out.append(st)
                return 'return'
            elif isinstance(st, ast.Raise):
                out.append(st)
                return 'raise'
            elif isinstance(st, (ast.Assign, ast.AugAssign, ast.AnnAssign, ast.Expr, ast.Pass, ast.Assert,
                                 ast.Import, ast.ImportFrom)):
                out.append(st)
            else:
                return 'stop'
        return None
    body = [s for s in fn.body if not (isinstance(s, ast.Expr) and isinstance(s.value, ast.Constant))]
    k = run(body)
    if k == 'stop':
        return None, None
    return out, (out[-1] if out and isinstance(out[-1], ast.Return) else None)


def symbolic_value(stmts, expr):
    """value of `expr` after the straight-line `stmts` (plain `name = e` / `name op= e` assignments are substituted in
    order; anything else that binds a name makes that name opaque)"""
    env = {}

    class Sub(ast.NodeTransformer):
        def visit_Name(self, nd):
            if isinstance(nd.ctx, ast.Load) and nd.id in env and env[nd.id] is not None:
                return A.clone(env[nd.id])
            return nd
    for st in stmts:
        if isinstance(st, ast.Assign) and len(st.targets) == 1 and isinstance(st.targets[0], ast.Name):
            env[st.targets[0].id] = Sub().visit(A.clone(st.value))
        elif isinstance(st, ast.AugAssign) and isinstance(st.target, ast.Name):
            cur = env.get(st.target.id) or ast.Name(id=st.target.id, ctx=ast.Load())
            env[st.target.id] = ast.BinOp(left=A.clone(cur), op=st.op, right=Sub().visit(A.clone(st.value)))
        elif isinstance(st, (ast.Assign, ast.AnnAssign)):
            for t in (st.targets if isinstance(st, ast.Assign) else [st.target]):
                for nm in A.name_targets(t):
                    env[nm] = None
    new = Sub().visit(A.clone(expr))
    ast.fix_missing_locations(new)
    return new
