"""Parameter binding and constructor/attribute flow helpers."""
import ast

from . import astutil as A

MISSING = object()


class Binding:
    """result of binding a Call to a function signature"""

    def __init__(self):
        self.args = {}        # param name -> arg expr
        self.defaulted = []   # params left to their default
        self.unbound = []     # params without default and without argument
        self.star = None      # expr of *seq argument (binds vararg or remaining positionals)
        self.dstar = None     # expr of **map argument
        self.vararg = None    # list of exprs bound to *vararg param (may include Starred)
        self.kwextra = {}     # keywords going to **kwargs param
        self.errors = []


def signature(fn, skip_self=True):
    a = fn.args
    pos = [x.arg for x in a.posonlyargs + a.args]
    if skip_self and pos:
        pos = pos[1:]
    ndef = len(a.defaults)
    allpos = [x.arg for x in a.posonlyargs + a.args]
    defaults = {}
    for name, d in zip(allpos[len(allpos) - ndef:], a.defaults):
        defaults[name] = d
    for x, d in zip(a.kwonlyargs, a.kw_defaults):
        if d is not None:
            defaults[x.arg] = d
    return {'pos': pos, 'kwonly': [x.arg for x in a.kwonlyargs], 'defaults': defaults,
            'vararg': a.vararg.arg if a.vararg else None,
            'kwarg': a.kwarg.arg if a.kwarg else None}


def bind(call, fn, skip_self=True):
    sig = signature(fn, skip_self)
    b = Binding()
    pos = list(sig['pos'])
    i = 0
    extra_pos = []
    for arg in call.args:
        if isinstance(arg, ast.Starred):
            b.star = arg.value
            extra_pos.append(arg)
            continue
        if i < len(pos) and b.star is None:
            b.args[pos[i]] = arg
            i += 1
        else:
            extra_pos.append(arg)
    if extra_pos:
        if sig['vararg']:
            b.vararg = extra_pos
        elif b.star is None:
            b.errors.append('too many positional arguments')
    for kw in call.keywords:
        if kw.arg is None:
            b.dstar = kw.value
            continue
        if kw.arg in pos or kw.arg in sig['kwonly']:
            if kw.arg in b.args:
                b.errors.append('duplicate argument %s' % kw.arg)
            b.args[kw.arg] = kw.value
        elif sig['kwarg']:
            b.kwextra[kw.arg] = kw.value
        else:
            b.errors.append('unexpected keyword %s' % kw.arg)
    for p in pos + sig['kwonly']:
        if p in b.args:
            continue
        if b.star is not None and p in pos and not sig['vararg']:
            continue   # may be filled by *seq
        if p in sig['defaults']:
            b.defaulted.append(p)
        elif b.dstar is not None and not sig['kwarg']:
            continue
        else:
            b.unbound.append(p)
    b.sig = sig
    return b


def init_chain(cls):
    """the __init__ functions that run when cls is constructed, following super().__init__
    calls: list of (owner ClassInfo, FunctionDef, {param of this init -> expr in terms of the
    params of the *first* init}). Only simple name forwarding is tracked."""
    out = []
    mem = cls.resolve('__init__')
    if mem is None or not mem.is_function:
        return out
    first = mem.node
    ident = {p: ast.Name(id=p, ctx=ast.Load()) for p in signature(first)['pos'] + signature(first)['kwonly']}
    if first.args.vararg:
        ident[first.args.vararg.arg] = ast.Name(id=first.args.vararg.arg, ctx=ast.Load())
    if first.args.kwarg:
        ident[first.args.kwarg.arg] = ast.Name(id=first.args.kwarg.arg, ctx=ast.Load())
    work = [(mem.owner, first, ident)]
    seen = set()
    while work:
        owner, fn, env = work.pop(0)
        if id(fn) in seen:
            continue
        seen.add(id(fn))
        out.append((owner, fn, env))
        for n in A.walk_local(fn):
            if isinstance(n, ast.Call) and isinstance(n.func, ast.Attribute) \
                    and n.func.attr == '__init__' and isinstance(n.func.value, ast.Call) \
                    and A.dotted(n.func.value.func) == 'super':
                idx = cls.mro.index(owner) if owner in cls.mro else -1
                nxt = None
                for c in cls.mro[idx + 1:]:
                    m = c.members.get('__init__')
                    if m is not None and m.is_function:
                        nxt = m
                        break
                if nxt is None:
                    continue
                b = bind(n, nxt.node)
                env2 = {}
                for p, e in b.args.items():
                    if isinstance(e, ast.Name) and e.id in env:
                        env2[p] = env[e.id]
                    else:
                        env2[p] = e
                work.append((nxt.owner, nxt.node, env2))
    return out


def init_attrs(cls):
    """instance attributes written by the constructor chain of cls:
    attr -> set of first-init parameter names the stored value depends on"""
    attrs = {}
    for owner, fn, env in init_chain(cls):
        selfname = (fn.args.posonlyargs + fn.args.args)[0].arg
        for n in A.walk_local(fn):
            targets = []
            if isinstance(n, ast.Assign):
                targets = n.targets
                value = n.value
            elif isinstance(n, (ast.AugAssign, ast.AnnAssign)) and n.value is not None:
                targets = [n.target]
                value = n.value
            for t in targets:
                for tt in (t.elts if isinstance(t, (ast.Tuple, ast.List)) else [t]):
                    if A.is_self_attr(tt, None, selfname):
                        deps = set()
                        for name in A.names_in(value):
                            if name in env:
                                deps |= set(A.names_in(env[name]))
                        attrs.setdefault(tt.attr, set()).update(deps)
    return attrs


def param_attrs(cls):
    """first-init parameter -> set of attrs whose stored value depends on it"""
    out = {}
    for attr, deps in init_attrs(cls).items():
        for d in deps:
            out.setdefault(d, set()).add(attr)
    return out


def assigned_names(fn):
    """local name -> list of value exprs assigned to it (simple assignments)"""
    out = {}
    for n in A.walk_local(fn):
        if isinstance(n, ast.Assign):
            for t in n.targets:
                if isinstance(t, ast.Name):
                    out.setdefault(t.id, []).append(n.value)
        elif isinstance(n, ast.AnnAssign) and isinstance(n.target, ast.Name) and n.value is not None:
            out.setdefault(n.target.id, []).append(n.value)
    return out


def copy_prop(expr, fn, depth=3):
    """replace a Name by its unique local definition (if it has exactly one)"""
    defs = assigned_names(fn)
    for _ in range(depth):
        if isinstance(expr, ast.Name) and expr.id in defs and len(defs[expr.id]) == 1:
            expr = defs[expr.id][0]
        else:
            break
    return expr


def guards_of(node, fn):
    """list of (test expr, branch True/False) of the enclosing if/while/ifexp tests between
    `node` and function `fn` (innermost first). 'elif' chains are ifs in orelse."""
    out = []
    child = node
    for a in A.ancestors(node):
        if a is fn:
            break
        if isinstance(a, (ast.If, ast.While)):
            if any(child is s for s in a.body):
                out.append((a.test, True))
            elif any(child is s for s in a.orelse):
                out.append((a.test, False))
        elif isinstance(a, ast.IfExp):
            if child is a.body:
                out.append((a.test, True))
            elif child is a.orelse:
                out.append((a.test, False))
        elif isinstance(a, ast.Assert):
            pass
        child = a
    return out


def returns_of(fn):
    return [n for n in A.walk_local(fn) if isinstance(n, ast.Return)]
