"""Static analysis of fgnt/lazy_dataset against the given properties.

Nothing from /repo is imported or executed: sources are parsed with ``ast``
(and compiled, never exec'd, for the bytecode cross-check).
"""
