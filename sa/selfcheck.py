"""Run the behaviour-preserving variants over all properties and report verdict changes (development aid and
thorough-tier control): python -m sa.selfcheck [--repo PATH]"""
import sys
from .model import Repo, AnalysisError, read_sources
from .report import Report
from .cli import Ctx, PROPERTIES, load_rules
from . import mutate as M

VARIANTS = {
    'reformat(ast.unparse round trip)': M.reformat,
    'rename-locals': M.rename_locals,
    'flip-comparisons(a>=b -> not a<b)': M.flip_comparisons,
    'swap-if-else': M.swap_if_else,
    'aug-to-assign(x+=y -> x=x+y)': M.aug_to_assign,
    'else-to-early-exit': M.else_to_early_exit,
    'early-exit-to-else': M.early_exit_to_else,
    'name-call-results(return f() -> r = f(); return r)': M.name_call_results,
    'ifexp-to-statement': M.ifexp_to_statement,
    'comprehension-to-loop': M.comprehension_to_loop,
}


def verdict(pid, sources, root):
    mod = load_rules(pid)
    repo = Repo(root, sources=sources)
    rep = Report(pid, 'quick', repo)
    ctx = Ctx(repo, rep, 'quick')
    mod.run(ctx)
    return {(o.rule, o.key.split('#')[0]) for o in rep.violated()}, len(rep.obligations)


def main(root='/repo', only=None):
    base_src = read_sources(root)
    bad = 0
    for pid in PROPERTIES:
        if only and pid not in only:
            continue
        try:
            base, nb = verdict(pid, base_src, root)
        except AnalysisError as e:
            print(pid, 'BASE ANALYSIS-ERROR', e)
            bad += 1
            continue
        for name, fn in VARIANTS.items():
            try:
                v, n = verdict(pid, fn(base_src), root)
                extra = v - base
                missing = base - v
                if extra or missing:
                    bad += 1
                    print('%s %-38s FRESH %s LOST %s' % (pid, name, sorted(extra)[:4], sorted(missing)[:4]))
                elif n != nb:
                    print('%s %-38s obligations %d -> %d' % (pid, name, nb, n))
            except AnalysisError as e:
                bad += 1
                print('%s %-38s ANALYSIS-ERROR %s' % (pid, name, str(e)[:150]))
            except Exception as e:
                bad += 1
                import traceback
                print('%s %-38s CRASH %r' % (pid, name, e))
                traceback.print_exc(limit=3)
    print('variants with changed verdict:', bad)
    return bad


if __name__ == '__main__':
    args = [a for a in sys.argv[1:] if not a.startswith('--')]
    sys.exit(1 if main(only=set(args) or None) else 0)
