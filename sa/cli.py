"""Command line: ./check <property> [--tier quick|thorough] [--repo PATH]
                  ./check replay <file>
                  ./check all [--tier ...]
exit 0: every obligation discharged (or only known findings)
exit 1: VIOLATION line(s) printed
exit 2: ANALYSIS-ERROR (anchor vanished, undecidable shape, control failed, internal error)
"""
import argparse
import importlib
import json
import os
import sys
import traceback

from .model import Repo, AnalysisError
from .report import Report
from .effects import EffectAnalyser

PROPERTIES = ['C01', 'C02', 'C03', 'C04', 'C05', 'C06', 'C07', 'C08', 'C09', 'C10', 'C11',
              'C12', 'C13', 'C14', 'C15', 'C17', 'C18', 'C19', 'C20']


class Ctx:
    """what a rule module gets"""

    def __init__(self, repo, report, tier):
        self.repo = repo
        self.report = report
        self.tier = tier
        self.effects = EffectAnalyser(repo)
        self.cache = {}


def load_rules(pid):
    try:
        return importlib.import_module('sa.rules.%s' % pid.lower())
    except ImportError as e:
        raise AnalysisError('no rule module for %s: %s' % (pid, e))


def run_property(pid, tier, repo_root, write=True, out=print, evidence_dir=None, controls=True):
    repo = Repo(repo_root)
    mod = load_rules(pid)
    seed = int(os.environ.get('VERIF_SEED', '0') or 0)
    report = Report(pid, tier, repo, seed)
    ctx = Ctx(repo, report, tier)
    from .report import load_known
    try:
        mod.run(ctx)
    except AnalysisError as e:
        # a later rule could not be decided; if earlier rules already found violations on this tree these are the
        # result (exit 1), the undecidable remainder is reported alongside
        known0, _f0 = load_known()
        if not [o for o in report.violated() if (pid, o.key) not in known0]:
            raise
        report.note('ANALYSIS-ERROR after violations were found: %s' % e)
        out('ANALYSIS-ERROR property=%s (after the violations below) %s' % (pid, e))
    known, _f = load_known()
    unknown = [o for o in report.violated() if (pid, o.key) not in known]
    if os.environ.get('SA_NO_CONTROLS') == '1':
        controls = False
    if controls and unknown:
        # the tree already violates the property: report that; controls (which are relative to a passing base)
        # would only mask it
        report.controls.append({'control': 'all', 'applied': False, 'detail': 'skipped: the analysed tree has violations'})
    elif controls:
        from . import controls as C
        C.run_controls(pid, mod, ctx, tier)
        if tier == 'thorough':
            from . import crosscheck
            crosscheck.run(ctx)
            if os.environ.get('SA_NO_SWEEP') != '1':
                # systematic single-site mutants of the anchored functions: coverage evidence, never a verdict
                from . import sweep
                muts, noticed, survivors, crashes = sweep.sweep(pid, repo_root)
                if crashes:
                    raise AnalysisError('the checker crashed on %d generated mutants, e.g. %s' % (len(crashes), crashes[0]))
                report.analysed['mutation_sweep'] = {
                    'anchored_functions': len(sweep.ANCHORS.get(pid, [])), 'single_site_mutants': len(muts),
                    'noticed_by_this_check': len(noticed), 'not_noticed': len(survivors),
                    'note': 'mutants that this property\'s rules do not notice are equivalent, irrelevant to the property, '
                            'caught by another property\'s check, or outside static reach; they are listed for triage',
                    'not_noticed_sample': ['%s.%s: %s' % s for s in survivors[:40]]}
    rc, ev = report.finish(mod.META, out=out, write=write, evidence_dir=evidence_dir)
    return rc, report, ev


def main(argv=None):
    ap = argparse.ArgumentParser(prog='check')
    ap.add_argument('what')
    ap.add_argument('path', nargs='?')
    ap.add_argument('--tier', default=os.environ.get('VERIF_TIER', 'quick'),
                    choices=['quick', 'thorough'])
    ap.add_argument('--repo', default=os.environ.get('SA_REPO', '/repo'))
    ap.add_argument('--no-write', action='store_true')
    ap.add_argument('--evidence-dir', default=None)
    a = ap.parse_args(argv)
    try:
        if a.what == 'replay':
            rp = json.load(open(a.path))
            pid = rp['property']
            rc, report, _ = run_property(pid, 'quick', a.repo, write=False, out=lambda *x: None,
                                         controls=False)
            hit = [o for o in report.violated() if o.key == rp['construct'] and o.rule == rp['rule']]
            if hit:
                o = hit[0]
                print('  %s %s at %s: %s' % (o.rule, o.key, o.where, o.detail))
                for line in o.path:
                    print('      | %s' % line)
                print('VIOLATION property=%s replay=%s' % (pid, a.path))
                return 1
            print('replay: obligation %s %s is discharged on the current tree' % (rp['rule'], rp['construct']))
            return 0
        if a.what == 'all':
            worst = 0
            for pid in PROPERTIES:
                try:
                    rc, _, _ = run_property(pid, a.tier, a.repo, write=not a.no_write,
                                            evidence_dir=a.evidence_dir)
                except AnalysisError as e:
                    print('ANALYSIS-ERROR property=%s %s' % (pid, e))
                    rc = 2
                worst = max(worst, rc)
            return worst
        pid = a.what.upper()
        rc, _, _ = run_property(pid, a.tier, a.repo, write=not a.no_write,
                                evidence_dir=a.evidence_dir)
        return rc
    except AnalysisError as e:
        print('ANALYSIS-ERROR property=%s %s' % (a.what, e))
        return 2
    except Exception:
        print('ANALYSIS-ERROR property=%s internal error in the checker' % a.what)
        traceback.print_exc()
        return 2


if __name__ == '__main__':
    sys.exit(main())
