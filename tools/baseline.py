#!/venv/bin/python
"""Run the repository's pinned suite (guard off) and compare with BASELINE.json.

usage: tools/baseline.py [repo_root]     (not a registered check; used before fix: commits)
"""
import json, os, subprocess, sys, tempfile
import xml.etree.ElementTree as ET

repo = sys.argv[1] if len(sys.argv) > 1 else '/repo'
base = json.load(open('/root/.vp/BASELINE.json'))
with tempfile.TemporaryDirectory() as d:
    xml = os.path.join(d, 'r.xml')
    env = dict(os.environ)
    env.pop('LAZY_DATASET_VERIF', None)
    p = subprocess.run(['/venv/bin/python', '-m', 'pytest', '-ra', '-q', '-p', 'no:cacheprovider',
                        '--timeout=900', '--continue-on-collection-errors', '--junitxml=' + xml],
                       cwd=repo, env=env, stdout=subprocess.PIPE, stderr=subprocess.STDOUT, text=True)
    res = {}
    for tc in ET.parse(xml).iter('testcase'):
        name = tc.get('classname') + '::' + tc.get('name')
        res[name] = not any(c.tag in ('failure', 'error', 'skipped') for c in tc)
bad = [n for n in base['stable_pass'] if not res.get(n, False)]
print('stable_pass: %d, passing now: %d' % (len(base['stable_pass']), len(base['stable_pass']) - len(bad)))
for n in bad:
    print('REGRESSION', n, 'missing' if n not in res else 'failed')
if bad:
    print(p.stdout[-6000:])
sys.exit(1 if bad else 0)
