#!/venv/bin/python
"""tools/seedcheck.py [--update] — regression harness over /verif/seeded: apply every kept seeded change to a scratch
worktree of /repo HEAD, run all checks against it (controls off), and report which rules fire. With --update the
`caught_by` / `own_property_check_fires` fields of meta.json are rewritten from this run. Exit 1 if a seed is missed."""
import json, os, re, shutil, subprocess, sys, tempfile
from concurrent.futures import ThreadPoolExecutor

def sh(cmd, **kw):
    return subprocess.run(cmd, shell=True, capture_output=True, text=True, **kw)

def one(name):
    d = '/verif/seeded/' + name
    w = tempfile.mkdtemp(prefix='sc.', dir='/tmp')
    wt = w + '/wt'
    sh('git -C /repo worktree add -q --detach %s HEAD' % wt)
    ap = sh('git apply %s/patch.diff' % d, cwd=wt)
    chk = sh('SA_NO_CONTROLS=1 ./check all --repo %s --no-write' % wt, cwd='/verif')
    sh('git -C /repo worktree remove --force %s' % wt); shutil.rmtree(w, ignore_errors=True)
    rules = sorted(set(re.findall(r'^  (C\d+\.\w+) (\S+)', chk.stdout, re.M)))
    errs = re.findall(r'^ANALYSIS-ERROR property=(C\d+) (.*)$', chk.stdout, re.M)
    return name, ap.returncode, rules, errs

names = sorted(os.listdir('/verif/seeded'))
with ThreadPoolExecutor(8) as ex:
    res = list(ex.map(one, names))
missed = 0
for name, ap, rules, errs in res:
    meta = json.load(open('/verif/seeded/%s/meta.json' % name))
    prop = meta['breaks_property']
    own = any(r.startswith(prop + '.') for r, _ in rules)
    print('%-8s apply=%d own-check=%s caught by %s%s' % (name, ap, 'yes' if own else 'NO ', sorted({r for r, _ in rules}) or 'NOTHING',
                                                        (' errors: %s' % sorted({e[0] for e in errs})) if errs else ''))
    if not rules:
        missed += 1
    if '--update' in sys.argv:
        meta['caught_by'] = [{'rule': r, 'construct': k} for r, k in rules]
        meta['analysis_errors'] = [{'property': a, 'message': b[:200]} for a, b in errs]
        meta['own_property_check_fires'] = own
        json.dump(meta, open('/verif/seeded/%s/meta.json' % name, 'w'), indent=1)
print('%d seeds, %d missed' % (len(res), missed))
sys.exit(1 if missed else 0)
