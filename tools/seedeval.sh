#!/bin/sh
# tools/seedeval.sh <dir with patch.diff + demo.py> [--suite]
# confirms a seeded change in a scratch worktree: demo passes on HEAD, fails with the patch; optionally the pinned suite
# still passes; then runs all checks against the patched scratch tree and prints the verdict lines.
D=$(readlink -f "$1"); SUITE=$2
W=$(mktemp -d /tmp/sv.XXXXXX)
git -C /repo worktree add -q --detach "$W/wt" HEAD || exit 2
cd "$W/wt"
DEMO=$(ls "$D"/demo*.py | head -1)
run_demo() { OMP_NUM_THREADS=1 MKL_NUM_THREADS=1 timeout 300 /venv/bin/python "$DEMO" >"$W/demo.$1.log" 2>&1; echo $?; }
case "$DEMO" in *demo_test.py) run_demo() { OMP_NUM_THREADS=1 MKL_NUM_THREADS=1 timeout 300 /venv/bin/python -m pytest -q -p no:cacheprovider -c /dev/null "$DEMO" >"$W/demo.$1.log" 2>&1; echo $?; } ;; esac
C=$(run_demo clean)
git apply "$D/patch.diff" || { echo "PATCH DOES NOT APPLY"; git -C /repo worktree remove --force "$W/wt"; exit 2; }
/venv/bin/python -m py_compile lazy_dataset/*.py || echo "DOES NOT COMPILE"
P=$(run_demo patched)
echo "demo: clean exit=$C patched exit=$P   ($(tail -1 $W/demo.patched.log | cut -c1-120))"
if [ "$SUITE" = "--suite" ]; then /verif/tools/baseline.py "$W/wt" | tail -3; fi
cd /verif && ./check all --repo "$W/wt" --no-write 2>&1 | grep -E "^  C[0-9]+\.|ANALYSIS-ERROR" | cut -c1-260
git -C /repo worktree remove --force "$W/wt"; rm -rf "$W"
