#!/venv/bin/python
"""tools/seed_table.py -- regenerate the table of seeded changes in DESIGN.md (between the SEED-TABLE markers) from
/verif/seeded/*/meta.json and the first line of each notes.md."""
import glob, json, os, re

rows = []
for d in sorted(glob.glob('/verif/seeded/*/')):
    sid = os.path.basename(d.rstrip('/'))
    meta = json.load(open(d + 'meta.json'))
    notes = open(d + 'notes.md').read() if os.path.exists(d + 'notes.md') else ''
    title = ''
    for line in notes.splitlines():
        line = line.strip().lstrip('#').strip()
        if line:
            title = line
            break
    title = re.sub(r'^(C\d+b?\s*)?(change|seed)?\s*\d*\s*[-—:–]*\s*', '', title, flags=re.I).strip() or title
    files = sorted({m.group(1) for m in re.finditer(r'^\+\+\+ b/(\S+)', open(d + 'patch.diff').read(), re.M)})
    funcs = sorted({m.group(1).strip() for m in re.finditer(r'^@@.*@@ (?:class |def )?(.*)$', open(d + 'patch.diff').read(), re.M)})
    rules = sorted({c['rule'] for c in meta.get('caught_by', [])})
    own = [r for r in rules if r.startswith(meta['breaks_property'] + '.')]
    other = [r for r in rules if r not in own]
    rows.append('| %s | %s | %s | %s | %s |' % (
        sid, meta['breaks_property'], title[:110].replace('|', '/'),
        ', '.join(own) or '—', ', '.join(other) or ''))
table = ['| seed | breaks | change (author\'s title) | caught by own check | also reported by |', '|---|---|---|---|---|'] + rows
n = len(rows)
missed = [r for r in rows if '| — |' in r and r.rstrip().endswith('|  |')]
text = '\n'.join(table) + '\n\n%d seeded changes stored; %d reported by the check of the property they were written against, ' \
    '%d reported only by the check of a neighbouring property, %d reported by no check.\n' % (
        n, sum(1 for r in rows if '| — |' not in r), sum(1 for r in rows if '| — |' in r) - len(missed), len(missed))
p = '/verif/DESIGN.md'
s = open(p).read()
a, b = '<!-- SEED-TABLE-BEGIN -->', '<!-- SEED-TABLE-END -->'
if a in s:
    s = s[:s.index(a) + len(a)] + '\n' + text + s[s.index(b):]
    open(p, 'w').write(s)
    print('DESIGN.md updated: %d rows' % n)
else:
    print(text)
