#!/venv/bin/python
"""tools/pack_seeds.py <Cxx> ...  — confirm the sub-agent seeds under /tmp/seed/<Cxx>/seed_out/<i> in a scratch worktree
(demo passes on HEAD, fails with the patch, pinned suite still passes) and store the confirmed ones as
/verif/seeded/<Cxx>-<i>/ {patch.diff, demo.py, notes.md, meta.json}."""
import json, os, re, shutil, subprocess, sys, tempfile

def sh(cmd, **kw):
    return subprocess.run(cmd, shell=True, capture_output=True, text=True, **kw)

head = sh('git -C /repo rev-parse --short HEAD').stdout.strip()
for pid in sys.argv[1:]:
    for i in ('1', '2'):
        src = '/tmp/seed/%s/seed_out/%s' % (pid, i)
        if not os.path.exists(src + '/patch.diff'):
            continue
        demo = [f for f in os.listdir(src) if f.startswith('demo') and f.endswith('.py')][0]
        w = tempfile.mkdtemp(prefix='sv.', dir='/tmp')
        wt = w + '/wt'
        sh('git -C /repo worktree add -q --detach %s HEAD' % wt)
        env = dict(os.environ, OMP_NUM_THREADS='1', MKL_NUM_THREADS='1')
        c = subprocess.run(['/venv/bin/python', src + '/' + demo], cwd=wt, env=env, capture_output=True, text=True, timeout=600)
        ap = sh('git apply %s/patch.diff' % src, cwd=wt)
        comp = sh('/venv/bin/python -m py_compile lazy_dataset/*.py', cwd=wt)
        p = subprocess.run(['/venv/bin/python', src + '/' + demo], cwd=wt, env=env, capture_output=True, text=True, timeout=600)
        suite = sh('/verif/tools/baseline.py %s' % wt)
        chk = sh('./check all --repo %s --no-write' % wt, cwd='/verif')
        rules = sorted(set(re.findall(r'^  (C\d+\.\w+) (\S+)', chk.stdout, re.M)))
        errs = re.findall(r'^ANALYSIS-ERROR property=(C\d+) (.*)$', chk.stdout, re.M)
        sh('git -C /repo worktree remove --force %s' % wt); shutil.rmtree(w, ignore_errors=True)
        ok = c.returncode == 0 and p.returncode != 0 and ap.returncode == 0 and comp.returncode == 0 and suite.returncode == 0
        print('%s-%s: clean=%d patched=%d apply=%d suite=%d -> %s; caught by %s' % (
            pid, i, c.returncode, p.returncode, ap.returncode, suite.returncode, 'KEEP' if ok else 'DROP',
            sorted({r[0] for r in rules}) or 'NOTHING'), flush=True)
        if not ok:
            continue
        dst = '/verif/seeded/%s-%s' % (pid, i)
        os.makedirs(dst, exist_ok=True)
        shutil.copy(src + '/patch.diff', dst + '/patch.diff')
        shutil.copy(src + '/' + demo, dst + '/demo.py')
        notes = open(src + '/notes.md').read() if os.path.exists(src + '/notes.md') else ''
        open(dst + '/notes.md', 'w').write(notes)
        needs = ''
        m = re.search(r'(?is)(needs?|manifest)[^\n]*\n(.*?)(\n#|\n\n\n|\Z)', notes)
        meta = {
            'breaks_property': pid[:3],
            'origin': 'fresh sub-agent given only the property text and a scratch worktree (nothing from /verif)',
            'needs_to_manifest': 'see notes.md (written by the author of the change)',
            'confirmed_on_repo_commit': head,
            'what_was_run': {
                'demo_on_clean_HEAD': 'cd <scratch worktree> && OMP_NUM_THREADS=1 MKL_NUM_THREADS=1 /venv/bin/python demo.py -> exit %d' % c.returncode,
                'demo_with_patch': 'git apply patch.diff && same command -> exit %d (%s)' % (p.returncode, (p.stdout + p.stderr).strip().splitlines()[-1][:160] if (p.stdout + p.stderr).strip() else ''),
                'compiles': 'py_compile lazy_dataset/*.py -> %d' % comp.returncode,
                'pinned_suite_with_patch': suite.stdout.strip().splitlines()[0] if suite.stdout.strip() else '',
                'checks': './check all --repo <scratch worktree>',
            },
            'caught_by': [{'rule': r, 'construct': k} for r, k in rules],
            'analysis_errors': [{'property': a, 'message': b[:200]} for a, b in errs],
            'own_property_check_fires': any(r.startswith(pid[:3] + '.') for r, _ in rules),
        }
        json.dump(meta, open(dst + '/meta.json', 'w'), indent=1)
