#!/venv/bin/python
"""tools/shownorm.py <benign-or-seed dir | repo root> <module> <qualified function>  -- development aid: print the function
as the rules see it (after sa/normalise.py) for a patched scratch tree."""
import ast, os, subprocess, sys, tempfile, shutil
sys.path.insert(0, '/verif')
from sa.model import Repo
from sa.mutate import _find

src, module, path = sys.argv[1:4]
tmp = None
if os.path.exists(os.path.join(src, 'patch.diff')):
    tmp = tempfile.mkdtemp(prefix='sn.', dir='/tmp')
    subprocess.run('git -C /repo archive HEAD | tar -x -C %s && cd %s && git init -q . 2>/dev/null; patch -p1 -s < %s/patch.diff' % (
        tmp, tmp, os.path.abspath(src)), shell=True, check=True)
    root = tmp
else:
    root = src
repo = Repo(root)
fn = _find(repo.module(module).tree, path)
print(ast.unparse(fn) if fn is not None else 'not found')
print('# normalisation:', repo.module(module).normalisation)
if tmp:
    shutil.rmtree(tmp, ignore_errors=True)
