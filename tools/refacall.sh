#!/bin/sh
# evaluate all benign refactor patches (false-alarm regression): prints alarms per patch
for d in /verif/benign/*/; do
  n=$(basename $d); out=$(/verif/tools/refaceval.sh $d 2>&1)
  if [ -n "$out" ]; then echo "== $n"; echo "$out" | cut -c1-${1:-220}; fi
done
echo "done"
