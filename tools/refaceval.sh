#!/bin/sh
# tools/refaceval.sh <dir with patch.diff>: behaviour-preserving refactoring -> every check must stay silent
D=$(readlink -f "$1"); W=$(mktemp -d /tmp/rv.XXXXXX)
git -C /repo worktree add -q --detach "$W/wt" HEAD || exit 2
cd "$W/wt" && git apply "$D/patch.diff" || echo "PATCH DOES NOT APPLY"
cd /verif && SA_NO_CONTROLS=1 ./check all --repo "$W/wt" --no-write 2>&1 | grep -E "^  C[0-9]+\.|ANALYSIS-ERROR" | cut -c1-300
git -C /repo worktree remove --force "$W/wt"; rm -rf "$W"
