#!/venv/bin/python
"""Regenerate /verif/MANIFEST.json from the META blocks of the rule modules."""
import importlib, json, os, subprocess, sys
sys.path.insert(0, os.path.dirname(os.path.dirname(os.path.abspath(__file__))))
from sa.cli import PROPERTIES

SECTION = {p: 'DESIGN.md section 4, ' + p for p in PROPERTIES}
fix_commits = subprocess.run(['git', '-C', '/repo', 'log', '--reverse', '--format=%H %s'], capture_output=True, text=True).stdout
fix_commits = [l.split()[0] for l in fix_commits.splitlines() if ' fix:' in l]
checks = []
for pid in PROPERTIES:
    m = importlib.import_module('sa.rules.' + pid.lower())
    M = m.META
    checks.append({
        'property_id': pid,
        'quick_cmd': './check %s --tier quick' % pid,
        'thorough_cmd': './check %s --tier thorough' % pid,
        'evidence_file': 'evidence/%s.json' % pid,
        'replay_cmd_template': './check replay {path}',
        'engine': 'sa',
        'level_claimed': {
            'category': 'other',
            'text': 'Static analysis (no execution of /repo): ' + M['explanation'],
            'design_ref': SECTION[pid],
        },
        'level_note': 'Decided from the source text of /repo/lazy_dataset/*.py on every run. Not decided: %s. Trusted: %s' % (
            M.get('not_decided') or 'nothing further', '; '.join(M.get('assumptions', [])) or 'CPython semantics only'),
        'technique': M['technique'],
    })
manifest = {
    'version': 1,
    'setup_cmd': 'true',
    'hooks': {
        'guard': 'LAZY_DATASET_VERIF',
        'enable': 'not used: the checks parse the sources of /repo and never import or run them, so no hook or '
                  'instrumentation exists in /repo (source_commits lists only the unguarded "fix:" repairs)',
        'baseline_off_cmd': 'cd /repo && /venv/bin/python -m pytest -ra -q -p no:cacheprovider --timeout=900 '
                            '--continue-on-collection-errors',
        'source_commits': fix_commits,
        'add_only': True,
    },
    'engines': [{
        'name': 'sa', 'path': 'sa/',
        'serves_properties': PROPERTIES,
        'kind_free_text': 'repository-specific static analyser: source normaliser (canonical forms, inlining of new private helpers), '
                          'ast program model with class-hierarchy resolution, '
                          'hand-built statement CFG (dominance, must-pass-through, path enumeration, abstract '
                          'interpretation of the submit loop), effect / kind / freshness analyses, parameter-binding flow; '
                          'zero dependencies, runs under /venv/bin/python',
    }],
    'checks': checks,
    'notes': 'exit 0 = all obligations discharged or only known findings (known_findings.txt); exit 1 = VIOLATION line; '
             'exit 2 = ANALYSIS-ERROR (anchor vanished / undecidable shape / control failed), never a fake violation.',
    'not_applicable': [{
        'property_id': 'C16',
        'reason': 'every law relates the runtime values of two structurally different pipelines (batch/unbatch identity, '
                  'slice composition, map fusion, ...); no shape of the code is a necessary condition for them beyond the '
                  'per-stage clauses already decided under C01-C03, C08, C12 and C15, and a static rule here could only be '
                  'a frozen-fragment proxy. Static analysis cannot decide it; DESIGN.md section 4 (C16) and section 9.',
    }],
}
json.dump(manifest, open(os.path.join(os.path.dirname(os.path.dirname(os.path.abspath(__file__))), 'MANIFEST.json'), 'w'), indent=1)
print('MANIFEST.json written: %d checks, %d fix commits' % (len(checks), len(fix_commits)))
