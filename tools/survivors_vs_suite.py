#!/venv/bin/python
"""tools/survivors_vs_suite.py [jobs]  -- development aid, not a registered check.

Takes the single-site mutants of the union sweep (sa.sweep) that no check notices and runs the repository's pinned
test suite on each of them in a scratch copy (outside /repo and /verif, removed afterwards). A mutant that survives
the checks AND the suite is a candidate gap: it is printed for triage (equivalent / outside every property / a rule
to add). Mutants that only touch log / warning text are skipped."""
import json, os, re, shutil, subprocess, sys, tempfile
from concurrent.futures import ThreadPoolExecutor
sys.path.insert(0, '/verif')
from sa import sweep as S
from sa.model import read_sources

SKIP = re.compile(r"warnings\.warn|LOG\.|swap first two arguments of `isinstance|textwrap|humanfriendly|duplicates|"
                  r"KeyErrorCloseMatches|raise AssertionError|raise RuntimeError|raise NotImplementedError|raise Exception|"
                  r"catched_count|total_count|filtered_count|dropped_count|types = ")
base = json.load(open('/root/.vp/BASELINE.json'))


def nodeid(name):
    cls, test = name.split('::', 1)
    return cls.replace('.', '/') + '.py::' + test


DESELECT = [a for n in base['always_fail'] for a in ('--deselect', nodeid(n))]


def run_one(job):
    k, module, path, desc, sources = job
    d = tempfile.mkdtemp(prefix='sm.', dir='/tmp')
    try:
        subprocess.run('git -C /repo archive HEAD | tar -x -C %s' % d, shell=True, check=True)
        with open(os.path.join(d, 'lazy_dataset', module + '.py'), 'w') as fh:
            fh.write(sources[module])
        env = dict(os.environ, OMP_NUM_THREADS='1', MKL_NUM_THREADS='1')
        env.pop('LAZY_DATASET_VERIF', None)
        p = subprocess.run(['/venv/bin/python', '-m', 'pytest', '-q', '-x', '-p', 'no:cacheprovider', '--timeout=300'] + DESELECT,
                           cwd=d, env=env, stdout=subprocess.PIPE, stderr=subprocess.STDOUT, text=True, timeout=1800)
        tail = p.stdout.strip().splitlines()[-1] if p.stdout.strip() else ''
        return k, module, path, desc, p.returncode, tail
    except subprocess.TimeoutExpired:
        return k, module, path, desc, 99, 'timeout'
    finally:
        shutil.rmtree(d, ignore_errors=True)


if __name__ == '__main__':
    jobs = int(sys.argv[1]) if len(sys.argv) > 1 else 8
    rows = [r for r in S.sweep_all(keep_sources=True) if not r[3]]
    todo = []
    for k, r in enumerate(rows):
        module, path, desc, _by, sources = r
        if SKIP.search(desc):
            continue
        todo.append((k, module, path, desc, sources))
    print('%d survivors of the checks, %d after skipping text-only mutants' % (len(rows), len(todo)), flush=True)
    with ThreadPoolExecutor(max_workers=jobs) as ex:
        for k, module, path, desc, rc, tail in ex.map(run_one, todo):
            print('%s %s.%s: %s   [%s]' % ('SUITE-PASSES' if rc == 0 else 'killed-by-suite', module, path, desc, tail[:80]), flush=True)
